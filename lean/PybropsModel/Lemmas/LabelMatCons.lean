/-
Lemmas/LabelMatCons.lean — shape consistency (`consistentOK`, clause S1 of the Spec) is preserved by
edits along one labelled axis as long as no dimension becomes 0.
-/
import PybropsModel.Lemmas.LabelMatBinary

set_option autoImplicit false
set_option linter.unusedVariables false

namespace LabelMat

variable {α lab : Type}

/-- no dimension is 0 ("all shapes down to a single row or column") -/
def PosDims (m : Mat3 α) : Prop := 0 < axLen 0 m ∧ 0 < axLen 1 m ∧ 0 < axLen 2 m

theorem Natural.mem {f : ListOp} (hf : Natural f) {β : Type} (l : List β) (x : β) (hx : x ∈ f β l) : x ∈ l := by
  have h : some x ∈ (f β l).map some := List.mem_map.mpr ⟨x, hx, rfl⟩
  rw [hf.gather] at h
  obtain ⟨i, _, hi⟩ := List.mem_map.mp h
  exact List.mem_of_getElem? hi

theorem Natural2.mem {g : ListOp2} (hg : Natural2 g) {β : Type} (l v : List β) (x : β) (hx : x ∈ g β l v) :
    x ∈ l ∨ x ∈ v := by
  have h : some x ∈ (g β l v).map some := List.mem_map.mpr ⟨x, hx, rfl⟩
  rw [hg.gather] at h
  obtain ⟨i, _, hi⟩ := List.mem_map.mp h
  exact List.mem_append.mp (List.mem_of_getElem? hi)

theorem Natural2.length {g : ListOp2} (hg : Natural2 g) {β : Type} (l v : List β) :
    (g β l v).length = (prov2 g l.length v.length).length := by
  have h := congrArg List.length (hg.gather l v)
  simpa using h

/-- Prop form of `consistentOK` -/
def Cons (sch : Schema) (s : St α lab) : Prop :=
  rect s.mat = true ∧ (∀ k a, a ∈ sch.axes k → ColsLen (s.bundle k) (axLen a s.mat)) ∧
    ∀ k a b, a ∈ sch.axes k → b ∈ sch.axes k → axLen a s.mat = axLen b s.mat

theorem cons_iff (sch : Schema) (s : St α lab) : consistentOK sch s = true ↔ Cons sch s := by
  constructor
  · intro h
    refine ⟨consistent_rect h, fun k a ha => colsLen_of_consistent h k a ha, ?_⟩
    intro k a b ha hb
    unfold consistentOK at h
    simp only [Bool.and_eq_true, List.all_eq_true, beq_iff_eq] at h
    exact h.2 k (by cases k <;> simp) a ha b hb
  · rintro ⟨hr, hc, hsq⟩
    unfold consistentOK
    simp only [Bool.and_eq_true, List.all_eq_true, beq_iff_eq]
    refine ⟨⟨hr, ?_⟩, ?_⟩
    · intro k _ a ha c hcm
      cases c with
      | none => rfl
      | some l => simpa using hc k a ha l hcm
    · intro k _ a ha b hb
      exact hsq k a b ha hb

theorem rect_iff (m : Mat3 α) :
    rect m = true ↔ ∀ pl ∈ m, pl.length = axLen 1 m ∧ ∀ r ∈ pl, r.length = axLen 2 m := by
  unfold rect
  simp only [List.all_eq_true, Bool.and_eq_true, beq_iff_eq]

theorem axLen1_cons (pl : List (List α)) (rest : Mat3 α) : axLen 1 (pl :: rest) = pl.length := by
  simp [axLen]

theorem axLen2_cons_cons (r : List α) (rs : List (List α)) (rest : Mat3 α) :
    axLen 2 ((r :: rs) :: rest) = r.length := by
  simp [axLen]

theorem posDims_destruct {m : Mat3 α} (h : PosDims m) :
    ∃ r0 rs rest, m = (r0 :: rs) :: rest ∧ 0 < r0.length := by
  obtain ⟨h0, h1, h2⟩ := h
  cases m with
  | nil => simp [axLen] at h0
  | cons pl rest =>
    cases pl with
    | nil => simp [axLen] at h1
    | cons r0 rs =>
      refine ⟨r0, rs, rest, rfl, ?_⟩
      simpa [axLen] using h2

/-- **Shape of the edited array.**  Along the edited axis the length becomes that of the index list,
    every other length is kept, and the array stays rectangular — provided the result is not empty. -/
theorem axMap_shape {f : ListOp} (hf : Natural f) (a : Nat) (ha : a < 3) (m : Mat3 α)
    (hr : rect m = true) (hp : PosDims m) (hne : 0 < (prov f (axLen a m)).length) :
    rect (axMap a f m) = true ∧ axLen a (axMap a f m) = (prov f (axLen a m)).length ∧
      ∀ b, b < 3 → b ≠ a → axLen b (axMap a f m) = axLen b m := by
  obtain ⟨r0, rs, rest, rfl, hr0⟩ := posDims_destruct hp
  rw [rect_iff] at hr
  have h3 : a = 0 ∨ a = 1 ∨ a = 2 := by omega
  rcases h3 with rfl | rfl | rfl
  · -- planes are gathered
    set m := (r0 :: rs) :: rest with hm
    have hlen : (f _ m).length = (prov f m.length).length := hf.length m
    have hmem : ∀ pl ∈ f _ m, pl ∈ m := fun pl h => hf.mem m pl h
    have hpos : 0 < (f _ m).length := by rw [hlen]; simpa [axLen] using hne
    obtain ⟨pl0, rest', hfm⟩ : ∃ pl0 rest', f _ m = pl0 :: rest' := by
      cases hf' : f _ m with
      | nil => rw [hf'] at hpos; simp at hpos
      | cons a b => exact ⟨a, b, rfl⟩
    have hpl0 : pl0 ∈ m := hmem pl0 (by rw [hfm]; simp)
    have h1 : axLen 1 (f _ m) = axLen 1 m := by
      rw [hfm, axLen1_cons]; exact (hr pl0 hpl0).1
    have h2 : axLen 2 (f _ m) = axLen 2 m := by
      have hl := (hr pl0 hpl0).1
      rw [hm, axLen1_cons] at hl
      cases pl0 with
      | nil => simp at hl
      | cons q0 qs =>
        rw [hfm, axLen2_cons_cons]
        exact (hr _ hpl0).2 q0 (by simp)
    refine ⟨?_, by simpa [axMap, axLen] using hlen, ?_⟩
    · rw [rect_iff]
      intro pl hpl
      have := hr pl (hmem pl hpl)
      simp only [axMap] at hpl ⊢
      rw [h1, h2]
      exact this
    · intro b hb hba
      have : b = 1 ∨ b = 2 := by omega
      rcases this with rfl | rfl
      · simpa [axMap] using h1
      · simpa [axMap] using h2
  · -- rows of every plane are gathered
    set m := (r0 :: rs) :: rest with hm
    have hn : axLen 1 m = (r0 :: rs).length := by rw [hm, axLen1_cons]
    have hplen : ∀ pl ∈ m, (f _ pl).length = (prov f (axLen 1 m)).length := by
      intro pl hpl
      rw [hf.length, (hr pl hpl).1]
    have hrow : ∀ pl ∈ m, ∀ r ∈ f _ pl, r.length = axLen 2 m := by
      intro pl hpl r hrr
      exact (hr pl hpl).2 r (hf.mem pl r hrr)
    have h1 : axLen 1 (axMap 1 f m) = (prov f (axLen 1 m)).length := by
      simp only [axMap, hm, List.map_cons, axLen1_cons]
      exact hplen _ (by simp [hm])
    have h2 : axLen 2 (axMap 1 f m) = axLen 2 m := by
      have hl := hplen (r0 :: rs) (by simp [hm])
      cases hq : f _ (r0 :: rs) with
      | nil => rw [hq] at hl; simp at hl; omega
      | cons q0 qs =>
        simp only [axMap, hm, List.map_cons, hq, axLen2_cons_cons]
        exact hrow (r0 :: rs) (by simp [hm]) q0 (by rw [hq]; simp)
    refine ⟨?_, h1, ?_⟩
    · rw [rect_iff]
      intro pl' hpl'
      simp only [axMap, List.mem_map] at hpl'
      obtain ⟨pl, hpl, rfl⟩ := hpl'
      rw [h1, h2]
      exact ⟨hplen pl hpl, hrow pl hpl⟩
    · intro b hb hba
      have : b = 0 ∨ b = 2 := by omega
      rcases this with rfl | rfl
      · simp [axMap, axLen]
      · exact h2
  · -- cells of every row are gathered
    set m := (r0 :: rs) :: rest with hm
    have hrlen : ∀ pl ∈ m, ∀ r ∈ pl, (f _ r).length = (prov f (axLen 2 m)).length := by
      intro pl hpl r hrr
      rw [hf.length, (hr pl hpl).2 r hrr]
    have h2 : axLen 2 (axMap 2 f m) = (prov f (axLen 2 m)).length := by
      simp only [axMap, hm, List.map_cons, axLen2_cons_cons]
      exact hrlen (r0 :: rs) (by simp [hm]) r0 (by simp)
    have h1 : axLen 1 (axMap 2 f m) = axLen 1 m := by
      simp only [axMap, hm, List.map_cons, axLen1_cons, List.length_cons, List.length_map]
    refine ⟨?_, h2, ?_⟩
    · rw [rect_iff]
      intro pl' hpl'
      simp only [axMap, List.mem_map] at hpl'
      obtain ⟨pl, hpl, rfl⟩ := hpl'
      rw [h1, h2]
      refine ⟨by simpa using (hr pl hpl).1, ?_⟩
      intro r' hr'
      obtain ⟨r, hrr, rfl⟩ := List.mem_map.mp hr'
      exact hrlen pl hpl r hrr
    · intro b hb hba
      have : b = 0 ∨ b = 1 := by omega
      rcases this with rfl | rfl
      · simp [axMap, axLen]
      · exact h1

end LabelMat

namespace LabelMat

variable {α lab : Type}

theorem mem_zipWith {β γ δ : Type} (f : β → γ → δ) (l : List β) (l' : List γ) (x : δ)
    (h : x ∈ List.zipWith f l l') : ∃ a ∈ l, ∃ b ∈ l', x = f a b := by
  induction l generalizing l' with
  | nil => simp at h
  | cons a l ih =>
    cases l' with
    | nil => simp at h
    | cons b l' =>
      simp only [List.zipWith_cons_cons, List.mem_cons] at h
      rcases h with rfl | h
      · exact ⟨a, by simp, b, by simp, rfl⟩
      · obtain ⟨a', ha', b', hb', rfl⟩ := ih l' h
        exact ⟨a', by simp [ha'], b', by simp [hb'], rfl⟩

/-- **Shape after an edit with an operand.** -/
theorem axZip_shape {g : ListOp2} (hg : Natural2 g) (a : Nat) (ha : a < 3) (m v : Mat3 α)
    (hr : rect m = true) (hrv : rect v = true) (hp : PosDims m) (hpv : PosDims v)
    (hcomp : ∀ b, b < 3 → b ≠ a → axLen b v = axLen b m)
    (hne : 0 < (prov2 g (axLen a m) (axLen a v)).length) :
    rect (axZip a g m v) = true ∧ axLen a (axZip a g m v) = (prov2 g (axLen a m) (axLen a v)).length ∧
      ∀ b, b < 3 → b ≠ a → axLen b (axZip a g m v) = axLen b m := by
  obtain ⟨r0, rs, rest, rfl, hr0⟩ := posDims_destruct hp
  obtain ⟨w0, ws, vrest, rfl, hw0⟩ := posDims_destruct hpv
  rw [rect_iff] at hr hrv
  have h3 : a = 0 ∨ a = 1 ∨ a = 2 := by omega
  rcases h3 with rfl | rfl | rfl
  · set m := (r0 :: rs) :: rest with hm
    set v := (w0 :: ws) :: vrest with hv
    have c1 : axLen 1 v = axLen 1 m := hcomp 1 (by omega) (by omega)
    have c2 : axLen 2 v = axLen 2 m := hcomp 2 (by omega) (by omega)
    have hlen : (g _ m v).length = (prov2 g m.length v.length).length := hg.length m v
    have hplane : ∀ pl ∈ g _ m v, pl.length = axLen 1 m ∧ ∀ r ∈ pl, r.length = axLen 2 m := by
      intro pl hpl
      rcases hg.mem m v pl hpl with h | h
      · exact hr pl h
      · have := hrv pl h
        rw [c1, c2] at this
        exact this
    have hpos : 0 < (g _ m v).length := by rw [hlen]; simpa [axLen] using hne
    obtain ⟨pl0, rest', hfm⟩ : ∃ pl0 rest', g _ m v = pl0 :: rest' := by
      cases hf' : g _ m v with
      | nil => rw [hf'] at hpos; simp at hpos
      | cons a b => exact ⟨a, b, rfl⟩
    have hpl0 := hplane pl0 (by rw [hfm]; simp)
    have h1 : axLen 1 (g _ m v) = axLen 1 m := by rw [hfm, axLen1_cons]; exact hpl0.1
    have h2 : axLen 2 (g _ m v) = axLen 2 m := by
      have hl := hpl0.1
      rw [hm, axLen1_cons] at hl
      cases pl0 with
      | nil => simp at hl
      | cons q0 qs =>
        rw [hfm, axLen2_cons_cons]
        exact hpl0.2 q0 (by simp)
    refine ⟨?_, by simpa [axZip, axLen] using hlen, ?_⟩
    · rw [rect_iff]
      intro pl hpl
      simp only [axZip] at hpl ⊢
      rw [h1, h2]
      exact hplane pl hpl
    · intro b hb hba
      have : b = 1 ∨ b = 2 := by omega
      rcases this with rfl | rfl
      · simpa [axZip] using h1
      · simpa [axZip] using h2
  · set m := (r0 :: rs) :: rest with hm
    set v := (w0 :: ws) :: vrest with hv
    have c0 : axLen 0 v = axLen 0 m := hcomp 0 (by omega) (by omega)
    have c2 : axLen 2 v = axLen 2 m := hcomp 2 (by omega) (by omega)
    have hpair : ∀ pl ∈ m, ∀ pv ∈ v, (g _ pl pv).length = (prov2 g (axLen 1 m) (axLen 1 v)).length ∧
        ∀ r ∈ g _ pl pv, r.length = axLen 2 m := by
      intro pl hpl pv hpv
      refine ⟨by rw [hg.length, (hr pl hpl).1, (hrv pv hpv).1], ?_⟩
      intro r hrr
      rcases hg.mem pl pv r hrr with h | h
      · exact (hr pl hpl).2 r h
      · rw [← c2]; exact (hrv pv hpv).2 r h
    have h1 : axLen 1 (axZip 1 g m v) = (prov2 g (axLen 1 m) (axLen 1 v)).length := by
      simp only [axZip, hm, hv, List.zipWith_cons_cons, axLen1_cons]
      exact (hpair _ (by simp [hm]) _ (by simp [hv])).1
    have h2 : axLen 2 (axZip 1 g m v) = axLen 2 m := by
      have hl := hpair (r0 :: rs) (by simp [hm]) (w0 :: ws) (by simp [hv])
      cases hq : g _ (r0 :: rs) (w0 :: ws) with
      | nil => rw [hq] at hl; simp at hl; omega
      | cons q0 qs =>
        simp only [axZip, hm, hv, List.zipWith_cons_cons, hq, axLen2_cons_cons]
        exact hl.2 q0 (by rw [hq]; simp)
    refine ⟨?_, h1, ?_⟩
    · rw [rect_iff]
      intro pl' hpl'
      simp only [axZip] at hpl'
      obtain ⟨pl, hpl, pv, hpv, rfl⟩ := mem_zipWith _ _ _ _ hpl'
      rw [h1, h2]
      exact hpair pl hpl pv hpv
    · intro b hb hba
      have : b = 0 ∨ b = 2 := by omega
      rcases this with rfl | rfl
      · have : v.length = m.length := by simpa [axLen] using c0
        simp [axZip, axLen, this]
      · exact h2
  · set m := (r0 :: rs) :: rest with hm
    set v := (w0 :: ws) :: vrest with hv
    have c0 : axLen 0 v = axLen 0 m := hcomp 0 (by omega) (by omega)
    have c1 : axLen 1 v = axLen 1 m := hcomp 1 (by omega) (by omega)
    have hrow : ∀ pl ∈ m, ∀ pv ∈ v, ∀ r ∈ pl, ∀ rv ∈ pv,
        (g _ r rv).length = (prov2 g (axLen 2 m) (axLen 2 v)).length := by
      intro pl hpl pv hpv r hrr rv hrv'
      rw [hg.length, (hr pl hpl).2 r hrr, (hrv pv hpv).2 rv hrv']
    have h2 : axLen 2 (axZip 2 g m v) = (prov2 g (axLen 2 m) (axLen 2 v)).length := by
      simp only [axZip, hm, hv, List.zipWith_cons_cons, axLen2_cons_cons]
      exact hrow (r0 :: rs) (by simp [hm]) (w0 :: ws) (by simp [hv]) r0 (by simp) w0 (by simp)
    have hplen : ∀ pl ∈ m, ∀ pv ∈ v, (List.zipWith (g _) pl pv).length = axLen 1 m := by
      intro pl hpl pv hpv
      rw [List.length_zipWith, (hr pl hpl).1, (hrv pv hpv).1, c1]
      simp
    have h1 : axLen 1 (axZip 2 g m v) = axLen 1 m := by
      simp only [axZip, hm, hv, List.zipWith_cons_cons, axLen1_cons]
      have := hplen (r0 :: rs) (by simp [hm]) (w0 :: ws) (by simp [hv])
      simpa [hm, axLen1_cons] using this
    refine ⟨?_, h2, ?_⟩
    · rw [rect_iff]
      intro pl' hpl'
      simp only [axZip] at hpl'
      obtain ⟨pl, hpl, pv, hpv, rfl⟩ := mem_zipWith _ _ _ _ hpl'
      rw [h1, h2]
      refine ⟨hplen pl hpl pv hpv, ?_⟩
      intro r' hr'
      obtain ⟨r, hrr, rv, hrv', rfl⟩ := mem_zipWith _ _ _ _ hr'
      exact hrow pl hpl pv hpv r hrr rv hrv'
    · intro b hb hba
      have : b = 0 ∨ b = 1 := by omega
      rcases this with rfl | rfl
      · have : v.length = m.length := by simpa [axLen] using c0
        simp [axZip, axLen, this]
      · exact h1

end LabelMat

namespace LabelMat

variable {α lab : Type}

/-- along the edited axis the new length is that of the index list (no non-emptiness needed) -/
theorem axMap_axLen_self {f : ListOp} (hf : Natural f) (a : Nat) (ha : a < 3) (m : Mat3 α)
    (hr : rect m = true) (hp : PosDims m) :
    axLen a (axMap a f m) = (prov f (axLen a m)).length := by
  obtain ⟨r0, rs, rest, rfl, hr0⟩ := posDims_destruct hp
  rw [rect_iff] at hr
  have h3 : a = 0 ∨ a = 1 ∨ a = 2 := by omega
  rcases h3 with rfl | rfl | rfl
  · simpa [axMap, axLen] using hf.length ((r0 :: rs) :: rest)
  · simp only [axMap, List.map_cons, axLen1_cons]
    rw [hf.length]
  · simp only [axMap, List.map_cons, axLen2_cons_cons]
    rw [hf.length]

theorem axZip_axLen_self {g : ListOp2} (hg : Natural2 g) (a : Nat) (ha : a < 3) (m v : Mat3 α)
    (hp : PosDims m) (hpv : PosDims v) :
    axLen a (axZip a g m v) = (prov2 g (axLen a m) (axLen a v)).length := by
  obtain ⟨r0, rs, rest, rfl, hr0⟩ := posDims_destruct hp
  obtain ⟨w0, ws, vrest, rfl, hw0⟩ := posDims_destruct hpv
  have h3 : a = 0 ∨ a = 1 ∨ a = 2 := by omega
  rcases h3 with rfl | rfl | rfl
  · simpa [axZip, axLen] using hg.length ((r0 :: rs) :: rest) ((w0 :: ws) :: vrest)
  · simp only [axZip, List.zipWith_cons_cons, axLen1_cons]
    rw [hg.length]
  · simp only [axZip, List.zipWith_cons_cons, axLen2_cons_cons]
    rw [hg.length]

theorem colsLen_mapCols {f : ListOp} (hf : Natural f) (b : Bundle lab) (n : Nat) (h : ColsLen b n) :
    ColsLen (b.mapCols f) (prov f n).length := by
  intro l' hl'
  simp only [Bundle.mapCols, List.mem_map] at hl'
  obtain ⟨c, hc, hcl⟩ := hl'
  cases c with
  | none => cases hcl
  | some l =>
    simp only [Option.map_some, Option.some.injEq] at hcl
    subst hcl
    rw [hf.length, h l hc]

theorem colsLen_congr {b b' : Bundle lab} (h : b'.cols = b.cols) (n : Nat) (hb : ColsLen b n) : ColsLen b' n := by
  intro l hl; rw [h] at hl; exact hb l hl

/-- **Unary edits preserve shape consistency** (as long as no dimension is or becomes 0). -/
theorem cons_of_unaryForm (sch : Schema) (hwf : sch.WF) (k : Kind) (a : Nat) (hax : sch.axes k = [a]) (ha : a < 3)
    (hlt : ∀ kk b, b ∈ sch.axes kk → b < 3)
    (s s' : St α lab) (hc : Cons sch s) (hp : PosDims s.mat) (hp' : PosDims s'.mat)
    (hu : UnaryForm sch k s s') : Cons sch s' := by
  obtain ⟨f, hf, hm, hcols⟩ := hu
  have hmat : s'.mat = axMap a f s.mat := by rw [hm]; simp [applyK, hax]
  have hself := axMap_axLen_self hf a ha s.mat hc.1 hp
  have hne : 0 < (prov f (axLen a s.mat)).length := by
    rw [← hself, ← hmat]
    have h3 : a = 0 ∨ a = 1 ∨ a = 2 := by omega
    rcases h3 with rfl | rfl | rfl
    · exact hp'.1
    · exact hp'.2.1
    · exact hp'.2.2
  obtain ⟨hrect, hla, hlb⟩ := axMap_shape hf a ha s.mat hc.1 hp hne
  refine ⟨by rw [hmat]; exact hrect, ?_, ?_⟩
  rotate_left
  · intro kk b1 b2 h1 h2
    by_cases hk : kk = k
    · subst hk
      rw [hax] at h1 h2
      simp only [List.mem_singleton] at h1 h2
      rw [h1, h2]
    · have n1 : b1 ≠ a := by
        intro e; subst e; exact hk (hwf b1 kk k h1 (by rw [hax]; simp))
      have n2 : b2 ≠ a := by
        intro e; subst e; exact hk (hwf b2 kk k h2 (by rw [hax]; simp))
      rw [hmat, hlb b1 (hlt kk b1 h1) n1, hlb b2 (hlt kk b2 h2) n2]
      exact hc.2.2 kk b1 b2 h1 h2
  intro kk b hb
  by_cases hk : kk = k
  · subst hk
    rw [hax] at hb
    simp only [List.mem_singleton] at hb
    subst hb
    have hbk : ((applyK sch kk f s).bundle kk) = (s.bundle kk).mapCols f := by simp [applyK]
    rw [hmat, hla]
    refine colsLen_congr (b := (s.bundle kk).mapCols f) ?_ _
      (colsLen_mapCols hf _ _ (hc.2.1 kk b (by rw [hax]; simp)))
    rw [hcols kk, hbk]
  · have hba : b ≠ a := by
      intro e; subst e
      exact hk (hwf b kk k hb (by rw [hax]; simp))
    have hbo : ((applyK sch k f s).bundle kk) = s.bundle kk := by
      simp [applyK, bundle_setBundle_ne _ _ _ _ hk]
    rw [hmat, hlb b (hlt kk b hb) hba]
    refine colsLen_congr (b := s.bundle kk) ?_ _ (hc.2.1 kk b hb)
    rw [hcols kk, hbo]

theorem zipCols_mem {g : List lab → List lab → List lab} (cs ds rs : List (Option (List lab)))
    (h : zipCols g cs ds = .ok rs) (l' : List lab) (hl' : some l' ∈ rs) :
    ∃ l lv, some l ∈ cs ∧ some lv ∈ ds ∧ l' = g l lv := by
  induction cs generalizing ds rs with
  | nil => simp only [zipCols, pure, Except.pure] at h; cases h; cases hl'
  | cons c cs ih =>
    cases ds with
    | nil =>
      simp only [zipCols, bind, Except.bind] at h
      split at h
      · cases h
      · rename_i rest hrest
        cases c with
        | none =>
          simp only [pure, Except.pure] at h
          cases h
          rcases List.mem_cons.mp hl' with h1 | h1
          · cases h1
          · obtain ⟨l, lv, _, h3, _⟩ := ih [] rest hrest h1
            cases h3
        | some l => simp only [throw, throwThe, MonadExceptOf.throw] at h; cases h
    | cons d ds =>
      simp only [zipCols, bind, Except.bind] at h
      split at h
      · cases h
      · rename_i rest hrest
        have ihr := ih ds rest hrest
        cases c with
        | none =>
          cases d with
          | none =>
            simp only [pure, Except.pure] at h
            cases h
            rcases List.mem_cons.mp hl' with h1 | h1
            · cases h1
            · obtain ⟨l, lv, h2, h3, h4⟩ := ihr h1
              exact ⟨l, lv, by simp [h2], by simp [h3], h4⟩
          | some lv => simp only [throw, throwThe, MonadExceptOf.throw] at h; cases h
        | some l =>
          cases d with
          | none => simp only [throw, throwThe, MonadExceptOf.throw] at h; cases h
          | some lv =>
            simp only [pure, Except.pure] at h
            cases h
            rcases List.mem_cons.mp hl' with h1 | h1
            · simp only [Option.some.injEq] at h1
              exact ⟨l, lv, by simp, by simp, h1⟩
            · obtain ⟨l2, lv2, h2, h3, h4⟩ := ihr h1
              exact ⟨l2, lv2, by simp [h2], by simp [h3], h4⟩

/-- **Edits with an operand preserve shape consistency.** -/
theorem cons_of_binaryForm (sch : Schema) (hwf : sch.WF) (k : Kind) (a : Nat) (hax : sch.axes k = [a]) (ha : a < 3)
    (hlt : ∀ kk b, b ∈ sch.axes kk → b < 3)
    (s : St α lab) (v : Operand α lab) (s' : St α lab)
    (hc : Cons sch s) (hcv : Cons sch (operandState s k v)) (hcompat : compatShape sch k s.mat v.mat = true)
    (hp : PosDims s.mat) (hpv : PosDims v.mat) (hp' : PosDims s'.mat)
    (hb : BinaryForm sch k a s v s') : Cons sch s' := by
  obtain ⟨g, hg, hmat, hcols, hoth⟩ := hb
  have hcomp : ∀ b, b < 3 → b ≠ a → axLen b v.mat = axLen b s.mat :=
    fun b hb3 hba => compat_axLen hax hcompat b hba hb3
  have hself := axZip_axLen_self hg a ha s.mat v.mat hp hpv
  have hne : 0 < (prov2 g (axLen a s.mat) (axLen a v.mat)).length := by
    rw [← hself, ← hmat]
    have h3 : a = 0 ∨ a = 1 ∨ a = 2 := by omega
    rcases h3 with rfl | rfl | rfl
    · exact hp'.1
    · exact hp'.2.1
    · exact hp'.2.2
  have hrv : rect v.mat = true := hcv.1
  obtain ⟨hrect, hla, hlb⟩ := axZip_shape hg a ha s.mat v.mat hc.1 hrv hp hpv hcomp hne
  refine ⟨by rw [hmat]; exact hrect, ?_, ?_⟩
  rotate_left
  · intro kk b1 b2 h1 h2
    by_cases hk : kk = k
    · subst hk
      rw [hax] at h1 h2
      simp only [List.mem_singleton] at h1 h2
      rw [h1, h2]
    · have n1 : b1 ≠ a := by
        intro e; subst e; exact hk (hwf b1 kk k h1 (by rw [hax]; simp))
      have n2 : b2 ≠ a := by
        intro e; subst e; exact hk (hwf b2 kk k h2 (by rw [hax]; simp))
      rw [hmat, hlb b1 (hlt kk b1 h1) n1, hlb b2 (hlt kk b2 h2) n2]
      exact hc.2.2 kk b1 b2 h1 h2
  intro kk b hbm
  by_cases hk : kk = k
  · subst hk
    rw [hax] at hbm
    simp only [List.mem_singleton] at hbm
    subst hbm
    rw [hmat, hla]
    intro l' hl'
    obtain ⟨l, lv, h1, h2, rfl⟩ := zipCols_mem _ _ _ hcols l' hl'
    have e1 := hc.2.1 kk b (by rw [hax]; simp) l h1
    have e2 : lv.length = axLen b v.mat := by
      have := hcv.2.1 kk b (by rw [hax]; simp)
      rw [operandState_bundle_same, operandState_mat] at this
      exact this lv h2
    rw [hg.length, e1, e2]
  · have hba : b ≠ a := by
      intro e; subst e
      exact hk (hwf b kk k hbm (by rw [hax]; simp))
    rw [hmat, hlb b (hlt kk b hbm) hba]
    exact colsLen_congr (hoth kk hk) _ (hc.2.1 kk b hbm)

end LabelMat
