/-
Helper lemmas for C02: crossover probabilities assigned from a genetic map (`gdist1g`, `rprob1g`):
1/2 at every chromosome start, and composition of a Haldane-type map function along a chromosome.
-/
import PybropsModel.Lemmas.RecombLaw
import Mathlib.Analysis.SpecialFunctions.Exp
set_option autoImplicit false
set_option linter.unusedSectionVars false

namespace Recomb

section gd
variable {α : Type} [Sub α]

theorem gdistFrom_drop (i : Nat) : ∀ (c : Int) (p : α) (cs : List Int) (ps : List α)
    (hc : i < (c :: cs).length) (hp : i < (p :: ps).length),
    (gdistFrom c p cs ps).drop i = gdistFrom ((c :: cs)[i]) ((p :: ps)[i]) (cs.drop i) (ps.drop i) := by
  induction i with
  | zero => intro c p cs ps _ _; simp
  | succ i ih =>
    intro c p cs ps hc hp
    cases cs with
    | nil => simp at hc
    | cons c' cs' =>
      cases ps with
      | nil => simp at hp
      | cons p' ps' =>
        simp only [gdistFrom, List.drop_succ_cons, List.getElem_cons_succ]
        exact ih c' p' cs' ps' (by simpa using hc) (by simpa using hp)

/-- everything after marker i only depends on marker i and the markers after it -/
theorem gdist1g_drop (chr : List Int) (pos : List α) (i : Nat) (hc : i < chr.length) (hp : i < pos.length) :
    (gdist1g chr pos).drop (i + 1) = gdistFrom chr[i] pos[i] (chr.drop (i + 1)) (pos.drop (i + 1)) := by
  cases chr with
  | nil => simp at hc
  | cons c cs =>
    cases pos with
    | nil => simp at hp
    | cons p ps =>
      simp only [gdist1g, List.drop_succ_cons]
      exact gdistFrom_drop i c p cs ps hc hp

theorem gdistFrom_length (c : Int) (p : α) (cs : List Int) (ps : List α) :
    (gdistFrom c p cs ps).length = min cs.length ps.length := by
  induction cs generalizing c p ps with
  | nil => simp [gdistFrom]
  | cons c' cs ih =>
    cases ps with
    | nil => simp [gdistFrom]
    | cons p' ps => simp [gdistFrom, ih]

theorem gdist1g_length (chr : List Int) (pos : List α) :
    (gdist1g chr pos).length = min chr.length pos.length := by
  cases chr with
  | nil => simp [gdist1g]
  | cons c cs =>
    cases pos with
    | nil => simp [gdist1g]
    | cons p ps => simp [gdist1g, gdistFrom_length]

theorem gdist1g_zero (chr : List Int) (pos : List α) (h : 0 < (gdist1g chr pos).length) :
    (gdist1g chr pos)[0] = none := by
  cases chr with
  | nil => simp [gdist1g] at h
  | cons c cs =>
    cases pos with
    | nil => simp [gdist1g] at h
    | cons p ps => simp [gdist1g]

/-- the entry of marker k+1: distance to marker k on the same chromosome, +inf otherwise -/
theorem gdist1g_succ (chr : List Int) (pos : List α) (k : Nat) (hc : k + 1 < chr.length)
    (hp : k + 1 < pos.length) (h : k + 1 < (gdist1g chr pos).length) :
    (gdist1g chr pos)[k + 1] =
      if chr[k + 1] = chr[k] then some (pos[k + 1] - pos[k]) else none := by
  have hd := gdist1g_drop chr pos k (by omega) (by omega)
  have h1 : (gdist1g chr pos)[k + 1] = ((gdist1g chr pos).drop (k + 1))[0]'(by simp; omega) := by
    simp
  rw [h1]
  have hcd : chr.drop (k + 1) = chr[k + 1] :: chr.drop (k + 2) := by
    rw [List.drop_eq_getElem_cons hc]
  have hpd : pos.drop (k + 1) = pos[k + 1] :: pos.drop (k + 2) := by
    rw [List.drop_eq_getElem_cons hp]
  simp only [hd, hcd, hpd, gdistFrom, List.getElem_cons_zero]

end gd

section fld
variable {α : Type} [Field α] [CharZero α]

/-- product of `1 - 2 h(d_k)` over the first n intervals after a marker at `p` on one chromosome:
    for a map function with `1 - 2 h(d) = e(d)`, `e` multiplicative, it is `e` of the total distance -/
theorem prodD_gdistFrom (e h : α → α) (hh : ∀ d, dfac (h d) = e d) (he0 : e 0 = 1)
    (hadd : ∀ a b, e (a + b) = e a * e b) :
    ∀ (n : Nat) (c : Int) (p : α) (cs : List Int) (ps : List α) (q : α),
      (∀ k < n, cs[k]? = some c) → (p :: ps)[n]? = some q →
      prodD (((gdistFrom c p cs ps).take n).map (mapOpt h)) = e (q - p) := by
  intro n
  induction n with
  | zero =>
    intro c p cs ps q _ hq
    simp only [List.getElem?_cons_zero, Option.some.injEq] at hq
    simp [prodD, ← hq, he0]
  | succ n ih =>
    intro c p cs ps q hk hq
    cases cs with
    | nil => have := hk 0 (by omega); simp at this
    | cons c' cs' =>
      have hc' : c' = c := by have := hk 0 (by omega); simpa using this
      subst hc'
      cases ps with
      | nil => simp at hq
      | cons p' ps' =>
        simp only [gdistFrom, if_true, List.take_succ_cons, List.map_cons, prodD, mapOpt, hh]
        rw [ih c' p' cs' ps' q (fun k hkn => by have := hk (k + 1) (by omega); simpa using this)
            (by simpa using hq), ← hadd]
        congr 1; ring

end fld

section slice
variable {α : Type} [Field α] [CharZero α]

theorem rprob1g_length (h : α → α) (chr : List Int) (pos : List α) :
    (rprob1g h chr pos).length = min chr.length pos.length := by
  simp [rprob1g, gdist1g_length]

/-- the first marker of a chromosome gets crossover probability 1/2, whatever the map function -/
theorem rprob1g_start (h : α → α) (chr : List Int) (pos : List α) (k : Nat) (hc : k < chr.length)
    (hp : k < pos.length) (hstart : k = 0 ∨ chr[k] ≠ chr[k - 1]) :
    (rprob1g h chr pos)[k]'(by rw [rprob1g_length]; omega) = 1 / 2 := by
  have hl : k < (gdist1g chr pos).length := by rw [gdist1g_length]; omega
  simp only [rprob1g, List.getElem_map]
  cases k with
  | zero => rw [gdist1g_zero chr pos hl]; rfl
  | succ k =>
    rw [gdist1g_succ chr pos k hc hp hl]
    have : chr[k + 1] ≠ chr[k] := by
      rcases hstart with h | h
      · omega
      · simpa using h
    rw [if_neg this]; rfl

/-- any other marker gets the map function of the distance to the previous marker -/
theorem rprob1g_within (h : α → α) (chr : List Int) (pos : List α) (k : Nat) (hc : k + 1 < chr.length)
    (hp : k + 1 < pos.length) (hsame : chr[k + 1] = chr[k]) :
    (rprob1g h chr pos)[k + 1]'(by rw [rprob1g_length]; omega) = h (pos[k + 1] - pos[k]) := by
  have hl : k + 1 < (gdist1g chr pos).length := by rw [gdist1g_length]; omega
  simp only [rprob1g, List.getElem_map]
  rw [gdist1g_succ chr pos k hc hp hl, if_pos hsame]; rfl

/-- composition along one chromosome for a map function of Haldane type -/
theorem pairProb_same_chromosome (e h : α → α) (hh : ∀ d, h d = (1 - e d) / 2) (he0 : e 0 = 1)
    (hadd : ∀ a b, e (a + b) = e a * e b)
    (chr : List Int) (pos : List α) (i j : Nat) (hij : i < j) (hjc : j < chr.length) (hjp : j < pos.length)
    (hsame : ∀ k, i ≤ k → (hk : k ≤ j) → chr[k] = chr[i]) :
    pairProb (rprob1g h chr pos) i j = h (pos[j] - pos[i]) := by
  have hd : ∀ d, dfac (h d) = e d := by intro d; rw [hh]; unfold dfac; ring
  unfold pairProb rprob1g
  rw [← List.map_drop, ← List.map_take, gdist1g_drop chr pos i (by omega) (by omega)]
  unfold oddProb
  rw [prodD_gdistFrom e h hd he0 hadd (j - i) chr[i] pos[i] (chr.drop (i + 1)) (pos.drop (i + 1)) pos[j]
      ?_ ?_, hh]
  · intro k hk
    rw [List.getElem?_drop, List.getElem?_eq_getElem (by omega)]
    rw [hsame (i + 1 + k) (by omega) (by omega)]
  · have e1 : j - i = (j - i - 1) + 1 := by omega
    rw [e1, List.getElem?_cons_succ, List.getElem?_drop, List.getElem?_eq_getElem (by omega)]
    congr 2; omega

/-- markers on different chromosomes: some interval between them carries 1/2 -/
theorem pairProb_different_chromosomes (h : α → α) (chr : List Int) (pos : List α) (hlen : chr.length = pos.length)
    (i j : Nat) (hij : i < j) (hj : j < chr.length) (k : Nat) (h1 : i < k) (h2 : k ≤ j)
    (hk : chr[k] ≠ chr[k - 1]) :
    pairProb (rprob1g h chr pos) i j = 1 / 2 := by
  apply oddProb_half
  have hx := rprob1g_start h chr pos k (by omega) (by omega) (Or.inr hk)
  rw [← hx, List.mem_iff_getElem]
  refine ⟨k - (i + 1), by simp [rprob1g_length]; omega, ?_⟩
  simp only [List.getElem_take, List.getElem_drop]
  congr 1; omega

end slice

/-- the Haldane map function `r = (1 - exp(-2 d)) / 2` (HaldaneMapFunction.mapfn) -/
noncomputable def haldane (d : ℝ) : ℝ := (1 - Real.exp (-2 * d)) / 2

/-- two different labels at i < j force a change of label somewhere in (i, j] -/
theorem exists_start (chr : List Int) (i j : Nat) (hij : i < j) (hj : j < chr.length)
    (hne : chr[i] ≠ chr[j]) : ∃ k, ∃ (h1 : i < k) (h2 : k ≤ j), chr[k]'(by omega) ≠ chr[k - 1]'(by omega) := by
  induction j with
  | zero => omega
  | succ j ih =>
    by_cases hlast : chr[j + 1] = chr[j]
    · have hij' : i < j := by
        rcases Nat.lt_or_ge i j with h | h
        · exact h
        · have : i = j := by omega
          subst this; exact absurd hlast.symm hne
      obtain ⟨k, h1, h2, hk⟩ := ih hij' (by omega) (by rw [← hlast]; exact hne)
      exact ⟨k, h1, by omega, hk⟩
    · exact ⟨j + 1, hij, le_refl _, by simpa using hlast⟩

/-- on sorted labels, equal labels at i ≤ j force equal labels in between -/
theorem sorted_between (chr : List Int) (hs : chr.Pairwise (· ≤ ·)) (i j k : Nat) (hik : i ≤ k) (hkj : k ≤ j)
    (hj : j < chr.length) (he : chr[i] = chr[j]) : chr[k] = chr[i] := by
  rw [List.pairwise_iff_getElem] at hs
  have h1 : chr[i] ≤ chr[k] := by
    rcases Nat.eq_or_lt_of_le hik with h | h
    · subst h; exact le_refl _
    · exact hs i k (by omega) (by omega) h
  have h2 : chr[k] ≤ chr[j] := by
    rcases Nat.eq_or_lt_of_le hkj with h | h
    · subst h; exact le_refl _
    · exact hs k j (by omega) hj h
  omega

end Recomb
