/-
Helper lemmas for C02 (round 2): Lipschitz dependence of the Bernoulli product law on its parameters
(total-variation bound), used for the distance between the law under grid draws and the exact law.
-/
import PybropsModel.Lemmas.RecombLLN
set_option autoImplicit false
set_option linter.unusedSectionVars false

namespace Recomb

section tv
variable {α : Type} [Field α] [LinearOrder α] [IsStrictOrderedRing α]

theorem E_le_one (xs : List α) (hx : ∀ x ∈ xs, 0 ≤ x ∧ x ≤ 1) (F : List Bool → α) (hF : ∀ b, F b ≤ 1) :
    E xs F ≤ 1 := by
  have := E_mono xs hx F (fun _ => 1) hF
  rwa [E_const] at this

/-- two Bernoulli product laws whose parameters differ by `|x_k - y_k|` assign to every `[0,1]`-valued
    function (in particular to every event) expectations that differ by at most `Σ |x_k - y_k|` -/
theorem E_lipschitz (l : List (α × α)) (hl : ∀ p ∈ l, (0 ≤ p.1 ∧ p.1 ≤ 1) ∧ (0 ≤ p.2 ∧ p.2 ≤ 1))
    (F : List Bool → α) (hF : ∀ b, 0 ≤ F b ∧ F b ≤ 1) :
    |E (l.map Prod.fst) F - E (l.map Prod.snd) F| ≤ (l.map (fun p => |p.1 - p.2|)).sum := by
  induction l generalizing F with
  | nil => simp [E]
  | cons p l ih =>
    have hp := hl p (List.mem_cons_self ..)
    have hl' : ∀ q ∈ l, (0 ≤ q.1 ∧ q.1 ≤ 1) ∧ (0 ≤ q.2 ∧ q.2 ≤ 1) := fun q hq => hl q (List.mem_cons_of_mem _ hq)
    have i0 := ih hl' (fun b => F (false :: b)) (fun b => hF _)
    have i1 := ih hl' (fun b => F (true :: b)) (fun b => hF _)
    have hy : ∀ y ∈ l.map Prod.snd, 0 ≤ y ∧ y ≤ 1 := by
      intro y hy
      obtain ⟨q, hq, rfl⟩ := List.mem_map.mp hy
      exact (hl' q hq).2
    have b0l := E_nonneg _ hy (fun b => F (false :: b)) (fun b => (hF _).1)
    have b0u := E_le_one _ hy (fun b => F (false :: b)) (fun b => (hF _).2)
    have b1l := E_nonneg _ hy (fun b => F (true :: b)) (fun b => (hF _).1)
    have b1u := E_le_one _ hy (fun b => F (true :: b)) (fun b => (hF _).2)
    simp only [List.map_cons, E, List.sum_cons]
    set A0 := E (l.map Prod.fst) (fun b => F (false :: b))
    set A1 := E (l.map Prod.fst) (fun b => F (true :: b))
    set B0 := E (l.map Prod.snd) (fun b => F (false :: b))
    set B1 := E (l.map Prod.snd) (fun b => F (true :: b))
    set S := (l.map (fun p => |p.1 - p.2|)).sum
    have e : (1 - p.1) * A0 + p.1 * A1 - ((1 - p.2) * B0 + p.2 * B1) =
        (1 - p.1) * (A0 - B0) + p.1 * (A1 - B1) + (p.1 - p.2) * (B1 - B0) := by ring
    rw [e]
    have t1 : |(1 - p.1) * (A0 - B0)| ≤ (1 - p.1) * S := by
      rw [abs_mul, abs_of_nonneg (by linarith [hp.1.2])]
      exact mul_le_mul_of_nonneg_left i0 (by linarith [hp.1.2])
    have t2 : |p.1 * (A1 - B1)| ≤ p.1 * S := by
      rw [abs_mul, abs_of_nonneg hp.1.1]
      exact mul_le_mul_of_nonneg_left i1 hp.1.1
    have t3 : |(p.1 - p.2) * (B1 - B0)| ≤ |p.1 - p.2| := by
      rw [abs_mul]
      have : |B1 - B0| ≤ 1 := by rw [abs_le]; constructor <;> linarith
      calc |p.1 - p.2| * |B1 - B0| ≤ |p.1 - p.2| * 1 := mul_le_mul_of_nonneg_left this (abs_nonneg _)
        _ = |p.1 - p.2| := mul_one _
    calc |(1 - p.1) * (A0 - B0) + p.1 * (A1 - B1) + (p.1 - p.2) * (B1 - B0)|
        ≤ |(1 - p.1) * (A0 - B0) + p.1 * (A1 - B1)| + |(p.1 - p.2) * (B1 - B0)| := abs_add_le _ _
      _ ≤ |(1 - p.1) * (A0 - B0)| + |p.1 * (A1 - B1)| + |(p.1 - p.2) * (B1 - B0)| := by
          linarith [abs_add_le ((1 - p.1) * (A0 - B0)) (p.1 * (A1 - B1))]
      _ ≤ (1 - p.1) * S + p.1 * S + |p.1 - p.2| := by linarith
      _ = |p.1 - p.2| + S := by ring

variable [FloorRing α]

/-- total variation between the law of the mask under grid draws and the exact Bernoulli law: at most
    `m / N` for `m` markers -/
theorem Edraw_tv (N : Nat) (hN : 0 < N) (xs : List α) (hx : ∀ x ∈ xs, 0 ≤ x ∧ x ≤ 1)
    (F : List Bool → α) (hF : ∀ b, 0 ≤ F b ∧ F b ≤ 1) :
    |Edraw (gridPts N) xs F - E xs F| ≤ (xs.length : α) / (N : α) := by
  rw [Edraw_eq_E_below _ (gridPts_ne_nil N hN)]
  have hmap : xs.map (below (gridPts N)) = xs.map (gridProb N) :=
    List.map_congr_left (fun x _ => below_gridPts N hN x)
  rw [hmap]
  have h := E_lipschitz (xs.map (fun x => (gridProb N x, x)))
    (by
      intro p hp
      obtain ⟨x, hxm, rfl⟩ := List.mem_map.mp hp
      exact ⟨gridProb_mem_unit N hN x, hx x hxm⟩) F hF
  simp only [List.map_map] at h
  have e1 : (Prod.fst ∘ fun x : α => (gridProb N x, x)) = gridProb N := rfl
  have e2 : (Prod.snd ∘ fun x : α => (gridProb N x, x)) = id := rfl
  rw [e1, e2, List.map_id] at h
  refine h.trans ?_
  have hb : ∀ (l : List α), (∀ x ∈ l, 0 ≤ x ∧ x ≤ 1) →
      (l.map ((fun p : α × α => |p.1 - p.2|) ∘ fun x => (gridProb N x, x))).sum ≤ (l.length : α) / (N : α) := by
    intro l
    induction l with
    | nil => intro _; simp
    | cons y l ih =>
      intro hy
      have hc := gridProb_close N hN y (hy y (List.mem_cons_self ..)).1 (hy y (List.mem_cons_self ..)).2
      have := ih (fun z hz => hy z (List.mem_cons_of_mem _ hz))
      simp only [List.map_cons, List.sum_cons, Function.comp, List.length_cons]
      have habs : |gridProb N y - y| ≤ 1 / (N : α) := by
        rw [abs_of_nonneg (by linarith [hc.1])]; linarith [hc.2]
      push_cast
      have : ((l.length : α) + 1) / (N : α) = 1 / (N : α) + (l.length : α) / (N : α) := by ring
      rw [this]
      linarith
  exact hb xs hx

end tv

end Recomb
