/-
Helper lemmas for C11: the map functions under an abstract rounding contract.

`haldaneR rnd` / `kosambiR rnd` are the code's expressions with a rounding after every inexact operation.
For EVERY monotone `rnd` that fixes 0 and 1: zero goes to zero, [0, ∞) goes into [0, ½], the function is
monotone (so the order of distances is never inverted by rounding).  With absorption near 1 (`rnd x = 1` for
`1 - u ≤ x ≤ 1`, round-to-nearest with `u` = half an ulp of 1): large distances saturate at EXACTLY one half
(the inverse then returns +∞), and Haldane's `1 - exp(-2d)` collapses to 0 for tiny `d > 0` — strict
monotonicity and the exact inverse law do not survive rounding, only their tolerance forms do.  With an absolute
error bound `|rnd x - x| ≤ δ` the rounded value is within `δ` of the exact one, which is the hypothesis of the
conditioning theorem of the round trip.
-/
import PybropsModel.Lemmas.MapFn
set_option autoImplicit false

namespace GMap

/-- the rounding contract: monotone, exact at 0 and 1 -/
structure Rounding (rnd : ℝ → ℝ) : Prop where
  mono : Monotone rnd
  zero : rnd 0 = 0
  one : rnd 1 = 1

/-- absorption: everything within `u` below 1 rounds to 1, and `u` itself is representable -/
structure Absorbing (rnd : ℝ → ℝ) (u : ℝ) : Prop where
  pos : 0 < u
  lt_one : u < 1
  fix : rnd u = u
  absorb : ∀ x, 1 - u ≤ x → x ≤ 1 → rnd x = 1

theorem Rounding.unit {rnd : ℝ → ℝ} (h : Rounding rnd) {x : ℝ} (h0 : 0 ≤ x) (h1 : x ≤ 1) :
    0 ≤ rnd x ∧ rnd x ≤ 1 :=
  ⟨by rw [← h.zero]; exact h.mono h0, by rw [← h.one]; exact h.mono h1⟩

theorem rounding_id : Rounding id := ⟨monotone_id, rfl, rfl⟩

theorem haldaneR_id (d : ℝ) : haldaneR id d = haldane d := rfl
theorem kosambiR_id (d : ℝ) : kosambiR id d = kosambi d := rfl

theorem haldaneR_real (rnd : ℝ → ℝ) (d : ℝ) :
    haldaneR rnd d = 1 / 2 * rnd (1 - rnd (Real.exp (-(2 * d)))) := rfl

theorem kosambiR_real (rnd : ℝ → ℝ) (d : ℝ) : kosambiR rnd d = 1 / 2 * rnd (Real.tanh (2 * d)) := rfl

/-! ### Haldane -/

theorem haldaneR_zero {rnd : ℝ → ℝ} (h : Rounding rnd) : haldaneR rnd 0 = 0 := by
  rw [haldaneR_real]
  simp [h.one, h.zero]

theorem haldaneR_mono {rnd : ℝ → ℝ} (h : Rounding rnd) : Monotone (haldaneR rnd) := by
  intro a b hab
  rw [haldaneR_real, haldaneR_real]
  have h1 : Real.exp (-(2 * b)) ≤ Real.exp (-(2 * a)) := Real.exp_le_exp.mpr (by linarith)
  have h2 := h.mono h1
  have h3 : rnd (1 - rnd (Real.exp (-(2 * a)))) ≤ rnd (1 - rnd (Real.exp (-(2 * b)))) := h.mono (by linarith)
  linarith

theorem haldaneR_range {rnd : ℝ → ℝ} (h : Rounding rnd) {d : ℝ} (hd : 0 ≤ d) :
    0 ≤ haldaneR rnd d ∧ haldaneR rnd d ≤ 1 / 2 := by
  rw [haldaneR_real]
  have he0 : 0 ≤ Real.exp (-(2 * d)) := (Real.exp_pos _).le
  have he1 : Real.exp (-(2 * d)) ≤ 1 := by
    rw [← Real.exp_zero]; exact Real.exp_le_exp.mpr (by linarith)
  obtain ⟨a0, a1⟩ := h.unit he0 he1
  obtain ⟨b0, b1⟩ := h.unit (x := 1 - rnd (Real.exp (-(2 * d)))) (by linarith) (by linarith)
  constructor <;> linarith

/-- large distances: as soon as `exp(-2d) ≤ u` the rounded function returns EXACTLY one half -/
theorem haldaneR_saturates {rnd : ℝ → ℝ} {u : ℝ} (h : Rounding rnd) (ha : Absorbing rnd u) {d : ℝ}
    (hd : Real.exp (-(2 * d)) ≤ u) : haldaneR rnd d = 1 / 2 := by
  rw [haldaneR_real]
  have he0 : 0 ≤ rnd (Real.exp (-(2 * d))) := by rw [← h.zero]; exact h.mono (Real.exp_pos _).le
  have he1 : rnd (Real.exp (-(2 * d))) ≤ u := by rw [← ha.fix]; exact h.mono hd
  rw [ha.absorb _ (by linarith) (by linarith)]
  ring

/-- … which happens for every `d ≥ ln(1/u)/2` -/
theorem haldaneR_saturates_of_le {rnd : ℝ → ℝ} {u : ℝ} (h : Rounding rnd) (ha : Absorbing rnd u) {d : ℝ}
    (hd : -Real.log u / 2 ≤ d) : haldaneR rnd d = 1 / 2 := by
  apply haldaneR_saturates h ha
  have : -(2 * d) ≤ Real.log u := by linarith
  calc Real.exp (-(2 * d)) ≤ Real.exp (Real.log u) := Real.exp_le_exp.mpr this
    _ = u := Real.exp_log ha.pos

/-- tiny distances: as soon as `exp(-2d) ≥ 1 - u` the subtraction `1 - exp(-2d)` gives 0 -/
theorem haldaneR_collapses {rnd : ℝ → ℝ} {u : ℝ} (h : Rounding rnd) (ha : Absorbing rnd u) {d : ℝ} (hd0 : 0 ≤ d)
    (hd : 1 - u ≤ Real.exp (-(2 * d))) : haldaneR rnd d = 0 := by
  rw [haldaneR_real]
  have he1 : Real.exp (-(2 * d)) ≤ 1 := by
    rw [← Real.exp_zero]; exact Real.exp_le_exp.mpr (by linarith)
  rw [ha.absorb _ hd he1]
  simp [h.zero]

/-- hence under any absorbing rounding some POSITIVE distance is sent to 0, like distance 0: the rounded
    function is not injective, no inverse can undo it exactly -/
theorem haldaneR_not_injective {rnd : ℝ → ℝ} {u : ℝ} (h : Rounding rnd) (ha : Absorbing rnd u) :
    ∃ d : ℝ, 0 < d ∧ haldaneR rnd d = haldaneR rnd 0 := by
  refine ⟨-Real.log (1 - u) / 2, ?_, ?_⟩
  · have : Real.log (1 - u) < 0 := Real.log_neg (by linarith [ha.lt_one]) (by linarith [ha.pos])
    linarith
  · rw [haldaneR_zero h]
    apply haldaneR_collapses h ha
    · have : Real.log (1 - u) < 0 := Real.log_neg (by linarith [ha.lt_one]) (by linarith [ha.pos])
      linarith
    · have h1 : -(2 * (-Real.log (1 - u) / 2)) = Real.log (1 - u) := by ring
      rw [h1, Real.exp_log (by linarith [ha.lt_one])]

/-- absolute rounding error `δ` on [0, 1] ⇒ the rounded Haldane function is within `δ` of the exact one -/
theorem haldaneR_error {rnd : ℝ → ℝ} {δ : ℝ} (herr : ∀ x, |rnd x - x| ≤ δ) (d : ℝ) :
    |haldaneR rnd d - haldane d| ≤ δ := by
  rw [haldaneR_real, haldane_real]
  set e := Real.exp (-(2 * d)) with he
  have h1 := herr e
  have h2 := herr (1 - rnd e)
  rw [abs_le] at h1 h2 ⊢
  constructor <;> linarith [h1.1, h1.2, h2.1, h2.2]

/-! ### Kosambi -/

theorem tanh_nonneg_real {x : ℝ} (hx : 0 ≤ x) : 0 ≤ Real.tanh x := by
  rw [← Real.tanh_zero]; exact tanh_strictMono_real.monotone hx

theorem tanh_le_one_real (x : ℝ) : Real.tanh x ≤ 1 := by
  rw [tanh_eq_one_sub]
  have : 0 < Real.exp (2 * x) + 1 := by positivity
  have : 0 ≤ 2 / (Real.exp (2 * x) + 1) := by positivity
  linarith

theorem kosambiR_zero {rnd : ℝ → ℝ} (h : Rounding rnd) : kosambiR rnd 0 = 0 := by
  rw [kosambiR_real]
  simp [h.zero]

theorem kosambiR_mono {rnd : ℝ → ℝ} (h : Rounding rnd) : Monotone (kosambiR rnd) := by
  intro a b hab
  rw [kosambiR_real, kosambiR_real]
  have := h.mono (tanh_strictMono_real.monotone (show 2 * a ≤ 2 * b by linarith))
  linarith

theorem kosambiR_range {rnd : ℝ → ℝ} (h : Rounding rnd) {d : ℝ} (hd : 0 ≤ d) :
    0 ≤ kosambiR rnd d ∧ kosambiR rnd d ≤ 1 / 2 := by
  rw [kosambiR_real]
  obtain ⟨a0, a1⟩ := h.unit (tanh_nonneg_real (show 0 ≤ 2 * d by linarith)) (tanh_le_one_real _)
  constructor <;> linarith

theorem kosambiR_saturates {rnd : ℝ → ℝ} {u : ℝ} (ha : Absorbing rnd u) {d : ℝ}
    (hd : 1 - u ≤ Real.tanh (2 * d)) : kosambiR rnd d = 1 / 2 := by
  rw [kosambiR_real, ha.absorb _ hd (tanh_le_one_real _)]
  ring

theorem kosambiR_error {rnd : ℝ → ℝ} {δ : ℝ} (herr : ∀ x, |rnd x - x| ≤ δ) (d : ℝ) :
    |kosambiR rnd d - kosambi d| ≤ δ / 2 := by
  rw [kosambiR_real, kosambi_real]
  have h1 := herr (Real.tanh (2 * d))
  rw [abs_le] at h1 ⊢
  constructor <;> linarith [h1.1, h1.2]

/-! ### the inverses -/

theorem invHaldaneR_real (rnd : ℝ → ℝ) (r : ℝ) :
    invHaldaneR rnd r = -(1 / 2 * rnd (Real.log (rnd (1 - 2 * r)))) := rfl

theorem invKosambiR_real (rnd : ℝ → ℝ) (r : ℝ) : invKosambiR rnd r = 1 / 2 * rnd (Real.artanh (2 * r)) := rfl

theorem invHaldaneR_zero {rnd : ℝ → ℝ} (h : Rounding rnd) : invHaldaneR rnd 0 = 0 := by
  rw [invHaldaneR_real]
  simp [h.one, h.zero]

/-- the rounded inverse never inverts the order of two probabilities (as long as `1 - 2r` does not round to 0,
    i.e. below the saturation point) -/
theorem invHaldaneR_mono {rnd : ℝ → ℝ} (h : Rounding rnd) {r r' : ℝ} (hrr : r ≤ r')
    (hpos : 0 < rnd (1 - 2 * r')) : invHaldaneR rnd r ≤ invHaldaneR rnd r' := by
  rw [invHaldaneR_real, invHaldaneR_real]
  have h1 : rnd (1 - 2 * r') ≤ rnd (1 - 2 * r) := h.mono (by linarith)
  have h2 : Real.log (rnd (1 - 2 * r')) ≤ Real.log (rnd (1 - 2 * r)) := Real.log_le_log hpos h1
  have h3 := h.mono h2
  linarith

theorem invKosambiR_zero {rnd : ℝ → ℝ} (h : Rounding rnd) : invKosambiR rnd 0 = 0 := by
  rw [invKosambiR_real]
  simp [Real.artanh_zero, h.zero]

theorem invKosambiR_mono {rnd : ℝ → ℝ} (h : Rounding rnd) {r r' : ℝ} (h0 : -(1 / 2) < r) (hrr : r ≤ r')
    (h1 : r' < 1 / 2) : invKosambiR rnd r ≤ invKosambiR rnd r' := by
  rw [invKosambiR_real, invKosambiR_real]
  have := h.mono (Real.artanh_le_artanh (x := 2 * r) (y := 2 * r') (by linarith) (by linarith) (by linarith))
  linarith

/-! ### both kinds -/

theorem MapKind.fnR_zero (k : MapKind) {rnd : ℝ → ℝ} (h : Rounding rnd) : k.fnR rnd (0 : ℝ) = 0 := by
  cases k
  · exact haldaneR_zero h
  · exact kosambiR_zero h

theorem MapKind.fnR_mono (k : MapKind) {rnd : ℝ → ℝ} (h : Rounding rnd) : Monotone (k.fnR rnd : ℝ → ℝ) := by
  cases k
  · exact haldaneR_mono h
  · exact kosambiR_mono h

theorem MapKind.fnR_range (k : MapKind) {rnd : ℝ → ℝ} (h : Rounding rnd) {d : ℝ} (hd : 0 ≤ d) :
    0 ≤ k.fnR rnd d ∧ k.fnR rnd d ≤ 1 / 2 := by
  cases k
  · exact haldaneR_range h hd
  · exact kosambiR_range h hd

theorem MapKind.fnR_error (k : MapKind) {rnd : ℝ → ℝ} {δ : ℝ} (hδ : 0 ≤ δ) (herr : ∀ x, |rnd x - x| ≤ δ) (d : ℝ) :
    |k.fnR rnd d - k.fn d| ≤ δ := by
  cases k
  · exact haldaneR_error herr d
  · exact (kosambiR_error herr d).trans (by linarith)

/-- the limit of the exact function forces saturation of the rounded one: beyond some distance the float map
    function is exactly one half, for both kinds -/
theorem MapKind.fnR_eventually_half (k : MapKind) {rnd : ℝ → ℝ} {u : ℝ} (h : Rounding rnd) (ha : Absorbing rnd u) :
    ∃ D : ℝ, ∀ d, D ≤ d → k.fnR rnd d = 1 / 2 := by
  cases k
  · exact ⟨-Real.log u / 2, fun d hd => haldaneR_saturates_of_le h ha hd⟩
  · -- tanh x → 1: eventually above 1 - u
    have hev : ∀ᶠ x in Filter.atTop, 1 - u < Real.tanh x :=
      (tanh_tendsto_real.eventually (lt_mem_nhds (by linarith [ha.pos] : 1 - u < 1)))
    obtain ⟨X, hX⟩ := Filter.eventually_atTop.mp hev
    refine ⟨X / 2, fun d hd => ?_⟩
    apply kosambiR_saturates ha
    exact (hX (2 * d) (by linarith)).le

end GMap
