/-
Helper lemmas for C01: `Np.stableSort` (the model of numpy.lexsort) is a permutation, returns a
sorted list for a total transitive key order, and is the identity on a sorted list;
the (family, name) key order of `group_taxa`; zero-filled names of fewer than 10^7 progeny are
ordered like their numbers.
-/
import Mathlib.Tactic
import PybropsModel.Lemmas.Repeat
import PybropsModel.Model.Mating
set_option autoImplicit false

namespace Np
variable {α : Type}

theorem insertSorted_perm (le : α → α → Bool) (a : α) : ∀ l : List α, (insertSorted le a l).Perm (a :: l)
  | [] => by simp [insertSorted]
  | b :: bs => by
    simp only [insertSorted]
    split
    · exact ((insertSorted_perm le a bs).cons b).trans (List.Perm.swap a b bs)
    · exact List.Perm.refl _

theorem foldl_insertSorted_perm (le : α → α → Bool) : ∀ (l acc : List α),
    (l.foldl (fun acc a => insertSorted le a acc) acc).Perm (acc ++ l)
  | [], acc => by simp
  | a :: l, acc => by
    simp only [List.foldl_cons]
    refine (foldl_insertSorted_perm le l _).trans ?_
    refine ((insertSorted_perm le a acc).append_right l).trans ?_
    simp only [List.cons_append]
    exact (List.perm_middle).symm

theorem stableSort_perm (le : α → α → Bool) (l : List α) : (stableSort le l).Perm l := by
  simpa [stableSort] using foldl_insertSorted_perm le l []

theorem insertSorted_pairwise (le : α → α → Bool) (htot : ∀ a b, le a b = false → le b a = true)
    (htrans : ∀ a b c, le a b = true → le b c = true → le a c = true) (a : α) :
    ∀ l : List α, l.Pairwise (fun x y => le x y = true) → (insertSorted le a l).Pairwise (fun x y => le x y = true)
  | [], _ => by simp [insertSorted]
  | b :: bs, h => by
    simp only [insertSorted]
    rw [List.pairwise_cons] at h
    split
    · rename_i hba
      rw [List.pairwise_cons]
      refine ⟨?_, insertSorted_pairwise le htot htrans a bs h.2⟩
      intro y hy
      have hy' : y ∈ a :: bs := (insertSorted_perm le a bs).mem_iff.mp hy
      rcases List.mem_cons.mp hy' with rfl | hy'
      · exact hba
      · exact h.1 _ hy'
    · rename_i hba
      have hab : le a b = true := htot b a (by simpa using hba)
      rw [List.pairwise_cons]
      refine ⟨?_, List.pairwise_cons.mpr h⟩
      intro y hy
      rcases List.mem_cons.mp hy with rfl | hy
      · exact hab
      · exact htrans _ _ _ hab (h.1 _ hy)

theorem stableSort_pairwise (le : α → α → Bool) (htot : ∀ a b, le a b = false → le b a = true)
    (htrans : ∀ a b c, le a b = true → le b c = true → le a c = true) (l : List α) :
    (stableSort le l).Pairwise (fun x y => le x y = true) := by
  unfold stableSort
  have : ∀ (l acc : List α), acc.Pairwise (fun x y => le x y = true) →
      (l.foldl (fun acc a => insertSorted le a acc) acc).Pairwise (fun x y => le x y = true) := by
    intro l
    induction l with
    | nil => intro acc h; simpa using h
    | cons a l ih => intro acc h; exact ih _ (insertSorted_pairwise le htot htrans a acc h)
  exact this l [] List.Pairwise.nil

theorem insertSorted_append (le : α → α → Bool) (a : α) : ∀ l : List α, (∀ b ∈ l, le b a = true) →
    insertSorted le a l = l ++ [a]
  | [], _ => rfl
  | b :: bs, h => by
    simp only [insertSorted, h b (by simp), if_true, List.cons_append]
    rw [insertSorted_append le a bs (fun x hx => h x (by simp [hx]))]

/-- a list that is already in key order is left alone -/
theorem stableSort_sorted (le : α → α → Bool) (l : List α) (h : l.Pairwise (fun x y => le x y = true)) :
    stableSort le l = l := by
  unfold stableSort
  have : ∀ (l acc : List α), (acc ++ l).Pairwise (fun x y => le x y = true) →
      l.foldl (fun acc a => insertSorted le a acc) acc = acc ++ l := by
    intro l
    induction l with
    | nil => intro acc _; simp
    | cons a l ih =>
      intro acc h
      simp only [List.foldl_cons]
      have h1 : ∀ b ∈ acc, le b a = true := by
        intro b hb
        exact (List.pairwise_append.mp h).2.2 b hb a (by simp)
      rw [insertSorted_append le a acc h1, ih _ (by simpa using h)]
      simp
  simpa using this l [] (by simpa using h)

theorem pairwise_repeatEach {R : α → α → Prop} (hrefl : ∀ a, R a a) : ∀ (c : List Nat) (l : List α),
    l.Pairwise R → (repeatEach c l).Pairwise R
  | [], l, _ => by simp
  | _ :: _, [], _ => by simp
  | n :: ns, a :: as, h => by
    rw [List.pairwise_cons] at h
    simp only [repeatEach_cons]
    rw [List.pairwise_append]
    refine ⟨?_, pairwise_repeatEach hrefl ns as h.2, ?_⟩
    · rw [List.pairwise_replicate]; exact Or.inr (hrefl a)
    · intro x hx y hy
      rw [List.mem_replicate] at hx
      rw [hx.2]
      exact h.1 y (mem_of_mem_repeatEach hy)

theorem pairwise_le_arange (s n : Nat) : (arange s n).Pairwise (· ≤ ·) := by
  unfold arange
  rw [List.pairwise_map]
  have : (List.range n).Pairwise (· < ·) := List.pairwise_lt_range
  exact this.imp (by intro a b h; omega)

end Np

namespace Mating
variable {α : Type}

theorem rowLe_total (a b : Row α) (h : rowLe a b = false) : rowLe b a = true := by
  simp only [rowLe, Bool.or_eq_false_iff, decide_eq_false_iff_not, Bool.and_eq_false_iff,
    Bool.not_eq_false', decide_eq_true_eq, beq_eq_false_iff_ne] at h
  simp only [rowLe, Bool.or_eq_true, decide_eq_true_eq, Bool.and_eq_true, beq_iff_eq,
    Bool.not_eq_true', decide_eq_false_iff_not]
  obtain ⟨h1, h2⟩ := h
  by_cases hlt : b.grp < a.grp
  · exact Or.inl hlt
  · right
    have heq : a.grp = b.grp := by omega
    refine ⟨heq.symm, ?_⟩
    rcases h2 with h2 | h2
    · exact absurd heq h2
    · exact lt_asymm h2

theorem rowLe_trans (a b c : Row α) (h1 : rowLe a b = true) (h2 : rowLe b c = true) : rowLe a c = true := by
  simp only [rowLe, Bool.or_eq_true, decide_eq_true_eq, Bool.and_eq_true, beq_iff_eq,
    Bool.not_eq_true', decide_eq_false_iff_not] at *
  rcases h1 with h1 | ⟨e1, n1⟩ <;> rcases h2 with h2 | ⟨e2, n2⟩
  · left; omega
  · left; omega
  · left; omega
  · right
    refine ⟨by omega, ?_⟩
    rw [not_lt] at *
    exact le_trans n1 n2

theorem rowLe_grp {a b : Row α} (h : rowLe a b = true) : a.grp ≤ b.grp := by
  simp only [rowLe, Bool.or_eq_true, decide_eq_true_eq, Bool.and_eq_true, beq_iff_eq] at h
  rcases h with h | ⟨h, _⟩ <;> omega

theorem insertRow_perm {β : Type} (le : β → β → Bool) (a : β) : ∀ l : List β, (insertRow le a l).Perm (a :: l)
  | [] => by simp [insertRow]
  | b :: bs => by
    simp only [insertRow]
    split
    · exact List.Perm.refl _
    · exact ((insertRow_perm le a bs).cons b).trans (List.Perm.swap a b bs)

theorem sortRows_perm {β : Type} (le : β → β → Bool) : ∀ l : List β, (sortRows le l).Perm l
  | [] => List.Perm.refl _
  | a :: l => (insertRow_perm le a _).trans ((sortRows_perm le l).cons a)

theorem insertRow_pairwise {β : Type} (le : β → β → Bool) (htot : ∀ a b, le a b = false → le b a = true)
    (htrans : ∀ a b c, le a b = true → le b c = true → le a c = true) (a : β) :
    ∀ l : List β, l.Pairwise (fun x y => le x y = true) → (insertRow le a l).Pairwise (fun x y => le x y = true)
  | [], _ => by simp [insertRow]
  | b :: bs, h => by
    simp only [insertRow]
    split
    · rename_i hab
      rw [List.pairwise_cons]
      refine ⟨?_, h⟩
      intro y hy
      rcases List.mem_cons.mp hy with rfl | hy
      · exact hab
      · exact htrans _ _ _ hab ((List.pairwise_cons.mp h).1 y hy)
    · rename_i hab
      have hba : le b a = true := htot a b (by simpa using hab)
      rw [List.pairwise_cons] at h ⊢
      refine ⟨?_, insertRow_pairwise le htot htrans a bs h.2⟩
      intro y hy
      have hy' : y ∈ a :: bs := (insertRow_perm le a bs).mem_iff.mp hy
      rcases List.mem_cons.mp hy' with rfl | hy'
      · exact hba
      · exact h.1 y hy'

theorem sortRows_pairwise {β : Type} (le : β → β → Bool) (htot : ∀ a b, le a b = false → le b a = true)
    (htrans : ∀ a b c, le a b = true → le b c = true → le a c = true) :
    ∀ l : List β, (sortRows le l).Pairwise (fun x y => le x y = true)
  | [] => List.Pairwise.nil
  | a :: l => insertRow_pairwise le htot htrans a _ (sortRows_pairwise le htot htrans l)

/-- a list that is already in key order is left alone -/
theorem sortRows_sorted {β : Type} (le : β → β → Bool) : ∀ l : List β, l.Pairwise (fun x y => le x y = true) →
    sortRows le l = l
  | [], _ => rfl
  | a :: l, h => by
    rw [List.pairwise_cons] at h
    simp only [sortRows]
    rw [sortRows_sorted le l h.2]
    cases l with
    | nil => rfl
    | cons b bs => simp [insertRow, h.1 b (by simp)]

/-- `group_taxa` permutes the rows -/
theorem groupTaxa_perm (rows : List (Row α)) : (groupTaxa rows).Perm rows :=
  sortRows_perm rowLe rows

theorem groupTaxa_pairwise (rows : List (Row α)) : (groupTaxa rows).Pairwise (fun x y => rowLe x y = true) :=
  sortRows_pairwise rowLe rowLe_total rowLe_trans rows

/-- rows already in (family, name) order are left alone -/
theorem groupTaxa_sorted (rows : List (Row α)) (h : rows.Pairwise (fun x y => rowLe x y = true)) :
    groupTaxa rows = rows :=
  sortRows_sorted rowLe rows h

/-- after `group_taxa` the family labels are non-decreasing -/
theorem groupTaxa_grp_sorted (rows : List (Row α)) : ((groupTaxa rows).map Row.grp).Pairwise (· ≤ ·) := by
  rw [List.pairwise_map]
  exact (groupTaxa_pairwise rows).imp (fun h => rowLe_grp h)

/-- rows generated family by family keep their sequence of family labels -/
theorem groupTaxa_grp (rows : List (Row α)) (h : (rows.map Row.grp).Pairwise (· ≤ ·)) :
    (groupTaxa rows).map Row.grp = rows.map Row.grp := by
  apply List.Perm.eq_of_pairwise (le := (· ≤ ·)) _ (groupTaxa_grp_sorted rows) h
    ((groupTaxa_perm rows).map Row.grp)
  intro a b _ _ h1 h2
  omega

/-! ### zero-filled names -/

theorem ndigits_le : ∀ (fuel x w : Nat), 1 ≤ w → x < 10 ^ w → ndigits fuel x ≤ w := by
  intro fuel
  induction fuel with
  | zero => intro x w hw _; simpa [ndigits] using hw
  | succ f ih =>
    intro x w hw hx
    simp only [ndigits]
    split
    · exact hw
    · rename_i h10
      have hw2 : 2 ≤ w := by
        by_contra hc
        have : w = 1 := by omega
        subst this
        omega
      have : x / 10 < 10 ^ (w - 1) := by
        apply Nat.div_lt_of_lt_mul
        have : 10 ^ w = 10 * 10 ^ (w - 1) := by
          conv_lhs => rw [show w = (w - 1) + 1 by omega]
          rw [pow_succ]; ring
        omega
      have := ih (x / 10) (w - 1) (by omega) this
      omega

theorem zfill7_small (i : Nat) (h : i < 10 ^ 7) : zfill7 i = fixedW 7 i := by
  unfold zfill7
  have := ndigits_le i i 7 (by norm_num) h
  rw [max_eq_left this]

theorem fixedW_lt : ∀ (w a b : Nat), a % 10 ^ w < b % 10 ^ w → fixedW w a < fixedW w b := by
  intro w
  induction w with
  | zero => intro a b h; simp [Nat.mod_one] at h
  | succ w ih =>
    intro a b h
    simp only [fixedW]
    rw [List.cons_lt_cons_iff]
    rw [Nat.mod_pow_succ, Nat.mod_pow_succ] at h
    have ha : a % 10 ^ w < 10 ^ w := Nat.mod_lt _ (by positivity)
    have hb : b % 10 ^ w < 10 ^ w := Nat.mod_lt _ (by positivity)
    rcases Nat.lt_trichotomy (a / 10 ^ w % 10) (b / 10 ^ w % 10) with hlt | heq | hgt
    · left; omega
    · right
      refine ⟨by omega, ih a b ?_⟩
      rw [heq] at h
      omega
    · exfalso
      have : 10 ^ w * (b / 10 ^ w % 10 + 1) ≤ 10 ^ w * (a / 10 ^ w % 10) := Nat.mul_le_mul_left _ hgt
      rw [Nat.mul_add, Nat.mul_one] at this
      omega

theorem append_lt_append_left (l a b : List Nat) (h : a < b) : l ++ a < l ++ b := by
  induction l with
  | nil => simpa
  | cons x xs ih =>
    rw [List.cons_append, List.cons_append, List.cons_lt_cons_iff]
    exact Or.inr ⟨rfl, ih⟩

/-- below 10^7 the names are ordered like the numbers -/
theorem name_lt (pre : List Nat) (a b : Nat) (hab : a < b) (hb : b < 10 ^ 7) : name pre a < name pre b := by
  unfold name
  apply append_lt_append_left
  rw [zfill7_small a (by omega), zfill7_small b hb]
  apply fixedW_lt
  rw [Nat.mod_eq_of_lt (by omega), Nat.mod_eq_of_lt hb]
  exact hab

end Mating
