/-
C15 — the cell formulas of the scaled matrices as TRANSLATED FROM THE PYTHON SOURCE (Generated/PyK_C15.lean, rewritten
by harness/py2lean.py on every run) equal the model's (`BVMat.stdFn`, `guardScale`, `standardise`, `unscaleEntry`, the
`tmax/tmin/trange/tmean/tstd/tvar` combinators on present, i.e. non-NaN, values), and the round trip
`unscale ∘ from_numpy = id` is proved of the translated expressions themselves.  Column reductions (`nanmean`, `nanstd`,
`max`, …) are parameters of the kernels.
-/
import Mathlib.Tactic
import PybropsModel.Generated.PyK_C15
import PybropsModel.Lemmas.PyKBase
import PybropsModel.Lemmas.BVMatCol
set_option autoImplicit false
set_option linter.unusedSectionVars false
set_option linter.unusedSimpArgs false
set_option linter.unusedTactic false
set_option linter.unreachableTactic false
set_option linter.unnecessarySeqFocus false

namespace PyK.C15
open BVMat

variable {α : Type} [Field α] [LinearOrder α] [IsStrictOrderedRing α]

/-! ### the location and the scale that `from_numpy` / `rescale` store (fix of D26: a trait whose values are all equal
    is standardised as constant whatever its floating-point mean rounds to) -/

/-- `location = nanmean; if nonempty: location[lo == hi] = lo` -/
def fitLocS (nonempty : Bool) (lo hi nmean : α) : α := if nonempty = true ∧ lo = hi then lo else nmean
/-- `scale = nanstd; scale[scale == 0] = 1; if nonempty: scale[lo == hi] = 1` -/
def fitScaleS (nonempty : Bool) (lo hi nstd : α) : α := if nonempty = true ∧ lo = hi then 1 else guardScale nstd

theorem fitScaleS_ne_zero (nonempty : Bool) (lo hi nstd : α) : fitScaleS nonempty lo hi nstd ≠ 0 := by
  unfold fitScaleS; split_ifs
  · exact one_ne_zero
  · exact guardScale_ne_zero nstd

/-- on a column with values (`fmin.reduce = some lo`, `fmax.reduce = some hi`, `nanmean = some m`, `nanvar = some v`) the
    scalars above are the model's `fitLoc` / `fitScale` -/
theorem fitLoc_eq (c : Col α) (lo hi m : α) (h1 : fminReduce c = some lo) (h2 : fmaxReduce c = some hi)
    (h3 : nanmean c = some m) : fitLoc c = some (fitLocS true lo hi m) := by
  unfold fitLoc isConstCol fitLocS
  rw [h1, h2, h3]
  by_cases h : lo = hi <;> simp [oeq, h]

theorem fitScale_eq (sq : α → α) (c : Col α) (lo hi sd : α) (h1 : fminReduce c = some lo) (h2 : fmaxReduce c = some hi)
    (h3 : nanstd sq c = some sd) : fitScale sq c = some (fitScaleS true lo hi sd) := by
  unfold fitScale isConstCol fitScaleS
  rw [h1, h2, h3]
  by_cases h : lo = hi <;> simp [oeq, h]

/-! ### DenseScaledMatrix -/
theorem transform_eq_model (x : α) (copy : Bool) (loc scale : α) : transform x copy loc scale = stdFn loc scale x := by
  simp only [transform, stdFn, ite_self]; ring

theorem untransform_eq_model (x : α) (copy : Bool) (loc scale : α) :
    some (untransform x copy loc scale) = unscaleEntry (some loc) (some scale) (some x) := by
  rw [unscaleEntry_some]
  simp only [untransform, ite_self]; congr 1; ring

theorem sm_unscale_eq_model (x : α) (inplace : Bool) (loc scale : α) :
    some (sm_unscale x inplace loc scale) = unscaleEntry (some loc) (some scale) (some x) := by
  rw [unscaleEntry_some]
  simp only [sm_unscale, ite_self]; congr 1; ring

/-- `rescale`: un-scale, then standardise with the new location and the guarded new scale -/
theorem sm_rescale_eq_model (x : α) (inplace : Bool) (loc scale nmean nstd : α) (nonempty : Bool) (lo hi : α) :
    sm_rescale x inplace loc scale nmean nstd nonempty lo hi
      = (stdFn (fitLocS nonempty lo hi nmean) (fitScaleS nonempty lo hi nstd) (scale * x + loc),
         fitLocS nonempty lo hi nmean, fitScaleS nonempty lo hi nstd) := by
  cases nonempty <;> by_cases h : lo = hi <;>
    simp only [sm_rescale, stdFn, guardScale, fitLocS, fitScaleS, ite_self, h, Bool.false_eq_true, false_and, true_and,
      if_true, if_false, decide_true, decide_false, decide_eq_true_eq] <;> pyk_arith

/-! ### DenseBreedingValueMatrix -/
theorem bv_unscale_eq_model (x loc scale : α) :
    some (bv_unscale x loc scale) = unscaleEntry (some loc) (some scale) (some x) := by
  rw [unscaleEntry_some]; simp only [bv_unscale] <;> pyk_arith

theorem bv_from_numpy_eq_model (x nmean nstd : α) (nonempty : Bool) (lo hi : α) :
    bv_from_numpy x nmean nstd nonempty lo hi
      = (stdFn (fitLocS nonempty lo hi nmean) (fitScaleS nonempty lo hi nstd) x,
         fitLocS nonempty lo hi nmean, fitScaleS nonempty lo hi nstd) := by
  cases nonempty <;> by_cases h : lo = hi <;>
    simp only [bv_from_numpy, stdFn, guardScale, fitLocS, fitScaleS, h, Bool.false_eq_true, false_and, true_and,
      if_true, if_false, decide_true, decide_false, decide_eq_true_eq] <;> pyk_arith

theorem bv_from_numpy_eq_standardise (x nmean nstd : α) (nonempty : Bool) (lo hi : α) :
    some (bv_from_numpy x nmean nstd nonempty lo hi).1
      = standardise (some (fitLocS nonempty lo hi nmean)) (some (fitScaleS nonempty lo hi nstd)) (some x) := by
  rw [bv_from_numpy_eq_model, standardise_some]

/-- **`from_numpy` on a column of present values is the model's `fromNumpyCol`**: entry, location and scale -/
theorem fromNumpyCol_entry_eq_translated (sq : α → α) (c : Col α) (lo hi m sd x : α)
    (h1 : fminReduce c = some lo) (h2 : fmaxReduce c = some hi) (h3 : nanmean c = some m) (h4 : nanstd sq c = some sd) :
    standardise (fromNumpyCol sq c).loc (fromNumpyCol sq c).scale (some x) = some (bv_from_numpy x m sd true lo hi).1 ∧
    (fromNumpyCol sq c).loc = some (bv_from_numpy x m sd true lo hi).2.1 ∧
    (fromNumpyCol sq c).scale = some (bv_from_numpy x m sd true lo hi).2.2 := by
  rw [bv_from_numpy_eq_model]
  simp only [fromNumpyCol, fitLoc_eq c lo hi m h1 h2 h3, fitScale_eq sq c lo hi sd h1 h2 h4, standardise_some, and_self]

theorem bv_tmax_eq_model (unscale : Bool) (loc scale m : α) :
    some (bv_tmax unscale loc scale m) = if unscale then oadd (omul (some m) (some scale)) (some loc) else some m := by
  cases unscale <;> simp only [bv_tmax, oadd, omul, lift2, Bool.false_eq_true, if_true, if_false] <;> pyk_arith

theorem bv_tmin_eq_model (unscale : Bool) (loc scale m : α) :
    some (bv_tmin unscale loc scale m) = if unscale then oadd (omul (some m) (some scale)) (some loc) else some m := by
  cases unscale <;> simp only [bv_tmin, oadd, omul, lift2, Bool.false_eq_true, if_true, if_false] <;> pyk_arith

theorem bv_trange_eq_model (unscale : Bool) (scale m : α) :
    some (bv_trange unscale scale m) = if unscale then omul (some m) (some scale) else some m := by
  cases unscale <;> simp only [bv_trange, omul, lift2, Bool.false_eq_true, if_true, if_false] <;> pyk_arith

theorem bv_tmean_eq_model (unscale : Bool) (loc m : α) :
    some (bv_tmean unscale loc m) = if unscale then some loc else some m := by
  cases unscale <;> simp only [bv_tmean, Bool.false_eq_true, if_true, if_false] <;> pyk_arith

theorem bv_tstd_eq_model (unscale : Bool) (scale nstd std : α) :
    some (bv_tstd unscale scale nstd std) = if unscale then omul (some scale) (some nstd) else some std := by
  cases unscale <;> simp only [bv_tstd, omul, lift2, Bool.false_eq_true, if_true, if_false] <;> pyk_arith

theorem bv_tvar_eq_model (unscale : Bool) (scale nvar var : α) :
    some (bv_tvar unscale scale nvar var)
      = if unscale then omul (omul (some scale) (some scale)) (some nvar) else some var := by
  cases unscale <;> simp only [bv_tvar, omul, lift2, Bool.false_eq_true, if_true, if_false] <;> pyk_arith

/-- the model's per-trait statistics are the translated combinators applied to the column reductions -/
theorem tmax_eq_translated (unscale : Bool) (t : Trait α) (m loc scale : α)
    (hm : colMax t.mat = some m) (hl : t.loc = some loc) (hs : t.scale = some scale) :
    tmax unscale t = some (bv_tmax unscale loc scale m) := by
  rw [bv_tmax_eq_model]; unfold tmax; rw [hm, hl, hs]

theorem tmin_eq_translated (unscale : Bool) (t : Trait α) (m loc scale : α)
    (hm : colMin t.mat = some m) (hl : t.loc = some loc) (hs : t.scale = some scale) :
    tmin unscale t = some (bv_tmin unscale loc scale m) := by
  rw [bv_tmin_eq_model]; unfold tmin; rw [hm, hl, hs]

/-! ### the round trip of the property, about the translated source -/

/-- **`unscale(from_numpy(x)) = x`** cell by cell, whatever the column mean and standard deviation are (the zero-variance
    guard of the source makes the scale non-zero) -/
theorem unscale_from_numpy (x nmean nstd : α) (nonempty : Bool) (lo hi : α) :
    bv_unscale (bv_from_numpy x nmean nstd nonempty lo hi).1 (bv_from_numpy x nmean nstd nonempty lo hi).2.1
      (bv_from_numpy x nmean nstd nonempty lo hi).2.2 = x := by
  rw [bv_from_numpy_eq_model]
  have h := bv_unscale_eq_model (stdFn (fitLocS nonempty lo hi nmean) (fitScaleS nonempty lo hi nstd) x)
    (fitLocS nonempty lo hi nmean) (fitScaleS nonempty lo hi nstd)
  rw [unscaleEntry_some] at h
  rw [Option.some.inj h]
  exact unscale_stdFn (fitScaleS_ne_zero nonempty lo hi nstd) _ x

/-- `untransform(transform(x)) = x` for a non-zero scale -/
theorem untransform_transform (x loc scale : α) (c1 c2 : Bool) (hs : scale ≠ 0) :
    untransform (transform x c1 loc scale) c2 loc scale = x := by
  rw [transform_eq_model]
  have h := untransform_eq_model (stdFn loc scale x) c2 loc scale
  rw [unscaleEntry_some] at h
  rw [Option.some.inj h]
  exact unscale_stdFn hs loc x

/-- `rescale` keeps the un-scaled value: un-scaling the rescaled cell with the new location and scale gives back the
    un-scaled old cell -/
theorem rescale_keeps_value (x loc scale nmean nstd : α) (b nonempty : Bool) (lo hi : α) :
    (sm_rescale x b loc scale nmean nstd nonempty lo hi).2.2 * (sm_rescale x b loc scale nmean nstd nonempty lo hi).1
        + (sm_rescale x b loc scale nmean nstd nonempty lo hi).2.1 = scale * x + loc := by
  rw [sm_rescale_eq_model]
  exact unscale_stdFn (fitScaleS_ne_zero nonempty lo hi nstd) _ _

/-- the scale stored by `from_numpy` / `rescale` is never zero -/
theorem from_numpy_scale_ne_zero (x nmean nstd : α) (nonempty : Bool) (lo hi : α) :
    (bv_from_numpy x nmean nstd nonempty lo hi).2.2 ≠ 0 := by
  rw [bv_from_numpy_eq_model]; exact fitScaleS_ne_zero nonempty lo hi nstd

/-- **a constant trait is stored as exactly 0 with location = the common value and scale 1** (D26), whatever the mean and
    the standard deviation computed in floating point are -/
theorem from_numpy_constant_trait (x nmean nstd : α) :
    bv_from_numpy x nmean nstd true x x = (0, x, 1) := by
  rw [bv_from_numpy_eq_model]
  simp [fitLocS, fitScaleS, stdFn]

end PyK.C15
