/-
Spec ↔ model link for C04, statistics: for every statistic name the oracle's defined row
(`GSpec.statDef`) is the model's row.
-/
import PybropsModel.Lemmas.SpecLinkAlleles
import PybropsModel.Lemmas.GenomicStats
set_option autoImplicit false
set_option linter.unusedSectionVars false
set_option linter.unusedSimpArgs false
set_option linter.unusedVariables false

namespace SpecLink
open Finset BigOperators GMod GSpec GSList GEnt GLin

theorem zipWith_eq_zip_map {β γ δ : Type} (f : β → γ → δ) (a : List β) (b : List γ) :
    List.zipWith f a b = (List.zip a b).map (fun p => f p.1 p.2) := by
  induction a generalizing b with
  | nil => simp
  | cons x xs ih => cases b <;> simp [ih]

theorem meanQ_eq (l : List ℚ) : meanQ l = mean l := rfl
theorem colQ_eq (M : List (List ℚ)) (k : ℕ) : colQ M k = col M k := rfl
theorem varQ_eq (l : List ℚ) : varQ l = var l := rfl

theorem varDef_eq_varCols (mode : String) (beta ua : List (List ℚ)) (ud : Option (List (List ℚ))) (t ploidy : ℕ)
    (g : List (List (List Int))) :
    varDef mode beta ua ud t ploidy g = varCols (valueDef mode beta ua ud none t ploidy g) t := rfl

/-- model rows of the statistics -/
def modelStat (name : String) (beta ua : List (List ℚ)) (ud : Option (List (List ℚ)))
    (X Y : Option (List (List ℚ))) (t ploidy : ℕ) (g : List (List (List Int))) : Option (List (Option ℚ)) :=
  let A := phaseSum g
  let Z : List (List ℚ) := castM A
  match name with
  | "var_A" => some ((varA ua Z t).map some)
  | "var_G_add" => some ((varA ua Z t).map some)
  | "var_A_dom" => some ((varA ua Z t).map some)
  | "var_G" => match ud with
      | some ud => some ((varGDom ua ud t ploidy A).map some)
      | none => none
  | "var_a" => some ((varGenic ua (afreq ploidy A ua.length) ploidy t).map some)
  | "afreq" => some ((afreq ploidy A ua.length : List ℚ).map some)
  | "bulmer" => some (bulmer ua Z (afreq ploidy A ua.length) ploidy t)
  | "score" => match X, Y with
      | some X, some Y => some (score beta ua Y X Z t)
      | _, _ => none
  | "score_dom" => match ud, X, Y with
      | some ud, some X, some Y => some (score beta (ua ++ ud) Y X (castM (hcat A (hetGM ploidy A))) t)
      | _, _, _ => none
  | _ => none

theorem varA_eq_def {beta ua : List (List ℚ)} {t ploidy : ℕ} {g : List (List (List Int))} {n p : ℕ}
    (hv : ViewOK beta ua none none g n p) :
    varDef "gebv" beta ua none t ploidy g = varA ua (castM (phaseSum g)) t := by
  rw [varDef_eq_varCols, valueDef_eq_model (IsModel.gebv none none) hv]
  exact GLin.varCols_gebvMat beta ua _ t

theorem varG_eq_def {beta ua ud : List (List ℚ)} {t ploidy : ℕ} {g : List (List (List Int))} {n p : ℕ}
    (hv : ViewOK beta ua (some ud) none g n p) :
    varDef "gegv" beta ua (some ud) t ploidy g = varGDom ua ud t ploidy (phaseSum g) := by
  rw [varDef_eq_varCols, valueDef_eq_model (IsModel.gegv ud none) hv]
  unfold gegvGM varGDom
  exact GLin.varCols_gebvMat beta (ua ++ ud) _ t

theorem cast_sum_range (n : ℕ) (f : ℕ → Int) :
    ((List.range n).map (fun i => ((f i : Int) : ℚ))).sum = ((((List.range n).map f).sum : Int) : ℚ) := by
  rw [sum_range_map, sum_range_map]
  push_cast
  rfl

theorem afreq_eq_def {g : List (List (List Int))} {n p : ℕ} (h : PhasedOK g n p) (ploidy : ℕ) :
    freqDef p ploidy g = (afreq ploidy (phaseSum g) p : List ℚ) := by
  unfold freqDef afreq acount
  rw [List.map_map, ntaxaOf_eq h, (phaseSum_shape h).1]
  apply List.map_congr_left
  intro j hj
  have hj' : j < p := List.mem_range.mp hj
  simp only [Function.comp]
  rw [map_sum_eq_range _ n (phaseSum_shape h).1]
  congr 3
  apply List.map_congr_left
  intro i hi
  exact dosageAt_eq h i j (List.mem_range.mp hi) hj'

theorem varGenic_eq_def {g : List (List (List Int))} {n p : ℕ} (h : PhasedOK g n p) (ua : List (List ℚ))
    (hua : ua.length = p) (t ploidy : ℕ) :
    varGenicDef ua t ploidy g = varGenic ua (afreq ploidy (phaseSum g) ua.length) ploidy t := by
  unfold varGenicDef varGenic
  rw [hua, afreq_eq_def h ploidy]
  apply List.map_congr_left
  intro k _
  congr 1
  · push_cast; rfl
  · have hfl : (afreq ploidy (phaseSum g) p : List ℚ).length = p := GStats.afreq_length ploidy _ p
    rw [Ridge.zipWith_sum (fun u f => (u * u) * f * (1 - f)) (col ua k) (afreq ploidy (phaseSum g) p) p 0 0
          (by simp [col, hua]) hfl, sum_range_map]
    apply Finset.sum_congr rfl
    intro j hj
    have hj' : j < ua.length := by rw [hua]; exact Finset.mem_range.mp hj
    have : (col ua k).getD j 0 = entry ua j k := by
      simp [col, entry, List.getD_eq_getElem?_getD, List.getElem?_map, List.getElem?_eq_getElem hj']
    rw [this]

theorem bulmer_eq_def {beta ua : List (List ℚ)} {t ploidy : ℕ} {g : List (List (List Int))} {n p : ℕ}
    (hv : ViewOK beta ua none none g n p) :
    bulmerDef beta ua t ploidy g
      = bulmer ua (castM (phaseSum g)) (afreq ploidy (phaseSum g) ua.length) ploidy t := by
  unfold bulmerDef bulmer
  rw [varA_eq_def hv, varGenic_eq_def hv.geno ua hv.ua_len t ploidy, zipWith_eq_zip_map]
  apply List.map_congr_left
  intro pr _
  by_cases h0 : pr.2 = 0
  · simp [h0]
  · simp [h0]

theorem r2_eq_score (beta u Y X Z Yhat : List (List ℚ)) (t : ℕ) (hY : Yhat = predictNumpy beta u X Z t) :
    (List.range t).map (fun k =>
      let y := colQ Y k
      let m := meanQ y
      let sse := ((List.zip y (colQ Yhat k)).map (fun p => (p.1 - p.2) * (p.1 - p.2))).sum
      let sst := (y.map (fun a => (a - m) * (a - m))).sum
      if sst == 0 then none else some (1 - sse / sst)) = score beta u Y X Z t := by
  unfold score
  subst hY
  apply List.map_congr_left
  intro k _
  dsimp only
  rw [zipWith_eq_zip_map]
  by_cases h0 : (List.map (fun a => (a - mean (col Y k)) * (a - mean (col Y k))) (col Y k)).sum = 0
  · simp only [colQ_eq, meanQ_eq, h0, beq_self_eq_true, if_true]
  · have : ((List.map (fun a => (a - mean (col Y k)) * (a - mean (col Y k))) (col Y k)).sum == 0) = false := by
      simpa using h0
    simp only [colQ_eq, meanQ_eq, this, h0, if_false]
    rfl

/-- **every defined statistic row is the model's row** -/
theorem statDef_eq_model {beta ua : List (List ℚ)} {ud X Y : Option (List (List ℚ))} {t ploidy : ℕ}
    {g : List (List (List Int))} {n p : ℕ} (hv : ViewOK beta ua ud X g n p) (name : String)
    (row : List (Option ℚ)) (hm : modelStat name beta ua ud X Y t ploidy g = some row) :
    statDef name beta ua ud X Y t ploidy g = some row := by
  have hv0 : ViewOK beta ua none none g n p :=
    ⟨hv.geno, hv.beta_pos, hv.ua_len, (fun d hd => by cases hd), (fun x hx => by cases hx)⟩
  unfold modelStat at hm
  split at hm
  · simp only [Option.some.injEq] at hm; subst hm; simp [statDef, varA_eq_def hv0]
  · simp only [Option.some.injEq] at hm; subst hm; simp [statDef, varA_eq_def hv0]
  · simp only [Option.some.injEq] at hm; subst hm; simp [statDef, varA_eq_def hv0]
  · cases ud with
    | none => simp at hm
    | some d =>
      simp only [Option.some.injEq] at hm; subst hm
      have hvd : ViewOK beta ua (some d) none g n p :=
        ⟨hv.geno, hv.beta_pos, hv.ua_len, hv.ud_len, (fun x hx => by cases hx)⟩
      simp [statDef, varG_eq_def hvd]
  · simp only [Option.some.injEq] at hm; subst hm
    simp [statDef, varGenic_eq_def hv.geno ua hv.ua_len]
  · simp only [Option.some.injEq] at hm; subst hm
    simp [statDef, hv.ua_len, afreq_eq_def hv.geno]
  · simp only [Option.some.injEq] at hm; subst hm; simp [statDef, bulmer_eq_def hv0]
  · cases X with
    | none => simp at hm
    | some x =>
      cases Y with
      | none => simp at hm
      | some y =>
        simp only [Option.some.injEq] at hm; subst hm
        have := r2_eq_score beta ua y x (castM (phaseSum g)) _ t
              (valueDef_eq_model (IsModel.predict (t := t) (ploidy := ploidy) ud x) hv)
        simp only [statDef, r2Def]
        rw [this]
  · cases ud with
    | none => simp at hm
    | some d =>
      cases X with
      | none => simp at hm
      | some x =>
        cases Y with
        | none => simp at hm
        | some y =>
          simp only [Option.some.injEq] at hm; subst hm
          have := r2_eq_score beta (ua ++ d) y x (castM (hcat (phaseSum g) (hetGM (ploidy : Int) (phaseSum g)))) _ t
                (valueDef_eq_model (IsModel.predict_dom (t := t) (ploidy := ploidy) d x) hv)
          simp only [statDef, r2Def]
          rw [this]
  · simp at hm

end SpecLink
