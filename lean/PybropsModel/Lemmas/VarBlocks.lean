/-
Helper lemmas for C12 (2): the accumulation loops of `from_algmod` (`accum`) applied to a block
contribution that is a double sum of a kernel `κ i j` over the row block × column block
(`kerBlock`; `blockQuad` and all linear combinations of `blockQuad`s are of this form) equal the
plain within-chromosome double sums, whatever the chunk size; and a double sum over all markers of
a kernel that vanishes between chromosomes is the sum of the within-chromosome double sums.
-/
import PybropsModel.Lemmas.VarSums
set_option autoImplicit false

namespace Variance
variable {α : Type} [CommRing α]

/-- `Σ_{i ∈ [rst,rsp)} Σ_{j ∈ [cst,csp)} κ i j` -/
def kerBlock (κ : Nat → Nat → α) (rst rsp cst csp : Nat) : α :=
  sumRange rst rsp (fun i => sumRange cst csp (fun j => κ i j))

/-- the block contribution `(reffect @ D * ceffect).sum(1)` written as a kernel double sum -/
theorem blockQuad_eq (D : Nat → Nat → α) (a b : Nat → α) (rst rsp cst csp : Nat) :
    blockQuad D a b rst rsp cst csp = kerBlock (fun i j => a i * D i j * b j) rst rsp cst csp := by
  unfold blockQuad kerBlock
  rw [sumRange_comm]
  apply sumRange_congr
  intro j _ _
  rw [← sumRange_mul_right]

theorem kerBlock_add (κ₁ κ₂ : Nat → Nat → α) (rst rsp cst csp : Nat) :
    kerBlock κ₁ rst rsp cst csp + kerBlock κ₂ rst rsp cst csp
      = kerBlock (fun i j => κ₁ i j + κ₂ i j) rst rsp cst csp := by
  unfold kerBlock
  simp only [sumRange_add]

theorem kerBlock_mul_left (k : α) (κ : Nat → Nat → α) (rst rsp cst csp : Nat) :
    k * kerBlock κ rst rsp cst csp = kerBlock (fun i j => k * κ i j) rst rsp cst csp := by
  unfold kerBlock
  simp only [sumRange_mul_left]

theorem kerBlock_mul_right (k : α) (κ : Nat → Nat → α) (rst rsp cst csp : Nat) :
    kerBlock κ rst rsp cst csp * k = kerBlock (fun i j => κ i j * k) rst rsp cst csp := by
  unfold kerBlock
  simp only [sumRange_mul_right]

theorem kerBlock_congr (κ κ' : Nat → Nat → α) (rst rsp cst csp : Nat)
    (h : ∀ i j, rst ≤ i → i < rsp → cst ≤ j → j < csp → κ i j = κ' i j) :
    kerBlock κ rst rsp cst csp = kerBlock κ' rst rsp cst csp := by
  unfold kerBlock
  apply sumRange_congr
  intro i h1 h2
  apply sumRange_congr
  intro j h3 h4
  exact h i j h1 h2 h3 h4

/-- summing the block contributions over all pairs of tiles of `[lst,lsp)` gives the contribution of
    the single block `[lst,lsp) × [lst,lsp)` -/
theorem tilePairs_ker (κ : Nat → Nat → α) {lst lsp : Nat} {l : List (Nat × Nat)} (h : Tiles lst lsp l) :
    (l.map (fun rc => (l.map (fun cc => kerBlock κ rc.1 rc.2 cc.1 cc.2)).sum)).sum
      = kerBlock κ lst lsp lst lsp := by
  have inner : ∀ rc : Nat × Nat,
      (l.map (fun cc => kerBlock κ rc.1 rc.2 cc.1 cc.2)).sum
        = sumRange rc.1 rc.2 (fun i => sumRange lst lsp (fun j => κ i j)) := by
    intro rc
    unfold kerBlock
    rw [listSum_sumRange]
    apply sumRange_congr
    intro i _ _
    exact tiles_sum h (fun j => κ i j)
  simp only [inner]
  exact tiles_sum h (fun i => sumRange lst lsp (fun j => κ i j))

/-- within-chromosome double sums, chromosome by chromosome -/
def genomeKer (chrs : List (Nat × Nat)) (κ : Nat → Nat → α) : α :=
  (chrs.map (fun c => kerBlock κ c.1 c.2 c.1 c.2)).sum

/-- admissible chunk sizes: `mem` is `None` or a positive integer (`range()` rejects step 0) -/
def MemOK (mem : Option Nat) : Prop := ∀ k, mem = some k → 0 < k

/-- **chunk invariance, kernel form**: the three nested loops over linkage groups, row chunks and
    column chunks compute the within-chromosome double sums for every admissible chunk size -/
theorem accum_ker (mem : Option Nat) (hmem : MemOK mem) (chrs : List (Nat × Nat))
    (hchr : ∀ c ∈ chrs, c.1 ≤ c.2) (κ : Nat → Nat → α) :
    accum mem chrs (kerBlock κ) = genomeKer chrs κ := by
  unfold accum genomeKer
  congr 1
  apply List.map_congr_left
  intro c hc
  have hle := hchr c hc
  by_cases hlt : c.1 < c.2
  · have hstep : 0 < mem.getD (c.2 - c.1) := by
      cases hm : mem with
      | none => simp only [Option.getD_none]; omega
      | some k => simp only [Option.getD_some]; exact hmem k hm
    exact tilePairs_ker κ (chunks_tiles' c.1 c.2 _ hstep hle)
  · have heq : c.1 = c.2 := by omega
    rw [← heq, chunks_empty]
    simp [kerBlock, sumRange_empty]

theorem genomeKer_congr (chrs : List (Nat × Nat)) (κ κ' : Nat → Nat → α)
    (h : ∀ c ∈ chrs, ∀ i j, c.1 ≤ i → i < c.2 → c.1 ≤ j → j < c.2 → κ i j = κ' i j) :
    genomeKer chrs κ = genomeKer chrs κ' := by
  unfold genomeKer
  congr 1
  apply List.map_congr_left
  intro c hc
  exact kerBlock_congr κ κ' _ _ _ _ (h c hc)

theorem genomeKer_mul_right (chrs : List (Nat × Nat)) (κ : Nat → Nat → α) (k : α) :
    genomeKer chrs κ * k = genomeKer chrs (fun i j => κ i j * k) := by
  unfold genomeKer
  rw [← List.sum_map_mul_right]
  congr 1
  apply List.map_congr_left
  intro c _
  exact kerBlock_mul_right k κ _ _ _ _

/-- a double sum over `[a,b)²` of a kernel that vanishes for pairs not lying in a common tile is the
    sum of the double sums over the tiles (linkage groups) -/
theorem tiles_double_sum {a b : Nat} {l : List (Nat × Nat)} (h : Tiles a b l) (κ : Nat → Nat → α) :
    (∀ i j, a ≤ i → i < b → a ≤ j → j < b →
        (∀ c ∈ l, ¬ ((c.1 ≤ i ∧ i < c.2) ∧ (c.1 ≤ j ∧ j < c.2))) → κ i j = 0) →
    kerBlock κ a b a b = genomeKer l κ := by
  induction h with
  | nil a => intro _; simp [kerBlock, genomeKer, sumRange_empty]
  | cons a m b l h1 ht ih =>
    intro hz
    have hmb := ht.le
    have hmem := tiles_mem ht
    unfold genomeKer
    simp only [List.map_cons, List.sum_cons]
    have hrec : kerBlock κ m b m b = genomeKer l κ := by
      apply ih
      intro i j hi1 hi2 hj1 hj2 hno
      apply hz i j (by omega) hi2 (by omega) hj2
      intro c hc
      rcases List.mem_cons.mp hc with rfl | hc
      · simp only; omega
      · exact hno c hc
    unfold genomeKer at hrec
    rw [← hrec]
    -- split the square into four blocks; the two off-diagonal blocks vanish
    have hAB : kerBlock κ a m m b = 0 := by
      unfold kerBlock
      rw [← sumRange_zero a m]
      apply sumRange_congr; intro i hi1 hi2
      rw [← sumRange_zero m b]
      apply sumRange_congr; intro j hj1 hj2
      apply hz i j hi1 (by omega) (by omega) hj2
      intro c hc
      rcases List.mem_cons.mp hc with rfl | hc
      · simp only; omega
      · have := hmem c hc; omega
    have hBA : kerBlock κ m b a m = 0 := by
      unfold kerBlock
      rw [← sumRange_zero m b]
      apply sumRange_congr; intro i hi1 hi2
      rw [← sumRange_zero a m]
      apply sumRange_congr; intro j hj1 hj2
      apply hz i j (by omega) hi2 hj1 (by omega)
      intro c hc
      rcases List.mem_cons.mp hc with rfl | hc
      · simp only; omega
      · have := hmem c hc; omega
    have hsplit : kerBlock κ a b a b
        = kerBlock κ a m a m + kerBlock κ a m m b + (kerBlock κ m b a m + kerBlock κ m b m b) := by
      unfold kerBlock
      rw [sumRange_split a m b h1 hmb]
      congr 1
      · rw [← sumRange_add]
        apply sumRange_congr; intro i _ _
        exact sumRange_split a m b h1 hmb _
      · rw [← sumRange_add]
        apply sumRange_congr; intro i _ _
        exact sumRange_split a m b h1 hmb _
    rw [hsplit, hAB, hBA]
    ring

end Variance

namespace Variance
variable {α : Type} [CommRing α]

theorem genomeKer_zero (chrs : List (Nat × Nat)) : genomeKer chrs (fun _ _ => (0 : α)) = 0 := by
  unfold genomeKer kerBlock
  simp only [sumRange_zero]
  induction chrs with
  | nil => rfl
  | cons c l ih => simp only [List.map_cons, List.sum_cons, ih, add_zero]

theorem genomeKer_sub (chrs : List (Nat × Nat)) (κ κ' : Nat → Nat → α) :
    genomeKer chrs κ - genomeKer chrs κ' = genomeKer chrs (fun i j => κ i j - κ' i j) := by
  unfold genomeKer kerBlock
  induction chrs with
  | nil => simp
  | cons c l ih =>
    simp only [List.map_cons, List.sum_cons]
    rw [← ih]
    simp only [sumRange_eq_finset, Finset.sum_sub_distrib]
    ring

end Variance
