/-
C01: the taxa-group metadata of the progeny matrix (`taxa_grp_name`, `taxa_grp_stix`, `taxa_grp_len`, and
`taxa_grp_spix = stix + len`), which `group_taxa()` computes with `numpy.unique(taxa_grp, return_index = True,
return_counts = True)` on the sorted family labels: in closed form, one entry per cross that HAS progeny, in
configuration order — (family number, number of progeny of the earlier crosses, nmating_i * nprogeny_i).
-/
import Mathlib.Tactic
import PybropsModel.Lemmas.MatingSpec
set_option autoImplicit false
set_option linter.unusedSectionVars false

namespace Mating
open Meiosis

/-- the runs of `numpy.repeat(vals, counts)`, skipping empty ones: (value, start, length) -/
def runsOfCounts : Nat → List Nat → List Nat → List (Nat × Nat × Nat)
  | st, c :: cs, v :: vs => if c = 0 then runsOfCounts st cs vs else (v, st, c) :: runsOfCounts (st + c) cs vs
  | _, _, _ => []

/-- a run of the current value extends the open run -/
theorem uniqueRuns_go_same (a : Nat) : ∀ (n i st m : Nat) (rest : List Nat) (acc : List (Nat × Nat × Nat)),
    Np.uniqueRuns.go i (List.replicate n a ++ rest) ((a, st, m) :: acc)
      = Np.uniqueRuns.go (i + n) rest ((a, st, m + n) :: acc)
  | 0, i, st, m, rest, acc => by simp
  | n + 1, i, st, m, rest, acc => by
    rw [List.replicate_succ, List.cons_append, Np.uniqueRuns.go]
    simp only [beq_self_eq_true, if_true]
    rw [uniqueRuns_go_same a n (i + 1) st (m + 1) rest acc,
      show i + 1 + n = i + (n + 1) by omega, show m + 1 + n = m + (n + 1) by omega]

/-- a non-empty run of a new value opens a run at the current position -/
theorem uniqueRuns_go_new (a : Nat) (n i : Nat) (rest : List Nat) (acc : List (Nat × Nat × Nat))
    (hacc : ∀ x ∈ acc.head?, x.1 ≠ a) :
    Np.uniqueRuns.go i (List.replicate (n + 1) a ++ rest) acc
      = Np.uniqueRuns.go (i + (n + 1)) rest ((a, i, n + 1) :: acc) := by
  rw [List.replicate_succ, List.cons_append]
  cases acc with
  | nil =>
    rw [Np.uniqueRuns.go, uniqueRuns_go_same a n (i + 1) i 1 rest [],
      show i + 1 + n = i + (n + 1) by omega, show 1 + n = n + 1 by omega]
  | cons x acc =>
    obtain ⟨v, st, m⟩ := x
    have hv : v ≠ a := hacc (v, st, m) (by simp)
    rw [Np.uniqueRuns.go]
    have : (a == v) = false := by simp [Ne.symm hv]
    simp only [this]
    rw [if_neg (by simp), uniqueRuns_go_same a n (i + 1) i 1 rest ((v, st, m) :: acc),
      show i + 1 + n = i + (n + 1) by omega, show 1 + n = n + 1 by omega]

/-- `numpy.unique` with indices and counts on `numpy.repeat(vals, counts)` for strictly increasing `vals` -/
theorem uniqueRuns_go_repeatEach : ∀ (cs vs : List Nat) (i : Nat) (acc : List (Nat × Nat × Nat)),
    vs.Pairwise (· < ·) → (∀ x ∈ acc.head?, ∀ v ∈ vs, x.1 < v) →
    Np.uniqueRuns.go i (Np.repeatEach cs vs) acc = acc.reverse ++ runsOfCounts i cs vs
  | [], vs, i, acc, _, _ => by simp [Np.repeatEach, Np.uniqueRuns.go, runsOfCounts]
  | _ :: _, [], i, acc, _, _ => by simp [Np.repeatEach, Np.uniqueRuns.go, runsOfCounts]
  | c :: cs, v :: vs, i, acc, hp, hacc => by
    rw [List.pairwise_cons] at hp
    cases c with
    | zero =>
      simp only [Np.repeatEach, List.replicate_zero, List.nil_append, runsOfCounts, if_true]
      exact uniqueRuns_go_repeatEach cs vs i acc hp.2 (fun x hx w hw => hacc x hx w (by simp [hw]))
    | succ n =>
      simp only [Np.repeatEach, runsOfCounts]
      rw [uniqueRuns_go_new v n i _ acc (fun x hx => Nat.ne_of_lt (hacc x hx v (by simp)))]
      rw [uniqueRuns_go_repeatEach cs vs (i + (n + 1)) ((v, i, n + 1) :: acc) hp.2
        (fun x hx w hw => by simp at hx; subst hx; exact hp.1 w hw)]
      simp

theorem uniqueRuns_repeatEach (cs vs : List Nat) (hp : vs.Pairwise (· < ·)) :
    Np.uniqueRuns (Np.repeatEach cs vs) = runsOfCounts 0 cs vs := by
  unfold Np.uniqueRuns
  rw [uniqueRuns_go_repeatEach cs vs 0 [] hp (by simp)]
  simp

theorem pairwise_lt_arange (s n : Nat) : (Np.arange s n).Pairwise (· < ·) := by
  unfold Np.arange
  rw [List.pairwise_map]
  exact List.Pairwise.imp (by intro a b h; omega) List.pairwise_lt_range

variable {α ρ : Type} [LT ρ] [DecidableLT ρ]

/-- the group metadata is `numpy.unique` of the (sorted) family labels of the returned rows -/
theorem mate_grpMeta {P : Proto} {pop : Pop α} {xc : List (List Nat)} {nmating nprogeny : Cnt} {nself : Nat}
    {xo : List ρ} {pc fc : Nat} {draws : List (DrawMat ρ)} {out : Out α}
    (h : mate P pop xc nmating nprogeny nself xo pc fc draws = .ok out) :
    out.grpMeta = Np.uniqueRuns (out.rows.map Row.grp) := by
  unfold mate at h
  split at h
  · simp at h
  · split at h
    · simp at h
    · split at h
      · simp at h
      · split at h
        · simp at h
        · split at h
          · simp at h
          · split at h
            · simp at h
            · dsimp only at h
              split at h
              · simp at h
              · simp only [Except.ok.injEq] at h
                subst h
                rfl

/-- closed form of the progeny's taxa-group metadata -/
theorem mate_grpMeta_closed {ρ : Type} [Preorder ρ] [DecidableLT ρ] [Zero ρ] {P : Proto} {pop : Pop α} {xc : List (List Nat)} {nmating nprogeny : Cnt} {nself : Nat}
    {xo : List ρ} {pc fc : Nat} {draws : List (DrawMat ρ)} {out : Out α}
    (h : mate P pop xc nmating nprogeny nself xo pc fc draws = .ok out) :
    ∃ nm np, nmating.expand xc.length = .ok nm ∧ nprogeny.expand xc.length = .ok np ∧
      out.grpMeta = runsOfCounts 0 (List.zipWith (· * ·) nm np) (Np.arange fc xc.length) := by
  obtain ⟨nm, np, h1, h2, _, hg, _⟩ := mate_labels h
  refine ⟨nm, np, h1, h2, ?_⟩
  rw [mate_grpMeta h, hg]
  exact uniqueRuns_repeatEach _ _ (pairwise_lt_arange fc xc.length)

/-- what the closed form says, entry by entry -/
theorem mem_runsOfCounts : ∀ (cs vs : List Nat) (st : Nat) (e : Nat × Nat × Nat), e ∈ runsOfCounts st cs vs →
    ∃ i, i < cs.length ∧ vs[i]? = some e.1 ∧ cs[i]? = some e.2.2 ∧ 0 < e.2.2 ∧ e.2.1 = st + (cs.take i).sum
  | [], _, _, e, h => by simp [runsOfCounts] at h
  | _ :: _, [], _, e, h => by simp [runsOfCounts] at h
  | c :: cs, v :: vs, st, e, h => by
    simp only [runsOfCounts] at h
    split at h
    · rename_i hc
      obtain ⟨i, hi, h1, h2, h3, h4⟩ := mem_runsOfCounts cs vs st e h
      exact ⟨i + 1, by simpa using hi, by simpa using h1, by simpa using h2, h3, by simp [h4, hc]⟩
    · rename_i hc
      rcases List.mem_cons.mp h with rfl | h
      · exact ⟨0, by simp, by simp, by simp, Nat.pos_of_ne_zero hc, by simp⟩
      · obtain ⟨i, hi, h1, h2, h3, h4⟩ := mem_runsOfCounts cs vs (st + c) e h
        exact ⟨i + 1, by simpa using hi, by simpa using h1, by simpa using h2, h3, by simp [h4]; omega⟩

end Mating
