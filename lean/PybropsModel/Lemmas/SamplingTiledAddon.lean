/-
Helper lemmas for C17, the second copy of the tiling mechanism (opt/algo/pymoo_addon.py:tiled_choice):
every full draw without replacement is a rearrangement of the options, so an option is used once per
full draw and once more iff the remainder draw holds it.
-/
import PybropsModel.Lemmas.SamplingTiled
set_option autoImplicit false

namespace Sampling

theorem isDistinctDraw_iff (a len : Nat) (d : List Nat) :
    isDistinctDraw a len d = true ↔ d.length = len ∧ (∀ i ∈ d, i < a) ∧ d.Nodup := by
  unfold isDistinctDraw
  simp only [Bool.and_eq_true, beq_iff_eq, List.all_eq_true, decide_eq_true_eq, and_assoc]

/-- what `choice(a, a, replace=False)` returns is a rearrangement of `range(a)` -/
theorem full_draw_perm (a : Nat) (d : List Nat) (h : isDistinctDraw a a d = true) : d.Perm (List.range a) := by
  obtain ⟨hl, hlt, hnd⟩ := (isDistinctDraw_iff a a d).mp h
  have hsub : d ⊆ List.range a := fun i hi => List.mem_range.mpr (hlt i hi)
  exact (List.subperm_of_subset hnd hsub).perm_of_length_le (by simp [hl])

theorem flatten_full_count (a : Nat) (ts : List (List Nat)) (h : ∀ t ∈ ts, isDistinctDraw a a t = true)
    (i : Nat) (hi : i < a) : ts.flatten.count i = ts.length := by
  induction ts with
  | nil => simp
  | cons t ts ih =>
    rw [List.flatten_cons, List.count_append, ih (fun t' ht' => h t' (List.mem_cons_of_mem _ ht')),
      (full_draw_perm a t (h t List.mem_cons_self)).count_eq, count_range, if_pos hi, List.length_cons]
    omega

theorem flatten_full_length (a : Nat) (ts : List (List Nat)) (h : ∀ t ∈ ts, isDistinctDraw a a t = true) :
    ts.flatten.length = ts.length * a := by
  induction ts with
  | nil => simp
  | cons t ts ih =>
    rw [List.flatten_cons, List.length_append, ih (fun t' ht' => h t' (List.mem_cons_of_mem _ ht')),
      ((isDistinctDraw_iff a a t).mp (h t List.mem_cons_self)).1, List.length_cons]
    ring

theorem tiledAddon_ok_iff (a size : Nat) (tiles : List (List Nat)) (idx : List Nat) :
    tiledAddon a size tiles = .ok idx ↔
      a ≠ 0 ∧ ∃ full last, tiles = full ++ [last] ∧ full.length = size / a ∧
        (∀ t ∈ full, isDistinctDraw a a t = true) ∧ isDistinctDraw a (size % a) last = true ∧
        idx = full.flatten ++ last := by
  unfold tiledAddon
  split_ifs with h0 h1
  · constructor
    · intro h; cases h
    · rintro ⟨h, _⟩; exact absurd h0 h
  · obtain ⟨hl, hf, hd⟩ := h1
    have hdl : (tiles.drop (size / a)).length = 1 := by rw [List.length_drop, hl]; omega
    obtain ⟨last, hlast⟩ := List.length_eq_one_iff.mp hdl
    have hsplit : tiles = tiles.take (size / a) ++ [last] := by rw [← hlast, List.take_append_drop]
    constructor
    · intro h
      injection h with h
      refine ⟨h0, tiles.take (size / a), last, hsplit, by rw [List.length_take, hl]; omega,
        fun t ht => List.all_eq_true.mp hf t ht, ?_, ?_⟩
      · have := List.all_eq_true.mp hd last (by rw [hlast]; exact List.mem_singleton_self _)
        exact this
      · rw [← h]; conv_lhs => rw [hsplit]
        simp
    · rintro ⟨_, full, last', hsp, hfl, _, _, rfl⟩
      congr 1
      rw [hsp]; simp
  · constructor
    · intro h; cases h
    · rintro ⟨_, full, last, hsp, hfl, hfull, hlast, _⟩
      exfalso; apply h1
      subst hsp
      refine ⟨by simp [hfl], ?_, ?_⟩
      · rw [← hfl, List.take_left']
        · exact List.all_eq_true.mpr hfull
        · rfl
      · rw [← hfl, List.drop_left']
        · simp [hlast]
        · rfl

/-- an option is used once per full draw, plus once more iff the remainder draw holds it -/
theorem tiledAddon_facts (a size : Nat) (tiles : List (List Nat)) (idx : List Nat)
    (h : tiledAddon a size tiles = .ok idx) :
    idx.length = size ∧ (∀ i ∈ idx, i < a) ∧
    ∃ last : List Nat, last.length = size % a ∧ last.Nodup ∧ (∀ i ∈ last, i < a) ∧
      ∀ i < a, idx.count i = size / a + (if i ∈ last then 1 else 0) := by
  obtain ⟨h0, full, last, _, hfl, hfull, hlast, rfl⟩ := (tiledAddon_ok_iff a size tiles idx).mp h
  obtain ⟨hll, hllt, hlnd⟩ := (isDistinctDraw_iff a (size % a) last).mp hlast
  refine ⟨?_, ?_, last, hll, hlnd, hllt, fun i hi => ?_⟩
  · rw [List.length_append, flatten_full_length a full hfull, hfl, hll]
    exact Nat.div_add_mod' size a
  · intro i hi
    rcases List.mem_append.mp hi with h1 | h1
    · obtain ⟨t, ht, hit⟩ := List.mem_flatten.mp h1
      exact ((isDistinctDraw_iff a a t).mp (hfull t ht)).2.1 i hit
    · exact hllt i h1
  · rw [List.count_append, flatten_full_count a full hfull i hi, hfl, count_nodup last hlnd]

end Sampling
