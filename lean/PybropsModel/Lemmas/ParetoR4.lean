/-
Helper lemmas for C19, round 4:
* sums of coordinate-wise ordered lists (the "sum form" of strict dominance, exact over an ordered field);
* the distance to the preference line does not depend on the length of the preference vector;
* what the relational Spec oracles `Pareto.specSameVectors` / `Pareto.specCloseAll` decide;
* the mask form marks exactly the efficient vectors.
-/
import PybropsModel.Lemmas.ParetoDot
import PybropsModel.Lemmas.ParetoSigned
set_option autoImplicit false
set_option linter.unusedSectionVars false

namespace C19
open Pareto

section sums
variable {α : Type} [Field α] [LinearOrder α] [IsStrictOrderedRing α]

/-- coordinate-wise `≤` on lists of one length: the sums are ordered, and strictly so exactly when some
    coordinate is strictly smaller -/
theorem sum_le_and_lt_iff (a b : List α) (hlen : a.length = b.length)
    (hle : ∀ i (h1 : i < a.length) (h2 : i < b.length), a[i] ≤ b[i]) :
    a.sum ≤ b.sum ∧ (a.sum < b.sum ↔ ∃ i, ∃ (h1 : i < a.length) (h2 : i < b.length), a[i] < b[i]) := by
  induction a generalizing b with
  | nil =>
    have : b = [] := List.length_eq_zero_iff.mp hlen.symm
    subst this
    simp
  | cons x a ih =>
    cases b with
    | nil => simp at hlen
    | cons y b =>
      have hl : a.length = b.length := by simpa using hlen
      have hxy : x ≤ y := by
        have := hle 0 (by simp) (by simp)
        simp only [List.getElem_cons_zero] at this
        exact this
      have htl : ∀ i (h1 : i < a.length) (h2 : i < b.length), a[i] ≤ b[i] := by
        intro i h1 h2
        have := hle (i + 1) (by simp; omega) (by simp; omega)
        simp only [List.getElem_cons_succ] at this
        exact this
      obtain ⟨ih1, ih2⟩ := ih b hl htl
      simp only [List.sum_cons]
      refine ⟨add_le_add hxy ih1, ?_⟩
      constructor
      · intro hlt
        by_cases hx : x < y
        · exact ⟨0, by simp, by simp, by simpa using hx⟩
        · have hxe : x = y := le_antisymm hxy (not_lt.mp hx)
          have hs : a.sum < b.sum := by
            rw [hxe] at hlt
            exact lt_of_add_lt_add_left hlt
          obtain ⟨i, h1, h2, hi⟩ := ih2.mp hs
          exact ⟨i + 1, by simp; omega, by simp; omega, by simpa using hi⟩
      · rintro ⟨i, h1, h2, hi⟩
        cases i with
        | zero =>
          have : x < y := by simpa using hi
          exact add_lt_add_of_lt_of_le this ih1
        | succ i =>
          have : a.sum < b.sum := ih2.mpr ⟨i, by simpa using h1, by simpa using h2, by simpa using hi⟩
          exact add_lt_add_of_le_of_lt hxy this

end sums

section line
variable {α : Type} [Field α]

theorem vdot_smul_right' (c : α) (p l : List α) : vdot p (smul c l) = c * vdot p l := by
  unfold smul vdot
  rw [List.zipWith_map_right]
  have : List.zipWith (fun a b => a * (c * b)) p l = (List.zipWith (· * ·) p l).map (fun z => c * z) := by
    rw [List.map_zipWith]; congr 1; funext a b; ring
  rw [this, List.sum_map_mul_left, List.map_id']

theorem vdot_smul_left' (c : α) (l w : List α) : vdot (smul c l) w = c * vdot l w := by
  rw [vdot_comm, vdot_smul_right', vdot_comm]

theorem vdot_smul_smul (c : α) (l : List α) : vdot (smul c l) (smul c l) = c * c * vdot l l := by
  rw [vdot_smul_left', vdot_smul_right']; ring

/-- the squared distance of a point to the line spanned by `l` does not depend on the length of `l` -/
theorem distSq_smul_line (c : α) (hc : c ≠ 0) (l p : List α) : distSq (smul c l) p = distSq l p := by
  rw [distSq_eq_normSq, distSq_eq_normSq]
  congr 1
  have e : List.zipWith (fun x y => x - ((1:α) / Np.dot (smul c l) (smul c l)) * Np.dot p (smul c l) * y) p (smul c l)
      = List.zipWith (fun x y => x - ((1:α) / Np.dot (smul c l) (smul c l)) * Np.dot p (smul c l) * (c * y)) p l := by
    unfold smul
    rw [List.zipWith_map_right]
  rw [e]
  congr 1
  funext x y
  rw [np_dot_eq, np_dot_eq, np_dot_eq, np_dot_eq, vdot_smul_smul, vdot_smul_right']
  by_cases hll : vdot l l = 0
  · rw [hll]; simp
  · field_simp

theorem dot_smul_eq_zero_iff (c : α) (hc : c ≠ 0) (l : List α) :
    Np.dot (smul c l) (smul c l) = 0 ↔ Np.dot l l = 0 := by
  rw [np_dot_eq, np_dot_eq, vdot_smul_smul]
  constructor
  · intro h
    rcases mul_eq_zero.mp h with h | h
    · rcases mul_eq_zero.mp h with h | h <;> exact absurd h hc
    · exact h
  · intro h; rw [h]; ring

end line

section repaired
variable {α : Type} [Field α] [LinearOrder α] [IsStrictOrderedRing α]

/-- the common model does not depend on the length of the preference vector -/
theorem transDistSq_smul_line (g : Bool) (mat : List (List α)) (sign line : List α) (c : α) (hc : c ≠ 0) :
    transDistSq g mat sign (smul c line) = transDistSq g mat sign line := by
  unfold transDistSq
  have h0 : (Np.dot (smul c line) (smul c line) == 0) = (Np.dot line line == 0) := by
    rw [Bool.eq_iff_iff, beq_iff_eq, beq_iff_eq]
    exact dot_smul_eq_zero_iff c hc line
  rw [h0]
  by_cases hz : (Np.dot line line == 0) = true
  · rw [if_pos hz, if_pos hz]
  · rw [if_neg hz, if_neg hz]
    cases scaleCols g (mat.map (fun r => List.zipWith (· * ·) r sign)) with
    | none => rfl
    | some m =>
      simp only []
      congr 1
      apply List.map_congr_left
      intro p _
      exact distSq_smul_line c hc line p

theorem absv_pos (x : α) (hx : x ≠ 0) : 0 < absv x := by
  unfold absv
  by_cases h : x < 0
  · rw [if_pos h]; linarith
  · rw [if_neg h]; exact lt_of_le_of_ne (not_lt.mp h) (Ne.symm hx)

/-- the largest magnitude of a non-zero vector is non-zero -/
theorem colMax_abs_pos (l : List α) (h : ∃ x ∈ l, x ≠ 0) : 0 < colMax (l.map absv) := by
  obtain ⟨x, hx, hne⟩ := h
  exact lt_of_lt_of_le (absv_pos x hne) (le_colMax _ _ (List.mem_map.mpr ⟨x, hx, rfl⟩))

theorem normLine_eq_smul (l : List α) : normLine l = smul (1 / colMax (l.map absv)) l := by
  unfold normLine smul
  apply List.map_congr_left
  intro y _
  rw [div_eq_mul_inv, one_div, mul_comm]

theorem normLineMax_eq_smul (l : List α) : normLineMax l = smul (1 / colMax l) l := by
  unfold normLineMax smul
  apply List.map_congr_left
  intro y _
  rw [div_eq_mul_inv, one_div, mul_comm]

/-- the repaired protocol copies are the pre-repair ones on the normalised vector (by definition) … -/
theorem transDistProb_def (mat : List (List α)) (obj_wt vec_wt : List α) :
    transDistProb mat obj_wt vec_wt = transDistProbPrerepair mat (normLine obj_wt) vec_wt := rfl

theorem transDistFn_def (mat : List (List α)) (objfn_wt wt : List α) :
    transDistFn mat objfn_wt wt = transDistFnPrerepair mat (normLine objfn_wt) wt := rfl

/-- … hence equal to the common model for every NON-ZERO preference vector -/
theorem transDistProb_eq (mat : List (List α)) (obj_wt vec_wt : List α) (h : ∃ x ∈ obj_wt, x ≠ 0) :
    transDistProb mat obj_wt vec_wt = transDistSq true mat vec_wt obj_wt := by
  rw [transDistProb_def, transDistProbPrerepair_eq, normLine_eq_smul]
  exact transDistSq_smul_line true mat vec_wt obj_wt _ (one_div_ne_zero (ne_of_gt (colMax_abs_pos obj_wt h)))

theorem transDistFn_eq (mat : List (List α)) (objfn_wt wt : List α) (h : ∃ x ∈ objfn_wt, x ≠ 0) :
    transDistFn mat objfn_wt wt = transDistSq true mat wt objfn_wt := by
  rw [transDistFn_def, transDistFnPrerepair_eq, normLine_eq_smul]
  exact transDistSq_smul_line true mat wt objfn_wt _ (one_div_ne_zero (ne_of_gt (colMax_abs_pos objfn_wt h)))

/-- the zero vector gives NaN (`none`) in the protocol copies, before and after the repair -/
theorem transDistFn_zero_vector (mat : List (List α)) (objfn_wt wt : List α) (h : ∀ x ∈ objfn_wt, x = 0) :
    transDistFn mat objfn_wt wt = none ∧ transDistProb mat objfn_wt wt = none := by
  have hz : ∀ y ∈ normLine objfn_wt, y = 0 := by
    intro y hy
    unfold normLine at hy
    obtain ⟨x, hx, rfl⟩ := List.mem_map.mp hy
    rw [h x hx]; simp
  have h0 : Np.dot (normLine objfn_wt) (normLine objfn_wt) = 0 := by
    rw [np_dot_eq, vdot_self]
    exact (normSq_eq_zero_iff _).mpr hz
  constructor
  · rw [transDistFn_def]; unfold transDistFnPrerepair; simp [h0]
  · rw [transDistProb_def]; unfold transDistProbPrerepair; simp [h0]

/-- a non-negative preference vector with a positive entry passes the three `assert`s of the repaired core copy -/
theorem transDistCore_eq (mat : List (List α)) (minmax pw : List α)
    (hnn : ∀ x ∈ pw, 0 ≤ x) (hpos : ∃ x ∈ pw, 0 < x) :
    transDistCore mat minmax pw = transDistSq true mat minmax pw := by
  have hm : 0 < colMax pw := by
    obtain ⟨x, hx, hp⟩ := hpos
    exact lt_of_lt_of_le hp (le_colMax pw x hx)
  have hnn' : ∀ y ∈ normLineMax pw, 0 ≤ y := by
    intro y hy
    unfold normLineMax at hy
    obtain ⟨x, hx, rfl⟩ := List.mem_map.mp hy
    exact div_nonneg (hnn x hx) hm.le
  have hpos' : ∃ y ∈ normLineMax pw, 0 < y := by
    obtain ⟨x, hx, hp⟩ := hpos
    exact ⟨x / colMax pw, List.mem_map.mpr ⟨x, hx, rfl⟩, div_pos hp hm⟩
  have h1 : pw.any (fun x => decide (x < 0)) = false := by
    rw [List.any_eq_false]
    intro x hx
    simpa using hnn x hx
  have h2 : pw.any (fun x => decide (0 < x)) = true := by
    rw [List.any_eq_true]
    obtain ⟨x, hx, hp⟩ := hpos
    exact ⟨x, hx, by simpa using hp⟩
  have h1' : (normLineMax pw).any (fun x => decide (x < 0)) = false := by
    rw [List.any_eq_false]
    intro x hx
    simpa using hnn' x hx
  have h2' : (normLineMax pw).any (fun x => decide (0 < x)) = true := by
    rw [List.any_eq_true]
    obtain ⟨x, hx, hp⟩ := hpos'
    exact ⟨x, hx, by simpa using hp⟩
  have step : transDistCore mat minmax pw = transDistCorePrerepair mat minmax (normLineMax pw) := by
    unfold transDistCore transDistCorePrerepair
    simp only [h1, h2, h1', h2', Bool.false_eq_true, if_false, Bool.not_true]
  rw [step, transDistCorePrerepair_eq mat minmax _ hnn' hpos', normLineMax_eq_smul]
  exact transDistSq_smul_line true mat minmax pw _ (one_div_ne_zero (ne_of_gt hm))

/-- the `assert`s reject a preference vector with a negative entry -/
theorem transDistCore_rejects_negative (mat : List (List α)) (minmax pw : List α) (h : ∃ x ∈ pw, x < 0) :
    transDistCore mat minmax pw = none := by
  unfold transDistCore
  have h1 : pw.any (fun x => decide (x < 0)) = true := by
    rw [List.any_eq_true]
    obtain ⟨x, hx, hp⟩ := h
    exact ⟨x, hx, by simpa using hp⟩
  rw [if_pos h1]

end repaired

section relspec
variable {α : Type} [DecidableEq α]

theorem specSameVectors_iff (rows rows' : List (List α)) (mask mask' : List Bool) :
    specSameVectors rows rows' mask mask' = true ↔
      ∀ v, v ∈ Np.compress mask rows ↔ v ∈ Np.compress mask' rows' := by
  unfold specSameVectors
  simp only [Bool.and_eq_true, List.all_eq_true, decide_eq_true_eq]
  constructor
  · rintro ⟨h1, h2⟩ v
    exact ⟨h1 v, h2 v⟩
  · intro h
    exact ⟨fun v hv => (h v).mp hv, fun v hv => (h v).mpr hv⟩

end relspec

section maskvecs
variable {α : Type} [Mul α] [LinearOrder α]

/-- the rows selected by the model's mask are exactly the rows listed by the model's index form -/
theorem mem_compress_efficientMask (fmat : List (List α)) (wt : List α) (v : List α) :
    v ∈ Np.compress (efficientMask fmat wt) (fmat.map (applyWt wt)) ↔
      ∃ i ∈ efficientIdx fmat wt, i < fmat.length ∧ wrow fmat wt i = v := by
  rw [mem_compress]
  have hml : (efficientMask fmat wt).length = fmat.length := by simp [efficientMask]
  constructor
  · rintro ⟨i, h1, h2, hm, hv⟩
    have hi : i < fmat.length := by simpa using h2
    refine ⟨i, ?_, hi, ?_⟩
    · have : (efficientMask fmat wt)[i] = (efficientIdx fmat wt).contains i := by
        simp [efficientMask]
      rw [this] at hm
      simpa using hm
    · rw [← hv, rows_getElem]
  · rintro ⟨i, hi, hlt, hv⟩
    have h1 : i < (efficientMask fmat wt).length := by rw [hml]; exact hlt
    have h2 : i < (fmat.map (applyWt wt)).length := by simpa using hlt
    refine ⟨i, h1, h2, ?_, ?_⟩
    · have : (efficientMask fmat wt)[i] = (efficientIdx fmat wt).contains i := by
        simp [efficientMask]
      rw [this]
      simpa using hi
    · rw [rows_getElem, hv]

end maskvecs

section negw
variable {α : Type} [CommRing α] [LinearOrder α] [IsStrictOrderedRing α]

/-- weights `-1` on every objective (all objectives minimised) negate the row -/
theorem applyWt_neg_ones (n : Nat) (r : List α) (h : r.length = n) :
    applyWt (List.replicate n (-1)) r = r.map (fun x => -x) := by
  unfold applyWt
  apply List.ext_getElem
  · simp [h]
  · intro k h1 h2
    simp

theorem strictDom_map_neg (a b : List α) :
    strictDom (a.map (fun x => -x)) (b.map (fun x => -x)) = strictDom b a := by
  rw [Bool.eq_iff_iff, strictDom_iff, strictDom_iff, weakDom_iff, weakDom_iff]
  simp only [List.length_map, List.getElem_map, neg_le_neg_iff, neg_lt_neg_iff]
  constructor
  · rintro ⟨hw, i, h1, h2, hlt⟩
    exact ⟨fun k k1 k2 => hw k k2 k1, i, h2, h1, hlt⟩
  · rintro ⟨hw, i, h1, h2, hlt⟩
    exact ⟨fun k k1 k2 => hw k k2 k1, i, h2, h1, hlt⟩

theorem map_neg_injective (a b : List α) (h : a.map (fun x => -x) = b.map (fun x => -x)) : a = b := by
  have := congrArg (List.map (fun x : α => -x)) h
  simpa [List.map_map, Function.comp_def] using this

end negw

end C19
