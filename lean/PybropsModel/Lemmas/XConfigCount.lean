/-
Helper lemmas for C07 (11): counting — the size of the cross maps (binomial / multiset coefficient) and
the remainder draw of the integer encodings (its counts sum to the remainder size; every admissible
remainder vector is reachable).
-/
import Mathlib.Tactic
import Mathlib.Combinatorics.Enumerative.Composition
import PybropsModel.Lemmas.XConfigSample
import PybropsModel.Lemmas.XConfigMate
set_option autoImplicit false

namespace XConfig

/-! ### size of the cross maps -/

/-- the recursion of `triuix`/`triudix` peels off the first value of the leading coordinate -/
theorem triuFrom_step (strict : Bool) (n k st : Nat) (h : st < n) :
    triuFrom strict n (k + 1) st =
      (triuFrom strict n k (if strict then st + 1 else st)).map (fun t => st :: t) ++
        triuFrom strict n (k + 1) (st + 1) := by
  have e : n - st = (n - (st + 1)) + 1 := by omega
  simp only [triuFrom]
  rw [e, List.range'_succ, List.flatMap_cons]

theorem triuFrom_empty (strict : Bool) (n k st : Nat) (h : n ≤ st) : triuFrom strict n (k + 1) st = [] := by
  have e : n - st = 0 := by omega
  simp [triuFrom, e]

/-- `triudix`: `C(n - st, k)` strictly increasing tuples -/
theorem length_triuFrom_strict (n k st : Nat) : (triuFrom true n k st).length = (n - st).choose k := by
  induction k generalizing st with
  | zero => simp [triuFrom]
  | succ k ihk =>
    generalize hm : n - st = m
    induction m generalizing st with
    | zero => rw [triuFrom_empty _ _ _ _ (by omega)]; simp
    | succ m ihm =>
      rw [triuFrom_step _ _ _ _ (by omega)]
      simp only [if_true, List.length_append, List.length_map]
      rw [ihk (st + 1), ihm (st + 1) (by omega)]
      have : n - (st + 1) = m := by omega
      rw [this, Nat.choose_succ_succ]

/-- `triuix`: multiset coefficient of non-decreasing tuples -/
theorem length_triuFrom_nonstrict (n k st : Nat) : (triuFrom false n k st).length = (n - st).multichoose k := by
  induction k generalizing st with
  | zero => simp [triuFrom]
  | succ k ihk =>
    generalize hm : n - st = m
    induction m generalizing st with
    | zero => rw [triuFrom_empty _ _ _ _ (by omega)]; simp [Nat.multichoose_zero_succ]
    | succ m ihm =>
      rw [triuFrom_step _ _ _ _ (by omega)]
      simp only [Bool.false_eq_true, if_false, List.length_append, List.length_map]
      rw [ihk st, ihm (st + 1) (by omega), hm, Nat.multichoose_succ_succ]
      ring

/-! ### the remainder draw -/

theorem sum_indicator (a n : Nat) :
    ((List.range n).map (fun i => if a = i then 1 else 0)).sum = if a < n then 1 else 0 := by
  induction n with
  | zero => simp
  | succ n ih =>
    rw [List.range_succ, List.map_append, List.sum_append, ih]
    by_cases h1 : a < n
    · have : a ≠ n := by omega
      simp [h1, this]; omega
    · by_cases h2 : a = n
      · subst h2; simp
      · have : ¬ a < n + 1 := by omega
        simp [h1, h2, this]

/-- the use counts of a list of indices below `n` add up to its length -/
theorem sum_count_range (l : List Nat) (n : Nat) (h : ∀ x ∈ l, x < n) :
    ((List.range n).map (fun i => l.count i)).sum = l.length := by
  induction l with
  | nil => simp
  | cons a t ih =>
    have ha : a < n := h a (by simp)
    have e : (fun i => (a :: t).count i) = (fun i => t.count i + (if a = i then 1 else 0)) := by
      funext i
      rw [List.count_cons]
      simp [beq_iff_eq]
    rw [e, List.sum_map_add, ih (fun x hx => h x (by simp [hx])), sum_indicator]
    simp [ha]

/-- a prescribed remainder vector below the contributions is a legitimate `choice(replace=False)` draw -/
theorem remainder_vector_valid (decn r : List Nat) (hl : r.length = decn.length)
    (hle : ∀ i, r.getD i 0 ≤ decn.getD i 0) :
    (Np.repeatEach r (List.range r.length)).Subperm (options decn) ∧
      (Np.repeatEach r (List.range r.length)).length = r.sum ∧
      ∀ i, (Np.repeatEach r (List.range r.length)).count i = r.getD i 0 := by
  have hc : ∀ i, (Np.repeatEach r (List.range r.length)).count i = r.getD i 0 := by
    intro i
    rw [List.range_eq_range', count_repeatEach_range']
    by_cases h : i < r.length
    · simp [h]
    · simp [h, List.getD_eq_getElem?_getD, List.getElem?_eq_none (Nat.le_of_not_lt h)]
  refine ⟨?_, ?_, hc⟩
  · rw [List.subperm_iff_count]
    intro a
    rw [hc a, count_options]
    exact hle a
  · rw [List.range_eq_range', length_repeatEach_range']

end XConfig
