/-
Helper lemmas for C05 (round 3): the memory-chunk loop of `_calc_ohvmat` computes the closed form for every
chunk size; the EMBV matrix factory (`DenseExpectedMaximumBreedingValueMatrix.from_gmod`) row by row.
-/
import Mathlib.Tactic
import PybropsModel.Lemmas.VarSums
import PybropsModel.Lemmas.SelectionFactory
set_option autoImplicit false
set_option linter.unusedSectionVars false
set_option linter.unusedSimpArgs false

namespace Selection
open Variance

/-! ### slice assignment over a tiling -/
section tiles
variable {β : Type}

theorem setRows_length (out : List β) (a : Nat) (rows : List β) (h : a + rows.length ≤ out.length) :
    (setRows out a rows).length = out.length := by
  unfold setRows
  simp only [List.length_append, List.length_take, List.length_drop]
  omega

/-- filling `out[a:m] = R[a:m]` block by block along a tiling of `[a,b)` turns a prefix-correct array into one
    that is correct up to `b` and untouched behind `b` -/
theorem foldl_setRows_tiles (R : List β) (f : Nat → Nat → List β)
    (hf : ∀ a b, a ≤ b → b ≤ R.length → f a b = (R.drop a).take (b - a)) :
    ∀ {a b : Nat} {l : List (Nat × Nat)}, Tiles a b l → b ≤ R.length →
      ∀ out : List β, out.length = R.length → out.take a = R.take a →
        (l.foldl (fun out c => setRows out c.1 (f c.1 c.2)) out).length = R.length ∧
        (l.foldl (fun out c => setRows out c.1 (f c.1 c.2)) out).take b = R.take b ∧
        (l.foldl (fun out c => setRows out c.1 (f c.1 c.2)) out).drop b = out.drop b := by
  intro a b l ht
  induction ht with
  | nil a =>
    intro _ out hlen htake
    exact ⟨hlen, htake, rfl⟩
  | cons a m b l ham htl ih =>
    intro hb out hlen htake
    have hmb : m ≤ b := htl.le
    have hm : m ≤ R.length := le_trans hmb hb
    simp only [List.foldl_cons]
    have hrows : f a m = (R.drop a).take (m - a) := hf a m ham hm
    have hrl : (f a m).length = m - a := by
      rw [hrows, List.length_take, List.length_drop]; omega
    set out' := setRows out a (f a m) with hout'
    have hlen' : out'.length = R.length := by
      rw [hout', setRows_length out a (f a m) (by rw [hrl, hlen]; omega), hlen]
    have hta : (out.take a).length = a := by rw [List.length_take, hlen]; omega
    have htake' : out'.take m = R.take m := by
      rw [hout']
      unfold setRows
      have h1 : (out.take a ++ f a m).length = m := by
        rw [List.length_append, hta, hrl]; omega
      rw [List.take_left' h1, htake, hrows]
      have : m = a + (m - a) := by omega
      conv_rhs => rw [this, List.take_add]
    have hdrop' : out'.drop m = out.drop m := by
      rw [hout']
      unfold setRows
      have h1 : (out.take a ++ f a m).length = m := by
        rw [List.length_append, hta, hrl]; omega
      rw [List.drop_left' h1, hrl]
      congr 1; omega
    obtain ⟨h1, h2, h3⟩ := ih hb out' hlen' htake'
    refine ⟨h1, h2, ?_⟩
    rw [h3]
    have : b = m + (b - m) := by omega
    rw [this, ← List.drop_drop, ← List.drop_drop, hdrop']

end tiles

/-! ### `_calc_ohvmat` -/
section ohv
variable {α : Type} [Field α] [LinearOrder α] [IsStrictOrderedRing α]

/-- one row of the optimal-haploid-value table: `ploidy * haplomat[:,cconfig,:,:].max((0,1)).sum(0)` -/
def ohvRow (H : List (List (List (List α)))) (cconfig : List Nat) : List α :=
  (List.range (((H.headD []).headD []).headD []).length).map fun j =>
    ((H.length : Nat) : α) * rsum ((H.headD []).headD []).length (fun b =>
      maxL (H.flatMap fun Hp => cconfig.map fun i => ((Hp.getD i []).getD b []).getD j 0))

theorem calcOhvmat_eq_map (H : List (List (List (List α)))) (xmap : List (List Nat)) :
    calcOhvmat H xmap = xmap.map (ohvRow H) := rfl

theorem calcOhvmat_slice (H : List (List (List (List α)))) (xmap : List (List Nat)) (a b : Nat) :
    calcOhvmat H ((xmap.drop a).take (b - a)) = ((calcOhvmat H xmap).drop a).take (b - a) := by
  rw [calcOhvmat_eq_map, calcOhvmat_eq_map, List.map_take, List.map_drop]

/-- **chunk invariance of `_calc_ohvmat`**: for every admissible chunk size (`mem = None` with a non-empty
    cross map, or any `mem ≥ 1`) the chunk loop returns the closed form -/
theorem calcOhvmatChunked_eq (mem : Option Nat) (H : List (List (List (List α)))) (xmap : List (List Nat))
    (hstep : 0 < mem.getD xmap.length) :
    calcOhvmatChunked mem H xmap = some (calcOhvmat H xmap) := by
  unfold calcOhvmatChunked
  simp only
  rw [if_neg (by omega)]
  congr 1
  have hR : (calcOhvmat H xmap).length = xmap.length := by rw [calcOhvmat_eq_map, List.length_map]
  have ht := chunks_tiles' 0 xmap.length (mem.getD xmap.length) hstep (Nat.zero_le _)
  have := foldl_setRows_tiles (calcOhvmat H xmap)
    (fun a b => calcOhvmat H ((xmap.drop a).take (b - a)))
    (fun a b _ _ => calcOhvmat_slice H xmap a b) ht (by rw [hR]) (List.replicate xmap.length [])
    (by rw [List.length_replicate, hR]) (by simp)
  obtain ⟨h1, h2, _⟩ := this
  have e1 := List.take_of_length_le (le_of_eq (h1.trans hR))
  have e2 := List.take_of_length_le (le_of_eq hR)
  rw [e1, e2] at h2
  exact h2

/-- `range()` rejects a zero step: `mem = 0`, or `mem = None` with an empty cross map -/
theorem calcOhvmatChunked_none (mem : Option Nat) (H : List (List (List (List α)))) (xmap : List (List Nat))
    (hstep : mem.getD xmap.length = 0) : calcOhvmatChunked mem H xmap = none := by
  unfold calcOhvmatChunked
  simp only
  rw [if_pos hstep]

end ohv

/-! ### `DenseExpectedMaximumBreedingValueMatrix.from_gmod` -/
section embvmat
variable {α : Type} [Field α] [LinearOrder α] [IsStrictOrderedRing α] [HasSqrt α]

theorem maxL_const (l : List α) (v : α) (hne : l ≠ []) (h : ∀ x ∈ l, x = v) : maxL l = v :=
  h _ (maxL_mem l hne)

/-- **EMBV matrix, row by row**: row `i` is the mean, over the taxon's OWN `nrep[i]` replicates, of the per-trait
    maximum over the doubled-haploid progeny of that replicate -/
theorem embvMat_row (nrep : List Nat) (prog : List (List (List (List α)))) (ntrait i : Nat)
    (hi : i < prog.length) :
    (embvMat nrep prog ntrait).getD i [] = (List.range ntrait).map fun t =>
      ((((prog.getD i []).take (nrep.getD i 0)).map fun rep => maxL (rep.map fun r => vget r t)).sum)
        / ((nrep.getD i 0 : Nat) : α) := by
  unfold embvMat
  rw [List.getD_eq_getElem?_getD, List.getElem?_map, List.getElem?_range hi]
  simp only [Option.map_some, Option.getD_some]
  apply List.map_congr_left
  intro t ht
  have ht' : t < ntrait := List.mem_range.mp ht
  congr 1
  rw [np_sum_eq, List.map_map]
  congr 1
  apply List.map_congr_left
  intro rep _
  simp only [Function.comp, tmaxRows]
  exact vget_map_range ntrait _ t ht'

/-- row `i` depends on the progeny and the replicate count of taxon `i` only (no value of another taxon, no
    replicate beyond `nrep[i]` enters it) -/
theorem embvMat_row_local (nrep nrep' : List Nat) (prog prog' : List (List (List (List α)))) (ntrait i : Nat)
    (hi : i < prog.length) (hi' : i < prog'.length) (hn : nrep.getD i 0 = nrep'.getD i 0)
    (hp : (prog.getD i []).take (nrep.getD i 0) = (prog'.getD i []).take (nrep.getD i 0)) :
    (embvMat nrep prog ntrait).getD i [] = (embvMat nrep' prog' ntrait).getD i [] := by
  rw [embvMat_row nrep prog ntrait i hi, embvMat_row nrep' prog' ntrait i hi', ← hn, hp]

/-- **homozygous line**: if every simulated progeny of taxon `i` has the line's own breeding values `g`
    (doubled haploids of a fully homozygous line are copies of it), the EMBV of the line is `g`, whatever the
    numbers of replicates and progeny -/
theorem embvMat_homozygous (nrep : List Nat) (prog : List (List (List (List α)))) (ntrait i : Nat)
    (hi : i < prog.length) (g : List α) (hg : g.length = ntrait) (hn : 0 < nrep.getD i 0)
    (hlen : nrep.getD i 0 ≤ (prog.getD i []).length)
    (hrep : ∀ rep ∈ prog.getD i [], rep ≠ [] ∧ ∀ r ∈ rep, r = g) :
    (embvMat nrep prog ntrait).getD i [] = g := by
  rw [embvMat_row nrep prog ntrait i hi]
  apply List.ext_getElem
  · simp [hg]
  · intro t h1 h2
    simp only [List.getElem_map, List.getElem_range]
    have hmax : ∀ rep ∈ (prog.getD i []).take (nrep.getD i 0), maxL (rep.map fun r => vget r t) = g[t] := by
      intro rep hrep'
      obtain ⟨hne, hall⟩ := hrep rep (List.mem_of_mem_take hrep')
      apply maxL_const
      · simpa using hne
      · intro x hx
        obtain ⟨r, hr, rfl⟩ := List.mem_map.mp hx
        rw [hall r hr]
        unfold vget
        rw [List.getD_eq_getElem?_getD, List.getElem?_eq_getElem h2]
        rfl
    rw [List.map_congr_left hmax, List.map_const', List.sum_replicate, List.length_take, min_eq_left hlen,
      nsmul_eq_mul]
    have : ((nrep.getD i 0 : Nat) : α) ≠ 0 := by exact_mod_cast hn.ne'
    field_simp

end embvmat
end Selection
