/-
C09 — the per-cell / per-locus arithmetic of the genotype statistics as TRANSLATED FROM THE PYTHON SOURCE
(Generated/PyK_C09.lean, rewritten by harness/py2lean.py on every run) equals the model's scalar functions
(`tafreqAt`, `afreqAt`, `pafreqAt`, `afixedOf`, `apolyOf`, `mafOf`, `mehOf`, `gtfreqAt`).  The array reductions
(`self._mat.sum(axis)`, `self.gtcount()`, `self.afreq()`) are parameters of the kernels: the theorems instantiate
them with the model's `acountAt` / `pacountAt` / `gtcountAt` / frequency list.
-/
import Mathlib.Tactic
import PybropsModel.Generated.PyK_C09
import PybropsModel.Lemmas.GenotypeStats
import PybropsModel.Lemmas.PyKBase
set_option autoImplicit false
set_option linter.unusedSectionVars false
set_option linter.unusedSimpArgs false
set_option linter.unusedTactic false
set_option linter.unreachableTactic false
set_option linter.unnecessarySeqFocus false

namespace PyK.C09
open Genotype

variable {α : Type} [Field α] [LinearOrder α] [IsStrictOrderedRing α]

theorem tafreq_eq_model (ploidy : Nat) (g : Int) : tafreq (g : α) (ploidy : α) = tafreqAt ploidy g := by
  simp only [tafreq, tafreqAt] <;> pyk_arith

theorem ptafreq_eq_model (ploidy : Nat) (dosage : Int) : ptafreq (ploidy : α) (dosage : α) = tafreqAt ploidy dosage := by
  simp only [ptafreq, tafreqAt] <;> pyk_arith

theorem afreq_eq_model (ploidy : Nat) (m : UMat) (j : Nat) :
    afreq (ploidy : α) (m.length : α) ((acountAt m j : Int) : α) = afreqAt ploidy m j := by
  simp only [afreq, afreqAt, Nat.cast_mul] <;> pyk_arith

theorem pafreq_eq_model (nt : Nat) (G : PMat) (j : Nat) :
    pafreq (G.length : α) (nt : α) ((pacountAt G j : Int) : α) = pafreqAt nt G j := by
  simp only [pafreq, pafreqAt, Nat.cast_mul] <;> pyk_arith

theorem afixed_eq_model (p : α) : afixed p = afixedOf p := by
  rw [Bool.eq_iff_iff, afixedOf_iff]; simp [afixed] <;> tauto

theorem apoly_eq_model (p : α) : apoly p = apolyOf p := by
  rw [Bool.eq_iff_iff, apolyOf_iff]; simp [apoly] <;> tauto

theorem maf_eq_model (p : α) : maf p = mafOf p := by
  have h2 : (1 : α) / (1 + 1) = 1 / 2 := by norm_num
  simp only [maf, mafOf, h2, gt_iff_lt, decide_eq_true_eq] <;> pyk_arith

theorem pmaf_eq_model (p : α) : pmaf p = mafOf p := by
  have h2 : (1 : α) / (1 + 1) = 1 / 2 := by norm_num
  simp only [pmaf, mafOf, h2, gt_iff_lt, decide_eq_true_eq] <;> pyk_arith

theorem meh_eq_model (ploidy nv : Nat) (p : List α) : meh (ploidy : α) (nv : α) p = mehOf ploidy nv p := by
  simp only [meh, mehOf, npdot_eq_sum, PyK.foldr_add_eq_sum] <;>
  (induction p with
   | nil => simp
   | cons a t ih =>
     simp only [List.map_cons, List.zipWith_cons_cons, List.sum_cons]
     linear_combination ih)

theorem pmeh_eq_model (ploidy nv : Nat) (p : List α) : pmeh (ploidy : α) (nv : α) p = mehOf ploidy nv p := by
  simp only [pmeh, mehOf, npsum_eq_sum, PyK.foldr_add_eq_sum] <;>
  (induction p with
   | nil => simp
   | cons a t ih =>
     simp only [List.map_cons, List.zipWith_cons_cons, List.sum_cons]
     linear_combination ih)

theorem gtfreq_eq_model (m : UMat) (i j : Nat) :
    gtfreq (m.length : α) ((gtcountAt m i j : Nat) : α) = gtfreqAt m i j := by
  simp only [gtfreq, gtfreqAt] <;> pyk_arith

/-! ### the laws of the property, about the translated source -/

/-- the translated `afixed` flags exactly the frequencies 0 and 1; the translated `apoly` is its complement on [0,1] -/
theorem afixed_iff (p : α) : afixed p = true ↔ (p = 0 ∨ p = 1) := by
  rw [afixed_eq_model]; exact afixedOf_iff p

theorem afixed_eq_not_apoly {p : α} (h0 : 0 ≤ p) (h1 : p ≤ 1) : afixed p = !apoly p := by
  rw [afixed_eq_model, apoly_eq_model]; exact afixedOf_eq_not_apolyOf h0 h1

/-- the translated `maf` folds at one half: `min p (1-p)`, inside `[0, 1/2]` -/
theorem maf_eq_min (p : α) : maf p = min p (1 - p) := by
  rw [maf_eq_model]; exact mafOf_eq_min p

theorem maf_bounds {p : α} (h0 : 0 ≤ p) (h1 : p ≤ 1) : 0 ≤ maf p ∧ maf p ≤ 1 / 2 := by
  rw [maf_eq_model]; exact mafOf_bounds h0 h1

/-- the translated unphased frequency of a valid matrix lies in [0,1] and is 1 exactly at loci fixed for the allele -/
theorem afreq_bounds {ploidy nv : Nat} {m : UMat} (hv : ValidU ploidy nv m) (j : Nat) :
    0 ≤ afreq (ploidy : α) (m.length : α) ((acountAt m j : Int) : α) ∧
    afreq (ploidy : α) (m.length : α) ((acountAt m j : Int) : α) ≤ 1 := by
  rw [afreq_eq_model]; exact afreqAt_bounds hv j

theorem meh_nonneg (ploidy nv : Nat) (p : List α) (h : ∀ x ∈ p, 0 ≤ x ∧ x ≤ 1) :
    0 ≤ meh (ploidy : α) (nv : α) p := by
  rw [meh_eq_model]; exact mehOf_nonneg ploidy nv p h

end PyK.C09
