/-
The scripted operators the correspondence driver executes (Drv/C20.lean — the Lean mirror of the
Python stubs: in-place mutation of what is handed at any depth, mutation of objects KEPT from earlier
calls, fresh returns, aliases) satisfy the footprint frame condition.  Hence every run of the driver
is an instance of the hypotheses of `C20.evolve_meets_spec_of_footprint`.
-/
import PybropsModel.Drv.C20
import PybropsModel.Lemmas.ProgramStep
import PybropsModel.Lemmas.ProgramDemo
set_option autoImplicit false
set_option linter.unusedSectionVars false
set_option linter.unusedVariables false

namespace Program
open Drv.C20

theorem walk_reach (h : Heap (Cell D)) : ∀ (path : List Nat) (a t : Ref), walk h a path = some t →
    Reach h a t ∧ t < h.length := by
  intro path
  induction path with
  | nil =>
    intro a t hw
    simp only [walk] at hw
    split at hw
    · cases hw; exact ⟨.refl _, by assumption⟩
    · cases hw
  | cons i p ih =>
    intro a t hw
    simp only [walk] at hw
    split at hw
    · cases hw
    · rename_i c hc
      split at hw
      · cases hw
      · rename_i r hr
        obtain ⟨h1, h2⟩ := ih r t hw
        exact ⟨.step hc (List.mem_of_getElem? hr) h1, h2⟩

section
variable {roots : List Ref}

theorem appendTo_step {h : Heap (Cell D)} (wf : WFH h) (a : Ref) (x : Int) (ha : ∃ r ∈ roots, Reach h r a) :
    Step roots h (appendTo h a x) := by
  unfold appendTo
  split
  · exact Step.refl roots wf
  · rename_i c hc
    split
    · rename_i r rest hrefs
      split
      · rename_i l hl
        obtain ⟨r0, hr0, hreach⟩ := ha
        exact Step.setData wf hl ⟨r0, hr0, hreach.snoc hc (by rw [hrefs]; simp)⟩ _
      · exact Step.refl roots wf
    · exact Step.attach wf hc ha _ rfl

theorem mutCell_step {h : Heap (Cell D)} (wf : WFH h) (a : Ref) (x : Int) (ha : ∃ r ∈ roots, Reach h r a) :
    Step roots h (mutCell h a x) := by
  unfold mutCell
  split
  · exact Step.refl roots wf
  · rename_i c hc
    split
    · exact appendTo_step wf a x ha
    · split
      · exact Step.refl roots wf
      · split
        · split
          · exact Step.setData wf hc ha _
          · exact Step.refl roots wf
        · exact Step.setData wf hc ha _

theorem mutAt_step {h : Heap (Cell D)} (wf : WFH h) (a : Ref) (path : List Nat) (x : Int) (ha : a ∈ roots) :
    Step roots h (mutAt h a path x) := by
  unfold mutAt
  split
  · rename_i t ht
    exact mutCell_step wf t x ⟨a, ha, (walk_reach h path a t ht).1⟩
  · exact Step.refl roots wf

theorem applyDeep_step (sub : List Ref) (hsub : ∀ a ∈ sub, a ∈ roots) (ms : List (Nat × List Nat × Int)) :
    ∀ (h : Heap (Cell D)), WFH h → Step roots h (applyDeep h sub ms) := by
  induction ms with
  | nil => intro h wf; exact Step.refl roots wf
  | cons m ms ih =>
    intro h wf
    show Step roots h (applyDeep (match sub[m.1]? with
      | some a => mutAt h a m.2.1 m.2.2
      | none => h) sub ms)
    split
    · rename_i a ha
      have s1 := mutAt_step (roots := roots) wf a m.2.1 m.2.2 (hsub a (List.mem_of_getElem? ha))
      exact s1.trans (ih _ s1.wf)
    · exact ih h wf

theorem applyMuts_step (args : List Ref) (hsub : ∀ a ∈ args, a ∈ roots) (muts : List (Option Int)) :
    ∀ (h : Heap (Cell D)), WFH h → Step roots h (applyMuts h args muts) := by
  unfold applyMuts
  generalize hz : List.zip args muts = z
  have hmem : ∀ p ∈ z, p.1 ∈ roots := by
    intro p hp
    rw [← hz] at hp
    exact hsub p.1 (List.of_mem_zip hp).1
  clear hz
  induction z with
  | nil => intro h wf; exact Step.refl roots wf
  | cons p z ih =>
    intro h wf
    have hrest : ∀ q ∈ z, q.1 ∈ roots := fun q hq => hmem q (List.mem_cons_of_mem _ hq)
    simp only [List.foldl_cons]
    cases hp : p.2 with
    | none =>
      simp only
      exact ih hrest h wf
    | some x =>
      simp only
      have s1 := mutCell_step (roots := roots) wf p.1 x ⟨p.1, hmem p (by simp), .refl _⟩
      exact s1.trans (ih hrest _ s1.wf)

theorem pickArg_mem (args : List Ref) (j : Nat) (a : Ref) (h : pickArg args j = some a) : a ∈ args := by
  unfold pickArg at h
  split at h
  · rename_i b hb; cases h; exact List.mem_of_getElem? hb
  · exact List.mem_of_mem_head? h

theorem newCells_step {h : Heap (Cell D)} (wf : WFH h) (c : D) : Step roots h (newCells h c) := by
  unfold newCells
  apply Step.alloc wf
  intro cell hcell r hr
  simp only [List.mem_cons, List.not_mem_nil, or_false] at hcell
  rcases hcell with rfl | rfl
  · simp only [List.mem_singleton] at hr
    subst hr
    exact ⟨by simp, Or.inr (Nat.le_succ _)⟩
  · simp at hr

theorem newCells_length (h : Heap (Cell D)) (c : D) : (newCells h c).length = h.length + 2 := by
  simp [newCells]

theorem emptyCell_step {h : Heap (Cell D)} (wf : WFH h) : Step roots h (emptyCell h) := by
  unfold emptyCell
  apply Step.alloc wf
  intro cell hcell r hr
  simp only [List.mem_singleton] at hcell
  subst hcell
  simp at hr

theorem emptyCell_length (h : Heap (Cell D)) : (emptyCell h).length = h.length + 1 := by
  simp [emptyCell]

/-- returning handed objects or new containers -/
theorem applyRets_step (args : List Ref) (hsub : ∀ a ∈ args, a ∈ roots) (rets : List Sel) :
    ∀ (h : Heap (Cell D)), WFH h → (∀ a ∈ args, a < h.length) →
      Step roots h (applyRets h args rets).1 ∧
      ∀ r ∈ (applyRets h args rets).2, r < (applyRets h args rets).1.length ∧ InFoot roots h r := by
  induction rets with
  | nil => intro h wf _; exact ⟨Step.refl roots wf, by simp [applyRets]⟩
  | cons sel rest ih =>
    intro h wf hargs
    have alloc_case : ∀ c : D,
        Step roots h (applyRets (newCells h c) args rest).1 ∧
        ∀ r ∈ h.length :: (applyRets (newCells h c) args rest).2,
          r < (applyRets (newCells h c) args rest).1.length ∧ InFoot roots h r := by
      intro c
      have s1 := newCells_step (roots := roots) wf c
      obtain ⟨s2, hr2⟩ := ih (newCells h c) s1.wf (fun a ha => lt_of_lt_of_le (hargs a ha) s1.le)
      refine ⟨s1.trans s2, ?_⟩
      intro r hr
      rcases List.mem_cons.mp hr with rfl | hr
      · refine ⟨lt_of_lt_of_le ?_ s2.le, Or.inr (le_refl _)⟩
        rw [newCells_length]; omega
      · exact ⟨(hr2 r hr).1, InFoot.mono s1 (hr2 r hr).2⟩
    cases sel with
    | new c => exact alloc_case c
    | empty =>
      show Step roots h (applyRets (emptyCell h) args rest).1 ∧
        ∀ r ∈ h.length :: (applyRets (emptyCell h) args rest).2,
          r < (applyRets (emptyCell h) args rest).1.length ∧ InFoot roots h r
      have s1 := emptyCell_step (roots := roots) wf
      obtain ⟨s2, hr2⟩ := ih (emptyCell h) s1.wf (fun a ha => lt_of_lt_of_le (hargs a ha) s1.le)
      refine ⟨s1.trans s2, ?_⟩
      intro r hr
      rcases List.mem_cons.mp hr with rfl | hr
      · refine ⟨lt_of_lt_of_le ?_ s2.le, Or.inr (le_refl _)⟩
        rw [emptyCell_length]; omega
      · exact ⟨(hr2 r hr).1, InFoot.mono s1 (hr2 r hr).2⟩
    | arg j =>
      simp only [applyRets]
      split
      · rename_i a ha
        obtain ⟨s2, hr2⟩ := ih h wf hargs
        refine ⟨s2, ?_⟩
        intro r hr
        rcases List.mem_cons.mp hr with rfl | hr
        · have hmem := pickArg_mem args j r ha
          exact ⟨lt_of_lt_of_le (hargs r hmem) s2.le, InFoot.of_root (hsub r hmem)⟩
        · exact hr2 r hr
      · exact alloc_case []

end

theorem defaultRets_length (k : OpK) : (defaultRets k).length = arity k := by
  cases k <;> rfl

theorem normRets_length (k : OpK) (rets : List Sel) : (normRets k rets).length = arity k := by
  unfold normRets
  split
  · assumption
  · exact defaultRets_length k

theorem applyRets_length (args : List Ref) (rets : List Sel) :
    ∀ (h : Heap (Cell D)), (applyRets h args rets).2.length = rets.length := by
  induction rets with
  | nil => intro h; rfl
  | cons sel rest ih =>
    intro h
    cases sel with
    | new c => simp [applyRets, ih]
    | empty => simp [applyRets, ih]
    | arg j =>
      simp only [applyRets]
      split <;> simp [ih]

/-- **the driver's scripted operators satisfy the footprint frame condition**, the footprint being
    every reference they were ever handed or returned (`OSt.seen`) -/
theorem scripted_footprint : Footprint (fun s : OSt => s.seen) scripted := by
  constructor
  · intro k s h as t tm wf hvalid
    have hargs : ∀ a ∈ as, a < h.length := fun a ha => hvalid a (List.mem_append_left _ ha)
    have hsubA : ∀ a ∈ as, a ∈ as ++ s.seen := fun a ha => List.mem_append_left _ ha
    have hsubS : ∀ a ∈ s.seen, a ∈ as ++ s.seen := fun a ha => List.mem_append_right _ ha
    -- the common final part: from a step `h → h2`, return values selected by `rets`
    have fin : ∀ (sc' : Script) (h2 : Heap (Cell D)) (rets : List Sel), Step (as ++ s.seen) h h2 →
        rets.length = arity k →
        let r := applyRets h2 as rets
        h.length ≤ r.1.length ∧ WFH r.1 ∧
        (∀ x, x < h.length → (∀ a ∈ as ++ s.seen, ¬ Reach h a x) → r.1[x]? = h[x]?) ∧
        (∀ (x : Nat) (c : Cell D), r.1[x]? = some c →
          h[x]? = some c ∨ ∀ q ∈ c.refs, (∃ a ∈ as ++ s.seen, Reach h a q) ∨ h.length ≤ q) ∧
        (∀ q ∈ r.2, q < r.1.length ∧ ((∃ a ∈ as ++ s.seen, Reach h a q) ∨ h.length ≤ q)) ∧
        r.2.length = arity k ∧
        (∀ q ∈ s.seen ++ as ++ r.2, q < r.1.length ∧ ((∃ a ∈ as ++ s.seen, Reach h a q) ∨ h.length ≤ q)) := by
      intro sc' h2 rets s12 hlen
      obtain ⟨s23, hr⟩ := applyRets_step (roots := as ++ s.seen) as hsubA rets h2 s12.wf
        (fun a ha => lt_of_lt_of_le (hargs a ha) s12.le)
      have s13 := s12.trans s23
      have hrets : ∀ q ∈ (applyRets h2 as rets).2, q < (applyRets h2 as rets).1.length ∧
          InFoot (as ++ s.seen) h q := fun q hq => ⟨(hr q hq).1, InFoot.mono s12 (hr q hq).2⟩
      refine ⟨s13.le, s13.wf, s13.same, s13.refs, hrets, by rw [applyRets_length, hlen], ?_⟩
      intro q hq
      rcases List.mem_append.mp hq with hq | hq
      · have hq' : q ∈ as ++ s.seen := by
          rcases List.mem_append.mp hq with hq | hq
          · exact hsubS q hq
          · exact hsubA q hq
        exact ⟨lt_of_lt_of_le (hvalid q hq') s13.le, InFoot.of_root hq'⟩
      · exact hrets q hq
    show _ ∧ _ ∧ _ ∧ _ ∧ _ ∧ _ ∧ _
    simp only [scripted]
    split
    · rename_i sc' _
      exact fin sc' h (defaultRets k) (Step.refl _ wf) (defaultRets_length k)
    · rename_i a sc' _
      have s1 := applyDeep_step (roots := as ++ s.seen) s.seen hsubS a.late h wf
      have s2 := applyMuts_step (roots := as ++ s.seen) as hsubA a.muts _ s1.wf
      have s3 := applyDeep_step (roots := as ++ s.seen) as hsubA a.deep _ s2.wf
      exact fin sc' _ (normRets k a.rets) ((s1.trans s2).trans s3) (normRets_length k a.rets)
  · intro k s h as t tm rp wf hvalid
    have hsubA : ∀ a ∈ as, a ∈ as ++ s.seen := fun a ha => List.mem_append_left _ ha
    have hsubS : ∀ a ∈ s.seen, a ∈ as ++ s.seen := fun a ha => List.mem_append_right _ ha
    have fin : ∀ (h2 : Heap (Cell D)), Step (as ++ s.seen) h h2 →
        h.length ≤ h2.length ∧ WFH h2 ∧
        (∀ x, x < h.length → (∀ a ∈ as ++ s.seen, ¬ Reach h a x) → h2[x]? = h[x]?) ∧
        (∀ (x : Nat) (c : Cell D), h2[x]? = some c →
          h[x]? = some c ∨ ∀ q ∈ c.refs, (∃ a ∈ as ++ s.seen, Reach h a q) ∨ h.length ≤ q) ∧
        (∀ q ∈ s.seen ++ as.take (nLog k), q < h2.length ∧ ((∃ a ∈ as ++ s.seen, Reach h a q) ∨ h.length ≤ q)) := by
      intro h2 s12
      refine ⟨s12.le, s12.wf, s12.same, s12.refs, ?_⟩
      intro q hq
      have hq' : q ∈ as ++ s.seen := by
        rcases List.mem_append.mp hq with hq | hq
        · exact hsubS q hq
        · exact hsubA q (List.mem_of_mem_take hq)
      exact ⟨lt_of_lt_of_le (hvalid q hq') s12.le, InFoot.of_root hq'⟩
    show _ ∧ _ ∧ _ ∧ _ ∧ _
    simp only [scripted]
    split
    · exact fin h (Step.refl _ wf)
    · rename_i a sc' _
      have s1 := applyDeep_step (roots := as ++ s.seen) s.seen hsubS a.late h wf
      have s2 := applyMuts_step (roots := as ++ s.seen) as hsubA a.muts _ s1.wf
      have s3 := applyDeep_step (roots := as ++ s.seen) as hsubA a.deep _ s2.wf
      exact fin _ ((s1.trans s2).trans s3)

/-! ### a concrete driver state -/
namespace Demo
open Drv.C20

/-- the heap the driver builds for five flat start containers `{"h": [i]}` -/
def drvHeap : Heap (Cell D) :=
  [⟨dictD, [1]⟩, ⟨[1], []⟩, ⟨dictD, [3]⟩, ⟨[2], []⟩, ⟨dictD, [5]⟩, ⟨[3], []⟩, ⟨dictD, [7]⟩, ⟨[4], []⟩,
   ⟨dictD, [9]⟩, ⟨[5], []⟩]

/-- a script whose first evaluation mutates what it is handed at once, whose parent selection later
    mutates the objects KEPT from that first call (`late`), and which returns a fresh container -/
def drvScript : Script :=
  [⟨"op:evaluate", [some 101, some 102, some 103, some 104, some 105, none], [.arg 0, .arg 1, .arg 2, .arg 3, .arg 4], [], []⟩,
   ⟨"op:pselect", [none, none, none, none, none, none], [.new [7], .arg 0, .new [8], .arg 2, .arg 3, .arg 4],
      [(0, [0], 201)], [(0, [], 301), (4, [0], 302)]⟩]

def drvState : State OSt D :=
  { heap := drvHeap, n0 := 10, regs := fun _ => none, start := [some 0, some 2, some 4, some 6, some 8],
    t := 0, rep := 0, ngen := none, ost := ⟨drvScript, []⟩, trace := [], bad := false }

theorem drv_all_in : ∀ x, x < drvHeap.length → InReg drvHeap [0, 2, 4, 6, 8] x := by
  intro x hx
  have hx' : x < 10 := hx
  interval_cases x
  · exact InReg.of_mem (by simp)
  · exact ⟨0, by simp, .step (c := ⟨dictD, [1]⟩) rfl (by simp) (.refl _)⟩
  · exact InReg.of_mem (by simp)
  · exact ⟨2, by simp, .step (c := ⟨dictD, [3]⟩) rfl (by simp) (.refl _)⟩
  · exact InReg.of_mem (by simp)
  · exact ⟨4, by simp, .step (c := ⟨dictD, [5]⟩) rfl (by simp) (.refl _)⟩
  · exact InReg.of_mem (by simp)
  · exact ⟨6, by simp, .step (c := ⟨dictD, [7]⟩) rfl (by simp) (.refl _)⟩
  · exact InReg.of_mem (by simp)
  · exact ⟨8, by simp, .step (c := ⟨dictD, [9]⟩) rfl (by simp) (.refl _)⟩

theorem drv_ready : Ready (KeptOutside (fun s : OSt => s.seen) [0, 2, 4, 6, 8]) scripted drvState := by
  have hR : startRefs scripted drvState = [0, 2, 4, 6, 8] := by simp [startRefs, drvState]
  have hH : startHeap scripted drvState = drvHeap := by simp [startHeap, drvState]
  have hN : startN0 scripted drvState = 10 := by simp [startN0, drvState]
  have hO : startOst scripted drvState = ⟨drvScript, []⟩ := by simp [startOst, drvState]
  have hwf : WFH drvHeap := wfh_of_all _ (by decide)
  have hvalid : ∀ s ∈ [0, 2, 4, 6, 8], s < drvHeap.length := by
    intro s hs
    simp only [List.mem_cons, List.not_mem_nil, or_false] at hs
    rcases hs with h | h | h | h | h <;> (subst h; decide)
  refine ⟨rfl, rfl, by rw [hR]; rfl, by rw [hH]; exact le_refl _, by rw [hH]; exact hwf, by rw [hH, hN]; decide,
    ?_, ?_, ?_, ?_⟩
  · rw [hH, hN, hR]; exact region_lt_length hwf hvalid
  · rw [hH, hR]; exact iso_of_all_in drv_all_in
  · intro r a h; simp [drvState] at h
  · rw [hH, hO]; intro a ha; simp at ha

end Demo
end Program
