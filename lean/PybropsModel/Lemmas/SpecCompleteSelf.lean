/-
C01: completeness of the Spec beyond `nself = 0`.  Part 1: every chain of selfings that `selfN`
describes is produced by `selfLoop` for suitable non-negative draws.  Part 2: from a generated
progeny list to the output of `mate` (names below the 7-digit overflow).  Part 3: the self and the
two-way protocol with `nself ≤ 2` (the depth up to which the Spec contains the joint pedigree test).
-/
import Mathlib.Tactic
import PybropsModel.Lemmas.SpecCompleteMate
import PybropsModel.Lemmas.SpecIff
set_option autoImplicit false
set_option linter.unusedSectionVars false

namespace Mating
open Meiosis
variable {α ρ : Type} [LinearOrder ρ] [Zero ρ]

/-! ### Part 1: realising a selfing chain -/

theorem forall₂_exists_mid {β γ δ : Type} {R : β → δ → Prop} {S : δ → γ → Prop} :
    ∀ {l1 : List β} {l2 : List γ}, List.Forall₂ (fun a b => ∃ c, R a c ∧ S c b) l1 l2 →
      ∃ l3, List.Forall₂ R l1 l3 ∧ List.Forall₂ S l3 l2 := by
  intro l1 l2 h
  induction h with
  | nil => exact ⟨[], List.Forall₂.nil, List.Forall₂.nil⟩
  | cons hab _ ih =>
    obtain ⟨c, hr, hs⟩ := hab
    obtain ⟨l3, h1, h2⟩ := ih
    exact ⟨c :: l3, List.Forall₂.cons hr h1, List.Forall₂.cons hs h2⟩

theorem child_shaped {xo : List ρ} {F M c : Ind α} (h : Child xo F M c) :
    c.1.length = xo.length ∧ c.2.length = xo.length := ⟨h.1.length_eq, h.2.length_eq⟩

theorem nonneg_append {d1 d2 : List (DrawMat ρ)} (h1 : Nonneg d1) (h2 : Nonneg d2) : Nonneg (d1 ++ d2) := by
  intro m hm
  rcases List.mem_append.mp hm with h | h
  · exact h1 m h
  · exact h2 m h

/-- `mat_mate` passes the unused draws through untouched -/
theorem mateE_rest {fpop mpop : Pop α} {fsel msel : List Nat} {xo : List ρ} {rf rm : DrawMat ρ}
    {rest : List (DrawMat ρ)} {out : Pop α}
    (h : mateE fpop mpop fsel msel xo (rf :: rm :: rest) = .ok (out, rest)) (rest' : List (DrawMat ρ)) :
    mateE fpop mpop fsel msel xo (rf :: rm :: rest') = .ok (out, rest') := by
  simp only [mateE] at h ⊢
  cases h1 : meiosisE fpop fsel xo rf with
  | error e => simp [h1] at h
  | ok fg =>
    cases h2 : meiosisE mpop msel xo rm with
    | error e => simp [h1, h2] at h
    | ok mg =>
      simp only [h1, h2] at h ⊢
      split at h
      · rename_i hl
        simp only [Except.ok.injEq, Prod.mk.injEq] at h
        simp [hl, h.1]
      · simp at h

/-- a population all of whose members descend by `n` selfings from individuals satisfying `Qs` is the
    result of `selfLoop` on some population satisfying `Qs`, for some non-negative draws -/
theorem selfLoop_realises (xo : List ρ) (hstart : ∀ x, xo.head? = some x → 0 < x) :
    ∀ (n : Nat) (Qs : List (Ind α → Prop)) (T : Pop α),
      (∀ q ∈ Qs, ∀ c, q c → c.1.length = xo.length ∧ c.2.length = xo.length) →
      List.Forall₂ (fun q t => selfN xo n q t) Qs T →
      ∃ (pop0 : Pop α) (ds : List (DrawMat ρ)), List.Forall₂ (fun q c => q c) Qs pop0 ∧ Nonneg ds ∧
        ∀ rest, selfLoop xo (Np.arange 0 T.length) n pop0 (ds ++ rest) = .ok (T, rest) := by
  intro n
  induction n with
  | zero =>
    intro Qs T _ h
    refine ⟨T, [], ?_, ?_, ?_⟩
    · exact h
    · intro m hm; simp at hm
    · intro rest; simp [selfLoop]
  | succ n ih =>
    intro Qs T hq h
    have h' : List.Forall₂ (fun q t => selfN xo n q t) (Qs.map (selfPred xo)) T := by
      rw [List.forall₂_map_left_iff]
      exact h
    have hq' : ∀ q ∈ Qs.map (selfPred xo), ∀ c, q c → c.1.length = xo.length ∧ c.2.length = xo.length := by
      intro q hqm c hc
      obtain ⟨q0, _, rfl⟩ := List.mem_map.mp hqm
      obtain ⟨H, _, hch⟩ := hc
      exact child_shaped hch
    obtain ⟨pop1, ds1, hp1, hnn1, hrun1⟩ := ih (Qs.map (selfPred xo)) T hq' h'
    rw [List.forall₂_map_left_iff] at hp1
    obtain ⟨pop0, hq0, hch⟩ := forall₂_exists_mid (R := fun (q : Ind α → Prop) H => q H)
      (S := fun H c => Child xo H H c) hp1
    have hshape : Shaped xo pop0 := by
      intro i hi
      obtain ⟨k, hk, rfl⟩ := List.mem_iff_getElem.mp hi
      obtain ⟨hl, hall⟩ := List.forall₂_iff_get.mp hq0
      have := hall k (by omega) hk
      exact hq _ (List.get_mem _ _) _ this
    have l01 : pop0.length = pop1.length := hch.length_eq
    have l1T : pop1.length = T.length := by rw [← hp1.length_eq, h.length_eq]
    have hzip : List.Forall₂ (fun (ss : Nat × Nat) c => ∃ F M, pop0[ss.1]? = some F ∧ pop0[ss.2]? = some M ∧ Child xo F M c)
        (List.zip (Np.arange 0 T.length) (Np.arange 0 T.length)) pop1 := by
      rw [List.forall₂_iff_get]
      refine ⟨by simp [Np.arange, l1T], ?_⟩
      intro i hi1 hi2
      obtain ⟨_, hall⟩ := List.forall₂_iff_get.mp hch
      have hi0 : i < pop0.length := by omega
      have := hall i hi0 hi2
      simp only [List.get_eq_getElem] at this ⊢
      refine ⟨pop0[i], pop0[i], ?_, ?_, this⟩ <;>
      · simp [Np.arange, hi0]
    obtain ⟨rf, rm, hnn, hm⟩ := mateE_realises xo pop0 pop0 hshape hshape hstart (Np.arange 0 T.length)
      (Np.arange 0 T.length) pop1 [] rfl hzip
    refine ⟨pop0, rf :: rm :: ds1, hq0, ?_, ?_⟩
    · exact nonneg_append (d1 := [rf, rm]) hnn hnn1
    · intro rest
      have := mateE_rest hm (ds1 ++ rest)
      simp only [List.cons_append, selfLoop, this]
      exact hrun1 rest

/-! ### Part 2: from the generated progeny to the output of `mate` -/

section tail
variable [BEq α] [LawfulBEq α]

theorem mate_of_generate {P : Proto} {pop : Pop α} {xc : List (List Nat)} {nmating nprogeny : Cnt} {nself : Nat}
    {xo : List ρ} {pc fc : Nat} {out : Out α} {nm np : List Nat} {draws : List (DrawMat ρ)}
    (hs : popShaped pop xo.length = true) (hw : ∀ r ∈ xc, r.length = P.nparent)
    (hnm : nmating.expand xc.length = .ok nm) (hnp : nprogeny.expand xc.length = .ok np)
    (hcount : out.rows.length = (List.zipWith (· * ·) nm np).sum)
    (hgrp : out.rows.map Row.grp = Np.repeatEach (List.zipWith (· * ·) nm np) (Np.arange fc xc.length))
    (hnames' : out.rows.map Row.name = (Np.arange pc (List.zipWith (· * ·) nm np).sum).map (name P.pre))
    (hpc : out.pc = pc + (List.zipWith (· * ·) nm np).sum) (hfc : out.fc = fc + xc.length)
    (hsmall : pc + out.rows.length ≤ 10 ^ 7)
    (hgen : generate P pop xc nm np nself xo draws = .ok (out.rows.map Row.ind, [])) :
    ∃ out', mate P pop xc nmating nprogeny nself xo pc fc draws = .ok out' ∧
      out'.rows = out.rows ∧ out'.pc = out.pc ∧ out'.fc = out.fc := by
  have lnm := Cnt.expand_length hnm
  have lnp := Cnt.expand_length hnp
  set per := List.zipWith (· * ·) nm np with hper
  have lper : per.length = xc.length := by simp [hper, lnm, lnp]
  set prog := out.rows.map Row.ind with hprog
  have lprog : prog.length = per.sum := by simp [hprog, hcount]
  have lgrp : (Np.repeatEach per (Np.arange fc xc.length)).length = per.sum :=
    Np.length_repeatEach per _ (by simp [lper])
  have hwb : (xc.all fun r => r.length == P.nparent) = true := by
    simp only [List.all_eq_true, beq_iff_eq]; exact hw
  have hfam' : families P fc xc.length nm np = Np.repeatEach per (Np.arange fc xc.length) := families_eq _ _ _ _ _
  have hfam : (families P fc xc.length nm np).length = prog.length := by
    rw [hfam', lgrp, lprog]
  have hsortedG : (Np.repeatEach per (Np.arange fc xc.length)).Pairwise (· ≤ ·) :=
    Np.pairwise_repeatEach (fun a => le_refl a) _ _ (Np.pairwise_le_arange fc xc.length)
  have hrows : groupTaxa (genRows P prog pc (families P fc xc.length nm np)) = out.rows := by
    rw [hfam'] at hfam ⊢
    rw [groupTaxa_sorted _ (genRows_sorted P prog pc _ hfam hsortedG (by rw [lprog, ← hcount]; exact hsmall))]
    apply List.ext_getElem
    · rw [genRows_length _ _ _ _ hfam, lprog, hcount]
    · intro i h1 h2
      rw [genRows_getElem _ _ _ _ hfam]
      have e1 : prog[i]'(by rw [lprog, ← hcount]; exact h2) = (out.rows[i]).ind := by simp [hprog]
      have e2 : name P.pre (pc + i) = (out.rows[i]).name := by
        have := congrArg (fun l => l[i]?) hnames'
        simp only [List.getElem?_map, List.getElem?_eq_getElem h2, Option.map_some] at this
        rw [List.getElem?_eq_getElem (by simp; rw [← hcount]; exact h2)] at this
        have := Option.some.inj this
        rw [this]
        simp [Np.arange, Nat.add_comm]
      have e3 : (Np.repeatEach per (Np.arange fc xc.length))[i]'(by rw [lgrp, ← hcount]; exact h2) = (out.rows[i]).grp := by
        have := congrArg (fun l => l[i]?) hgrp
        simp only [List.getElem?_map, List.getElem?_eq_getElem h2, Option.map_some] at this
        rw [List.getElem?_eq_getElem (by rw [lgrp, ← hcount]; exact h2)] at this
        exact (Option.some.inj this).symm
      rw [e1, e2, e3]
  cases hm : mate P pop xc nmating nprogeny nself xo pc fc draws with
  | error e =>
    exfalso
    simp only [mate, hs, hwb, hnm, hnp, hgen, Bool.not_true, Bool.false_eq_true, if_false,
      List.isEmpty_nil] at hm
    simp [hfam] at hm
  | ok out' =>
    obtain ⟨nm', np', prog', _, hnm', hnp', hgen', _, hr', hpc', hfc'⟩ := mate_inv hm
    rw [hnm] at hnm'; cases hnm'
    rw [hnp] at hnp'; cases hnp'
    rw [hgen] at hgen'
    simp only [Except.ok.injEq, Prod.mk.injEq, and_true] at hgen'
    subst hgen'
    refine ⟨out', rfl, ?_, ?_, ?_⟩
    · rw [hr', hrows]
    · rw [hpc', hpc, lprog]
    · rw [hfc', hfc]

end tail

/-! ### Part 3: rows ↔ positions of the expanded selection arrays; the self and two-way protocols -/

/-- a statement about "the cross that a row's family label names" is a position-wise statement about
    the selection arrays `repeat(xconfig[:,a], nmating*nprogeny)`, `repeat(xconfig[:,b], …)` -/
theorem rows_forall₂ {xc : List (List Nat)} {per : List Nat} {fc : Nat} (a b : Nat) (L : Nat → Nat → Ind α → Prop)
    (rows : List (Row α)) (lper : per.length = xc.length) (hcount : rows.length = per.sum)
    (hgrp : rows.map Row.grp = Np.repeatEach per (Np.arange fc xc.length))
    (hL : ∀ r ∈ rows, ∃ cross, xc[r.grp - fc]? = some cross ∧ L (cross.getD a 0) (cross.getD b 0) r.ind) :
    List.Forall₂ (fun (ss : Nat × Nat) c => L ss.1 ss.2 c)
      (List.zip (Np.repeatEach per (col xc a)) (Np.repeatEach per (col xc b))) (rows.map Row.ind) := by
  have lfs : ∀ k, (Np.repeatEach per (col xc k)).length = per.sum := fun k =>
    Np.length_repeatEach per _ (by simp [col, lper])
  have lgrp : (Np.repeatEach per (Np.arange fc xc.length)).length = per.sum :=
    Np.length_repeatEach per _ (by simp [lper])
  rw [List.forall₂_iff_get]
  refine ⟨by simp [lfs, hcount], ?_⟩
  intro i hi1 hi2
  have hir : i < rows.length := by simpa using hi2
  have hi : i < per.sum := by rw [← hcount]; exact hir
  obtain ⟨cross, hcr, hl⟩ := hL _ (List.getElem_mem hir)
  have hgi : (rows[i]).grp = (Np.repeatEach per (Np.arange fc xc.length))[i]'(by rw [lgrp]; exact hi) := by
    have := congrArg (fun l => l[i]?) hgrp
    simp only [List.getElem?_map, List.getElem?_eq_getElem hir, Option.map_some] at this
    rw [List.getElem?_eq_getElem (by rw [lgrp]; exact hi)] at this
    exact Option.some.inj this
  have hz : (((Np.repeatEach per (col xc a))[i]'(by rw [lfs]; exact hi),
              (Np.repeatEach per (col xc b))[i]'(by rw [lfs]; exact hi)),
             (Np.repeatEach per (Np.arange fc xc.length))[i]'(by rw [lgrp]; exact hi)) ∈
      List.zip (List.zip (col xc a) (col xc b)) (Np.arange fc xc.length) := by
    apply Np.mem_of_mem_repeatEach (c := per)
    rw [← Np.zip_repeatEach, ← Np.zip_repeatEach, List.mem_iff_getElem]
    exact ⟨i, by simp [lfs, lgrp]; exact hi, by simp⟩
  obtain ⟨k, hk, hke⟩ := List.mem_iff_getElem.mp hz
  simp only [List.getElem_zip, Np.getElem_arange, Prod.mk.injEq] at hke
  obtain ⟨⟨hk0, hk1⟩, hk2⟩ := hke
  have hkx : k < xc.length := by simp [col] at hk; omega
  have hc0 : (col xc a)[k]'(by simp [col]; exact hkx) = xc[k].getD a 0 := by simp [col]
  have hc1 : (col xc b)[k]'(by simp [col]; exact hkx) = xc[k].getD b 0 := by simp [col]
  rw [hc0] at hk0
  rw [hc1] at hk1
  have hcross : xc[(rows[i]).grp - fc]? = some xc[k] := by
    rw [hgi, ← hk2]; simp [hkx]
  rw [hcross] at hcr
  cases hcr
  simp only [List.get_eq_getElem, List.getElem_zip, List.getElem_map]
  rw [← hk0, ← hk1]
  exact hl

section main
variable [BEq α] [LawfulBEq α]

/-- **Completeness of the Spec for the self and the two-way protocol with up to two selfings.** -/
theorem spec_complete_selfed {P : Proto} (hP : P = .self ∨ P = .twoWay) {pop : Pop α} {xc : List (List Nat)}
    {nmating nprogeny : Cnt} {nself : Nat} {xo : List ρ} {pc fc : Nat} {out : Out α}
    (hn : nself ≤ jointDepth)
    (hs : popShaped pop xo.length = true) (hw : ∀ r ∈ xc, r.length = P.nparent)
    (hidx : ∀ r ∈ xc, ∀ s ∈ r, s < pop.length)
    (hstart : ∀ x, xo.head? = some x → 0 < x) (hsmall : pc + out.rows.length ≤ 10 ^ 7)
    (hspec : (specMate P pop xc nmating nprogeny nself xo pc fc out).1 = true) :
    ∃ draws : List (DrawMat ρ), Nonneg draws ∧ ∃ out', mate P pop xc nmating nprogeny nself xo pc fc draws = .ok out' ∧
      out'.rows = out.rows ∧ out'.pc = out.pc ∧ out'.fc = out.fc := by
  obtain ⟨nm, np, hnm, hnp, hrest⟩ := (specMate_iff P pop xc nmating nprogeny nself xo pc fc out).mp hspec
  simp only at hrest
  obtain ⟨hcount, hgrp, hnames, hpc, hfc, hrowsOK⟩ := hrest
  have lnm := Cnt.expand_length hnm
  have lnp := Cnt.expand_length hnp
  set per := List.zipWith (· * ·) nm np with hper
  have lper : per.length = xc.length := by simp [hper, lnm, lnp]
  have hnames' : out.rows.map Row.name = (Np.arange pc per.sum).map (name P.pre) := by
    unfold NamesSpec at hnames
    rw [hcount] at hsmall
    simp only [hsmall, if_true] at hnames
    exact hnames
  have hshape := shaped_of_popShaped hs
  have hidx' : ∀ c ∈ xc, ∀ k, k < P.nparent → c.getD k 0 < pop.length := by
    intro c hc k hk
    have hl := hw c hc
    rw [List.getD_eq_getElem?_getD, List.getElem?_eq_getElem (by omega)]
    exact hidx c hc _ (List.getElem_mem _)
  -- the second column read by the protocol: self → 0, two-way → 1
  obtain ⟨b, hb⟩ : ∃ b : Nat, (P = .self ∧ b = 0) ∨ (P = .twoWay ∧ b = 1) := by
    rcases hP with h | h
    · exact ⟨0, Or.inl ⟨h, rfl⟩⟩
    · exact ⟨1, Or.inr ⟨h, rfl⟩⟩
  have hlin : ∀ r ∈ out.rows, ∃ cross, xc[r.grp - fc]? = some cross ∧
      selfN xo nself (crossPred xo (isInd pop (cross.getD 0 0)) (isInd pop (cross.getD b 0))) r.ind := by
    intro r hr
    obtain ⟨cross, hc, hl⟩ := rowSpec_lineage hs hidx' hn (hrowsOK r hr)
    refine ⟨cross, hc, ?_⟩
    rcases hb with ⟨rfl, rfl⟩ | ⟨rfl, rfl⟩ <;> exact hl
  set fsel := Np.repeatEach per (col xc 0) with hfsel
  set msel := Np.repeatEach per (col xc b) with hmsel
  set prog := out.rows.map Row.ind with hprog
  have hall := rows_forall₂ (fc := fc) 0 b
    (fun s t c => selfN xo nself (crossPred xo (isInd pop s) (isInd pop t)) c) out.rows lper hcount hgrp hlin
  have lfs : ∀ k, (Np.repeatEach per (col xc k)).length = per.sum := fun k =>
    Np.length_repeatEach per _ (by simp [col, lper])
  have lprog : prog.length = per.sum := by simp [hprog, hcount]
  -- the hybrids and the draws of the selfing generations
  obtain ⟨pop0, ds, hq0, hnnds, hrun⟩ := selfLoop_realises xo hstart nself
    ((List.zip fsel msel).map (fun ss => crossPred xo (isInd pop ss.1) (isInd pop ss.2))) prog
    (by
      intro q hq c hc
      obtain ⟨ss, _, rfl⟩ := List.mem_map.mp hq
      obtain ⟨F, M, _, _, hch⟩ := hc
      exact child_shaped hch)
    (by rw [List.forall₂_map_left_iff]; exact hall)
  rw [List.forall₂_map_left_iff] at hq0
  have l0 : pop0.length = prog.length := by rw [← hq0.length_eq, hall.length_eq]
  obtain ⟨rf, rm, hnn2, hmate⟩ := mateE_realises xo pop pop hshape hshape hstart fsel msel pop0 []
    (by rw [hfsel, hmsel, lfs, lfs]) hq0
  refine ⟨rf :: rm :: ds, nonneg_append (d1 := [rf, rm]) hnn2 hnnds, ?_⟩
  have hmate' := mateE_rest hmate ds
  have hrun' := hrun []
  rw [List.append_nil, ← l0] at hrun'
  have hgen : generate P pop xc nm np nself xo (rf :: rm :: ds) = .ok (prog, []) := by
    rcases hb with ⟨rfl, rfl⟩ | ⟨rfl, rfl⟩
    · have e : msel = fsel := hmsel.trans hfsel.symm
      rw [e] at hmate'
      simp only [generate]
      rw [← hper, ← hfsel]
      simp only [hmate', hrun']
    · simp only [generate]
      rw [← hper, ← hfsel, ← hmsel]
      simp only [hmate', hrun']
  exact mate_of_generate hs hw hnm hnp hcount hgrp hnames' hpc hfc hsmall hgen

end main

end Mating
