/-
Lemmas/LabelMatRepair.lean — the proposed repair of defect D14 (patch_D14.diff): the square classes'
insert_taxa / incorp_taxa = adjoin_taxa / append_taxa of the block of new taxa, followed by the permutation that
moves the new entries to their position along EVERY taxa axis.  The permutation is the literal
`numpy.insert(numpy.arange(n), obj, numpy.arange(n, n + q))` of the patch.
-/
import PybropsModel.Lemmas.LabelMatGood
import PybropsModel.Model.LabelMatRepair

set_option autoImplicit false
set_option linter.unusedVariables false

namespace LabelMat

variable {α lab : Type}

/-- gathering a run of consecutive indices = drop / take -/
theorem filterMap_range' {β : Type} (L : List β) : ∀ (m a : Nat),
    (List.range' a m).filterMap (fun i => L[i]?) = (L.drop a).take m
  | 0, a => by simp
  | m + 1, a => by
    rw [List.range'_succ, List.filterMap_cons]
    by_cases ha : a < L.length
    · rw [List.getElem?_eq_getElem ha]
      simp only []
      rw [filterMap_range' L m (a + 1), List.drop_eq_getElem_cons ha, List.take_succ_cons]
    · have hnone : L[a]? = none := by simp at ha; simp [ha]
      rw [hnone]
      simp only []
      rw [filterMap_range' L m (a + 1)]
      have h1 : L.drop a = [] := by simp at ha; simp [ha]
      have h2 : L.drop (a + 1) = [] := by simp at ha; simp; omega
      rw [h1, h2]
      simp

/-- **the repair's permutation puts the new entries where numpy.insert puts them**: taking `insertPerm n q p` out of
    the adjoined column `l ++ lv` is `numpy.insert(l, p, lv)` -/
theorem take_insertPerm {β : Type} (l lv : List β) (p : Nat) (hp : p ≤ l.length) :
    Np.take (insertPerm l.length lv.length p) (l ++ lv) = Np.insert p lv l := by
  unfold insertPerm Np.insert Np.take
  have hsplit : List.range l.length = List.range' 0 p ++ List.range' p (l.length - p) := by
    rw [List.range_eq_range']
    have := List.range'_append (s := 0) (m := p) (n := l.length - p) (step := 1)
    simp only [Nat.one_mul, Nat.zero_add] at this
    rw [this]
    congr 1
    omega
  have hlen : (List.range' 0 p).length = p := by simp
  have h1 : (List.range l.length).take p = List.range' 0 p := by
    rw [hsplit, List.take_left' hlen]
  have h2 : (List.range l.length).drop p = List.range' p (l.length - p) := by
    rw [hsplit, List.drop_left' hlen]
  rw [h1, h2, List.filterMap_append, List.filterMap_append, filterMap_range', filterMap_range', filterMap_range']
  congr 1
  · congr 1
    · simp [List.take_append_of_le_length hp]
    · simp
  · rw [List.drop_append_of_le_length hp, List.take_append_of_le_length (by simp)]
    simp

end LabelMat
