/-
Helper lemma for C01: the meaning of `Mating.Mosaic` in index form.  A mosaic of the haplotypes
`srcs` has a *path* `p` (one source index per marker) such that every cell is the cell of source
`p[j]` at the same marker, and the path can change between markers j and j+1 only if
`xo[j+1] > 0`.
-/
import Mathlib.Tactic
import PybropsModel.Lemmas.Mosaic
set_option autoImplicit false

namespace Mating
variable {α ρ : Type} [LT ρ] [OfNat ρ 0]

theorem map_drop_map_tail (S : List (List α)) (j0 : Nat) :
    (S.map (List.drop j0)).map List.tail = S.map (List.drop (j0 + 1)) := by
  rw [List.map_map]
  apply List.map_congr_left
  intro s _
  simp [List.tail_drop]

theorem MosaicFrom.path (S : List (List α)) : ∀ (xo : List ρ) (out cur : List α) (j0 s0 : Nat),
    (∃ c0, S[s0]? = some c0 ∧ c0.drop j0 = cur) →
    MosaicFrom cur (S.map (List.drop j0)) xo out →
    ∃ p : List Nat, p.length = out.length ∧
      (∀ j, j < out.length → ∃ src, S[p.getD j 0]? = some src ∧ src[j0 + j]? = out[j]?) ∧
      (0 < out.length → p.getD 0 0 ≠ s0 → ∃ x, xo[0]? = some x ∧ 0 < x) ∧
      (∀ j, j + 1 < out.length → p.getD (j + 1) 0 ≠ p.getD j 0 → ∃ x, xo[j + 1]? = some x ∧ 0 < x) := by
  intro xo
  induction xo with
  | nil =>
    intro out cur j0 s0 _ h
    cases out with
    | cons a t => simp [MosaicFrom] at h
    | nil => exact ⟨[], rfl, by simp, by simp, by simp⟩
  | cons x xs ih =>
    intro out cur j0 s0 hs0 h
    cases out with
    | nil => simp [MosaicFrom] at h
    | cons a out' =>
      simp only [MosaicFrom] at h
      obtain ⟨nxt, hmem, hc, hhead, hrest⟩ := h
      rw [map_drop_map_tail] at hrest
      -- choose the index of the next source: keep s0 when the source does not change
      have hidx : ∃ s1, (∃ c1, S[s1]? = some c1 ∧ c1.drop j0 = nxt) ∧ (s1 ≠ s0 → 0 < x) := by
        rcases hc with rfl | hx
        · exact ⟨s0, hs0, fun hne => absurd rfl hne⟩
        · obtain ⟨c1, hc1, rfl⟩ := List.mem_map.mp hmem
          obtain ⟨s1, hs1⟩ := List.mem_iff_getElem?.mp hc1
          exact ⟨s1, ⟨c1, hs1, rfl⟩, fun _ => hx⟩
      obtain ⟨s1, ⟨c1, hc1, hd1⟩, hsw⟩ := hidx
      have htail : c1.drop (j0 + 1) = nxt.tail := by rw [← hd1, List.tail_drop]
      obtain ⟨p', hlen, hcell, hfirst, hstep⟩ := ih out' nxt.tail (j0 + 1) s1 ⟨c1, hc1, htail⟩ hrest
      refine ⟨s1 :: p', by simp [hlen], ?_, ?_, ?_⟩
      · intro j hj
        cases j with
        | zero =>
          refine ⟨c1, by simpa using hc1, ?_⟩
          have : (c1.drop j0).head? = some a := by rw [hd1]; exact hhead
          rw [List.head?_drop] at this
          simpa using this
        | succ j =>
          obtain ⟨src, h1, h2⟩ := hcell j (by simpa using hj)
          refine ⟨src, by simpa using h1, ?_⟩
          have : j0 + (j + 1) = j0 + 1 + j := by omega
          rw [this]
          simpa using h2
      · intro _ hne
        exact ⟨x, rfl, hsw (by simpa using hne)⟩
      · intro j hj hne
        cases j with
        | zero =>
          have := hfirst (by simpa using hj) (by simpa using hne)
          simpa using this
        | succ j =>
          have := hstep j (by simpa using hj) (by simpa using hne)
          simpa using this

/-- index form of the mosaic predicate -/
theorem Mosaic.path {srcs : List (List α)} {xo : List ρ} {out : List α} (h : Mosaic srcs xo out) :
    ∃ p : List Nat, p.length = out.length ∧
      (∀ j, j < out.length → ∃ src, srcs[p.getD j 0]? = some src ∧ src[j]? = out[j]?) ∧
      (∀ j, j + 1 < out.length → p.getD (j + 1) 0 ≠ p.getD j 0 → ∃ x, xo[j + 1]? = some x ∧ 0 < x) := by
  obtain ⟨cur, hc, hm⟩ := h
  obtain ⟨s0, hs0⟩ := List.mem_iff_getElem?.mp hc
  have hid : srcs.map (List.drop 0) = srcs := by
    conv_rhs => rw [← List.map_id srcs]
    apply List.map_congr_left
    intro s _
    simp
  have hm' : MosaicFrom cur (srcs.map (List.drop 0)) xo out := by rw [hid]; exact hm
  obtain ⟨p, h1, h2, _, h4⟩ := MosaicFrom.path srcs xo out cur 0 s0 ⟨cur, hs0, by simp⟩ hm'
  refine ⟨p, h1, ?_, h4⟩
  intro j hj
  obtain ⟨src, ha, hb⟩ := h2 j hj
  exact ⟨src, ha, by simpa using hb⟩

end Mating
