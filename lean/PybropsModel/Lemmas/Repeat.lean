/-
Helper lemmas for C01 about `Np.repeatEach` (numpy.repeat with per-element counts), `Np.arange`
and `Np.sum`: naturality under `map` / `zipWith`, the nested-repeat identity used by the
three- and four-way and doubled-haploid protocols, lengths.
-/
import Mathlib.Tactic
import PybropsModel.Np
set_option autoImplicit false

namespace Np
variable {α β γ : Type}

@[simp] theorem repeatEach_nil_left (l : List α) : repeatEach [] l = [] := by
  cases l <;> rfl

@[simp] theorem repeatEach_nil_right (c : List Nat) : repeatEach c ([] : List α) = [] := by
  cases c <;> rfl

@[simp] theorem repeatEach_cons (n : Nat) (ns : List Nat) (a : α) (as : List α) :
    repeatEach (n :: ns) (a :: as) = List.replicate n a ++ repeatEach ns as := rfl

theorem repeatEach_map (f : α → β) : ∀ (c : List Nat) (l : List α),
    (repeatEach c l).map f = repeatEach c (l.map f)
  | [], l => by simp
  | _ :: _, [] => by simp
  | n :: ns, a :: as => by simp [repeatEach_map f ns as]

theorem zipWith_repeatEach (g : α → β → γ) : ∀ (c : List Nat) (l1 : List α) (l2 : List β),
    List.zipWith g (repeatEach c l1) (repeatEach c l2) = repeatEach c (List.zipWith g l1 l2)
  | [], l1, l2 => by simp
  | _ :: _, [], l2 => by simp
  | _ :: _, _ :: _, [] => by simp
  | n :: ns, a :: as, b :: bs => by
    simp only [repeatEach_cons, List.zipWith_cons_cons]
    rw [List.zipWith_append (by simp), zipWith_repeatEach g ns as bs]
    simp

theorem zip_repeatEach (c : List Nat) (l1 : List α) (l2 : List β) :
    List.zip (repeatEach c l1) (repeatEach c l2) = repeatEach c (List.zip l1 l2) := by
  simpa [List.zip] using zipWith_repeatEach Prod.mk c l1 l2

theorem repeatEach_replicate_replicate (m p : Nat) (x : α) (c : List Nat) (l : List α) :
    repeatEach (List.replicate m p ++ c) (List.replicate m x ++ l)
      = List.replicate (m * p) x ++ repeatEach c l := by
  induction m with
  | zero => simp
  | succ m ih =>
    simp only [List.replicate_succ, List.cons_append, repeatEach_cons, ih]
    rw [← List.append_assoc, ← List.replicate_add]
    congr 2
    ring

/-- `repeat(repeat(x, a), repeat(b, a)) = repeat(x, a * b)` -/
theorem repeatEach_nested : ∀ (a b : List Nat) (l : List α),
    repeatEach (repeatEach a b) (repeatEach a l) = repeatEach (List.zipWith (· * ·) a b) l
  | [], b, l => by simp
  | _ :: _, [], l => by simp
  | _ :: _, _ :: _, [] => by simp
  | m :: ms, p :: ps, x :: xs => by
    simp only [repeatEach_cons, List.zipWith_cons_cons]
    rw [repeatEach_replicate_replicate, repeatEach_nested ms ps xs]

theorem mem_of_mem_repeatEach {x : α} : ∀ {c : List Nat} {l : List α}, x ∈ repeatEach c l → x ∈ l
  | [], l, h => by simp at h
  | _ :: _, [], h => by simp at h
  | n :: ns, a :: as, h => by
    simp only [repeatEach_cons, List.mem_append, List.mem_replicate] at h
    rcases h with ⟨_, rfl⟩ | h
    · simp
    · exact List.mem_cons_of_mem _ (mem_of_mem_repeatEach h)

theorem length_repeatEach : ∀ (c : List Nat) (l : List α), c.length = l.length →
    (repeatEach c l).length = c.sum
  | [], [], _ => by simp
  | [], _ :: _, h => by simp at h
  | _ :: _, [], h => by simp at h
  | n :: ns, a :: as, h => by
    simp only [repeatEach_cons, List.length_append, List.length_replicate, List.sum_cons]
    rw [length_repeatEach ns as (by simpa using h)]

theorem sum_repeatEach : ∀ (a b : List Nat), (repeatEach a b).sum = (List.zipWith (· * ·) a b).sum
  | [], b => by simp
  | _ :: _, [] => by simp
  | m :: ms, p :: ps => by
    simp only [repeatEach_cons, List.sum_append, List.sum_replicate, List.zipWith_cons_cons,
      List.sum_cons, sum_repeatEach ms ps, smul_eq_mul]

theorem length_repeatEach_same (a b : List Nat) (h : a.length = b.length) :
    (repeatEach a b).length = a.sum := length_repeatEach a b h

/-- `Np.sum` (a left fold) is the list sum -/
theorem sum_eq_list_sum (l : List Nat) : Np.sum l = l.sum := by
  unfold Np.sum
  have : ∀ (acc : Nat), l.foldl (· + ·) acc = acc + l.sum := by
    induction l with
    | nil => simp
    | cons a t ih => intro acc; simp [List.foldl_cons, ih]; ring
  simpa using this 0

@[simp] theorem length_arange (s n : Nat) : (arange s n).length = n := by simp [arange]

theorem getElem_arange (s n k : Nat) (h : k < (arange s n).length) : (arange s n)[k] = k + s := by
  simp [arange]

theorem arange_eq_map (s n : Nat) : arange s n = (List.range n).map (· + s) := rfl

theorem map_getD_arange (l : List α) (d : α) : (arange 0 l.length).map (fun i => l.getD i d) = l := by
  apply List.ext_getElem
  · simp
  · intro i h1 h2
    simp [arange] at h1 ⊢
    simp [h2]

theorem arange_zipIdx (l : List α) (s : Nat) : arange s l.length = l.zipIdx.map (fun p => p.2 + s) := by
  apply List.ext_getElem
  · simp
  · intro i h1 h2
    simp [arange]

end Np
