/-
Helper lemmas for C18 (14): the memory-chunk loop of `_calc_ohvmat` (`Model/Haplo.lean` §5b).
* Python's `range(start, stop, step)` (`rangeStep`) unfolds one element at a time for every `step ≥ 1`;
* the literal loop `for rst, rsp in zip(range(0, n, step), srange(step, n, step)): out[rst:rsp] = …`
  writes every row exactly once: whatever the chunk size, the result is the row-wise closed form.
-/
import Mathlib.Tactic
import PybropsModel.Model.Haplo
set_option autoImplicit false
set_option linter.unusedSectionVars false

namespace Haplo

/-- more fuel than `stop - start` changes nothing (`step ≥ 1`) -/
theorem rangeStepF_eq (step : Nat) (hs : 0 < step) :
    ∀ f1 f2 start stop, stop - start ≤ f1 → stop - start ≤ f2 →
      rangeStepF f1 start stop step = rangeStepF f2 start stop step := by
  intro f1
  induction f1 with
  | zero =>
    intro f2 start stop h1 _
    have hle : ¬ start < stop := by omega
    cases f2 with
    | zero => rfl
    | succ f2 => simp [rangeStepF, hle]
  | succ f1 ih =>
    intro f2 start stop h1 h2
    by_cases hlt : start < stop
    · cases f2 with
      | zero => omega
      | succ f2 =>
        simp only [rangeStepF, hlt, if_true]
        rw [ih f2 (start + step) stop (by omega) (by omega)]
    · cases f2 with
      | zero => simp [rangeStepF, hlt]
      | succ f2 => simp [rangeStepF, hlt]

/-- `range(a, n, step)` = `a` followed by `range(a + step, n, step)` while `a < n` -/
theorem rangeStep_unfold (a n step : Nat) (hs : 0 < step) :
    rangeStep a n step = if a < n then a :: rangeStep (a + step) n step else [] := by
  unfold rangeStep
  by_cases hlt : a < n
  · have : n - a = (n - a - 1) + 1 := by omega
    rw [this]
    simp only [rangeStepF, hlt, if_true]
    rw [rangeStepF_eq step hs (n - a - 1) (n - (a + step)) (a + step) n (by omega) (by omega)]
  · have : n - a = 0 := by omega
    rw [this]
    simp [rangeStepF, hlt]

theorem rangeStep_nil (a n step : Nat) (hs : 0 < step) (h : n ≤ a) : rangeStep a n step = [] := by
  rw [rangeStep_unfold a n step hs, if_neg (by omega)]

/-- every element of `range(a, n, step)` is `a + i·step < n`, in order: the closed form of Python's `range` -/
theorem rangeStep_closed (step : Nat) (hs : 0 < step) :
    ∀ k a n, n - a ≤ k →
      rangeStep a n step = (List.range ((n - a + step - 1) / step)).map (fun i => a + i * step) := by
  intro k
  induction k with
  | zero =>
    intro a n h
    rw [rangeStep_nil a n step hs (by omega)]
    have : (n - a + step - 1) / step = 0 := by
      apply Nat.div_eq_of_lt; omega
    rw [this]; rfl
  | succ k ih =>
    intro a n h
    by_cases hlt : a < n
    · rw [rangeStep_unfold a n step hs, if_pos hlt, ih (a + step) n (by omega)]
      have hq : (n - a + step - 1) / step = (n - (a + step) + step - 1) / step + 1 := by
        by_cases h2 : a + step ≤ n
        · have e : n - a + step - 1 = (n - (a + step) + step - 1) + step := by omega
          rw [e, Nat.add_div_right _ hs]
        · have e1 : n - (a + step) = 0 := by omega
          have e2 : (n - (a + step) + step - 1) / step = 0 := by
            apply Nat.div_eq_of_lt; omega
          rw [e2]
          have e3 : n - a + step - 1 = (n - a - 1) + step := by omega
          rw [e3, Nat.add_div_right _ hs]
          have : (n - a - 1) / step = 0 := by apply Nat.div_eq_of_lt; omega
          omega
      rw [hq, List.range_succ_eq_map, List.map_cons, List.map_map]
      simp only [Nat.zero_mul, Nat.add_zero, List.cons.injEq, true_and]
      apply List.map_congr_left
      intro i _
      simp only [Function.comp, Nat.succ_eq_add_one]
      ring
    · rw [rangeStep_nil a n step hs (by omega)]
      have : (n - a + step - 1) / step = 0 := by
        apply Nat.div_eq_of_lt; omega
      rw [this]; rfl

section loop
variable {α : Type} [Add α] [Sub α] [Mul α] [Div α] [Neg α] [OfNat α 0] [NatCast α]
  [LT α] [LE α] [DecidableLT α] [DecidableLE α] [DecidableEq α]

/-- the invariant of the chunk loop: started at a chunk boundary `a < n` with the rows `< a` already in
    place, the loop leaves those rows alone and writes `ohv` of every later row of the cross map -/
theorem ohvmatLoop_from (V : List (List (List α))) (nblk : Nat) (xm : List (List Nat)) (step : Nat)
    (hs : 0 < step) :
    ∀ k a (out : List (Option α)), xm.length - a ≤ k → a < xm.length → out.length = xm.length →
      ohvmatLoop V nblk xm
          (List.zip (rangeStep a xm.length step) (rangeStep (a + step) xm.length step ++ [xm.length])) out
        = out.take a ++ (xm.drop a).map (fun par => some (ohv V nblk par)) := by
  intro k
  induction k with
  | zero => intro a out h1 h2 _; omega
  | succ k ih =>
    intro a out hk ha hlen
    rw [rangeStep_unfold a xm.length step hs, if_pos ha]
    by_cases hb : a + step < xm.length
    · -- a full chunk, more to come
      rw [rangeStep_unfold (a + step) xm.length step hs, if_pos hb]
      simp only [List.cons_append, List.zip_cons_cons, ohvmatLoop]
      have hrest := ih (a + step)
        (assignSlice a (a + step) ((slice a (a + step) xm).map (ohv V nblk)) out) (by omega) hb (by
          simp only [assignSlice, slice, List.length_append, List.length_take, List.length_map,
            List.length_drop, hlen]
          omega)
      have hzip : List.zip (rangeStep (a + step) xm.length step)
            (rangeStep (a + step + step) xm.length step ++ [xm.length]) =
          ((a + step) :: rangeStep (a + step + step) xm.length step).zip
            (rangeStep (a + step + step) xm.length step ++ [xm.length]) := by
        rw [rangeStep_unfold (a + step) xm.length step hs, if_pos hb]
      rw [← hzip, hrest]
      -- the first `a + step` cells after the assignment
      have htake : (assignSlice a (a + step) ((slice a (a + step) xm).map (ohv V nblk)) out).take (a + step)
          = out.take a ++ ((xm.drop a).take step).map (fun par => some (ohv V nblk par)) := by
        simp only [assignSlice, slice, List.map_map]
        have e : a + step - a = step := by omega
        rw [e]
        have hl : (out.take a ++ ((xm.drop a).take step).map (some ∘ ohv V nblk)).length = a + step := by
          simp only [List.length_append, List.length_take, List.length_map, List.length_drop, hlen]
          omega
        rw [List.take_append_of_le_length (by rw [hl]), List.take_of_length_le (by rw [hl])]
        rfl
      rw [htake, List.append_assoc, ← List.map_append]
      congr 2
      have : xm.drop (a + step) = (xm.drop a).drop step := by rw [List.drop_drop]
      rw [this, List.take_append_drop]
    · -- the last chunk: `srange` supplies the stop index `n`
      rw [rangeStep_nil (a + step) xm.length step hs (by omega)]
      simp only [List.nil_append, List.zip_cons_cons, List.zip_nil_right, ohvmatLoop, assignSlice, slice,
        List.map_map]
      have e1 : (xm.drop a).take (xm.length - a) = xm.drop a := by
        apply List.take_of_length_le; simp
      have e2 : out.drop xm.length = [] := by
        apply List.drop_of_length_le; omega
      rw [e1, e2, List.append_nil]
      rfl

/-- **`_calc_ohvmat` = its closed form, for every chunk size.**  With `mem = step ≥ 1` (and with `mem = None`
    on a non-empty cross map) the chunked evaluation returns row `s` = `ohv` of cross configuration `s`, every
    row written exactly once, none left uninitialised. -/
theorem calcOhvmat_some (V : List (List (List α))) (nblk : Nat) (xm : List (List Nat)) (step : Nat)
    (hs : 0 < step) :
    calcOhvmat V nblk xm (some step) = .ok (xm.map (fun par => some (ohv V nblk par))) := by
  unfold calcOhvmat
  simp only [Option.getD_some, Nat.pos_iff_ne_zero.mp hs, if_false]
  by_cases hne : 0 < xm.length
  · have := ohvmatLoop_from V nblk xm step hs xm.length 0 (List.replicate xm.length none) (by omega) hne (by simp)
    simp only [Nat.zero_add, List.take_zero, List.nil_append, List.drop_zero] at this
    unfold srange
    rw [this]
  · have hnil : xm = [] := List.length_eq_zero_iff.mp (by omega)
    subst hnil
    simp [rangeStep, rangeStepF, ohvmatLoop]

theorem calcOhvmat_none (V : List (List (List α))) (nblk : Nat) (xm : List (List Nat)) (hne : xm ≠ []) :
    calcOhvmat V nblk xm none = .ok (xm.map (fun par => some (ohv V nblk par))) := by
  have hpos : 0 < xm.length := List.length_pos_of_ne_nil hne
  have h := calcOhvmat_some V nblk xm xm.length hpos
  unfold calcOhvmat at h ⊢
  simpa using h

/-- a zero chunk size (`mem = 0`, or `mem = None` on an empty cross map) makes `range` raise -/
theorem calcOhvmat_zero_step (V : List (List (List α))) (nblk : Nat) (xm : List (List Nat)) :
    calcOhvmat V nblk xm (some 0) = .error "value" ∧ calcOhvmat V nblk [] none = .error "value" := by
  constructor <;> simp [calcOhvmat]

end loop

end Haplo
