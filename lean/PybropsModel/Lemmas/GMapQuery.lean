/-
Helper lemmas for C11: queries against a whole map (`interpOne`, `interpGenpos`, `interpXoprob`):
own markers, flanking markers, congruent maps, absent chromosomes, independence of the row order.
-/
import PybropsModel.Lemmas.GMapSort
import PybropsModel.Lemmas.GMapInterp
import PybropsModel.Lemmas.GMapDist
set_option autoImplicit false
set_option linter.unusedSectionVars false

namespace GMap

section query
variable {α β : Type} [Field α] [LinearOrder α] [IsStrictOrderedRing α]

/-- number of markers of chromosome `c` -/
def nMarkers (rows : List (Row α β)) (c : Int) : Nat := (rows.filter (fun r => r.chr == c)).length

/-- a congruent map: on every chromosome the genetic position does not decrease with the physical one -/
def Congruent (rows : List (Row α β)) : Prop :=
  ∀ a ∈ rows, ∀ b ∈ rows, a.chr = b.chr → a.phy < b.phy → a.gen ≤ b.gen

/-- the maps the property quantifies over: no duplicated physical position, at least two markers on
    every chromosome that occurs -/
def ValidMap (rows : List (Row α β)) : Prop :=
  NoDupPhys rows ∧ ∀ r ∈ rows, 2 ≤ nMarkers rows r.chr

theorem interpOne_eq_interpOneS {rows : List (Row α β)} (h : NoDupPhys rows) (c : Int) (x : α) :
    interpOne rows c x = interpOneS rows c x :=
  interpIdx_eq_interpSorted _ _ (knots_strict h c)

theorem interpGenpos_eq_interpGenposS {rows : List (Row α β)} (h : NoDupPhys rows) (qchr : List Int)
    (qphy : List α) : interpGenpos rows qchr qphy = interpGenposS rows qchr qphy := by
  unfold interpGenpos interpGenposS
  exact List.map_congr_left (fun q _ => interpOne_eq_interpOneS h q.1 q.2)

theorem interpGenpos_getElem? (rows : List (Row α β)) (qchr : List Int) (qphy : List α) (i : Nat) :
    (interpGenpos rows qchr qphy)[i]? = ((qchr.zip qphy)[i]?).map fun q => interpOne rows q.1 q.2 := by
  simp [interpGenpos]

theorem interpGenpos_length (rows : List (Row α β)) (qchr : List Int) (qphy : List α) :
    (interpGenpos rows qchr qphy).length = (qchr.zip qphy).length := by
  simp [interpGenpos]

theorem knots_monoY {rows : List (Row α β)} (h : NoDupPhys rows) (hc : Congruent rows) (c : Int) :
    MonoY (knots rows c) := by
  refine (knots_strict h c).imp_of_mem ?_
  intro a b ha hb hab
  obtain ⟨r, hr, hrc, rfl⟩ := mem_knots.mp ha
  obtain ⟨s, hs, hsc, rfl⟩ := mem_knots.mp hb
  exact hc r hr s hs (hrc.trans hsc.symm) hab

theorem interpOne_at_marker {rows : List (Row α β)} (h : NoDupPhys rows) {r : Row α β} (hr : r ∈ rows)
    (h2 : 2 ≤ nMarkers rows r.chr) : interpOne rows r.chr r.phy = some r.gen := by
  rw [interpOne_eq_interpOneS h]
  have hk : (r.phy, r.gen) ∈ knots rows r.chr := mem_knots.mpr ⟨r, hr, rfl, rfl⟩
  exact interpSorted_at_knot _ (r.phy, r.gen) (knots_strict h _) (by rw [knots_length]; exact h2) hk

theorem interpOne_isSome {rows : List (Row α β)} (h : NoDupPhys rows) {c : Int}
    (h2 : 2 ≤ nMarkers rows c) (x : α) : (interpOne rows c x).isSome := by
  rw [interpOne_eq_interpOneS h]
  exact interpSorted_isSome _ x (knots_strict h c) (by rw [knots_length]; exact h2)

theorem interpOne_absent {rows : List (Row α β)} {c : Int} (h : ∀ r ∈ rows, r.chr ≠ c) (x : α) :
    interpOne rows c x = none := by
  have : knots rows c = [] := by
    apply List.eq_nil_of_length_eq_zero
    rw [knots_length]
    apply List.length_eq_zero_iff.mpr
    apply List.filter_eq_nil_iff.mpr
    intro r hr
    simpa using h r hr
  simp [interpOne, this, interpIdx]

/-- in a strictly increasing list two members with nothing in between are neighbours -/
theorem split_of_adjacent : ∀ (k : List (α × α)) (p q : α × α), StrictX k → p ∈ k → q ∈ k → p.1 < q.1 →
    (∀ m ∈ k, ¬ (p.1 < m.1 ∧ m.1 < q.1)) → ∃ pre post, k = pre ++ p :: q :: post
  | [], _, _, _, hp, _, _, _ => by simp at hp
  | h :: t, p, q, hs, hp, hq, hpq, hno => by
    obtain ⟨hs0, hs1⟩ := List.pairwise_cons.mp hs
    rcases List.mem_cons.mp hp with rfl | hp'
    · -- p is the head: q must be the head of the tail
      have hq' : q ∈ t := by
        rcases List.mem_cons.mp hq with rfl | hq'
        · exact absurd hpq (lt_irrefl _)
        · exact hq'
      cases t with
      | nil => simp at hq'
      | cons h' t' =>
        have hh' : p.1 < h'.1 := hs0 h' (by simp)
        have : h' = q := by
          rcases List.mem_cons.mp hq' with rfl | hq''
          · rfl
          · have hlt : h'.1 < q.1 := (List.pairwise_cons.mp hs1).1 q hq''
            exact absurd ⟨hh', hlt⟩ (hno h' (by simp))
        subst this
        exact ⟨[], t', rfl⟩
    · have hq' : q ∈ t := by
        rcases List.mem_cons.mp hq with rfl | hq'
        · exact absurd (lt_trans (hs0 p hp') hpq) (lt_irrefl _)
        · exact hq'
      obtain ⟨pre, post, ht⟩ := split_of_adjacent t p q hs1 hp' hq' hpq
        (fun m hm => hno m (List.mem_cons_of_mem _ hm))
      exact ⟨h :: pre, post, by rw [ht]; rfl⟩

/-- **linear between flanking markers** -/
theorem interpOne_between {rows : List (Row α β)} (h : NoDupPhys rows) {a b : Row α β}
    (ha : a ∈ rows) (hb : b ∈ rows) (hab : a.chr = b.chr) {x : α} (h0 : a.phy < x) (h1 : x ≤ b.phy)
    (hflank : ∀ m ∈ rows, m.chr = a.chr → ¬ (a.phy < m.phy ∧ m.phy < b.phy)) :
    interpOne rows a.chr x = some (a.gen + (b.gen - a.gen) * (x - a.phy) / (b.phy - a.phy)) := by
  rw [interpOne_eq_interpOneS h]
  have hs := knots_strict h a.chr
  have hpa : (a.phy, a.gen) ∈ knots rows a.chr := mem_knots.mpr ⟨a, ha, rfl, rfl⟩
  have hpb : (b.phy, b.gen) ∈ knots rows a.chr := mem_knots.mpr ⟨b, hb, hab.symm, rfl⟩
  have hlt : a.phy < b.phy := lt_of_lt_of_le h0 h1
  obtain ⟨pre, post, hk⟩ := split_of_adjacent (knots rows a.chr) (a.phy, a.gen) (b.phy, b.gen) hs hpa hpb hlt
    (by
      intro m hm
      obtain ⟨r, hr, hrc, rfl⟩ := mem_knots.mp hm
      exact hflank r hr hrc)
  unfold interpOneS
  rw [hk] at hs ⊢
  rw [interpSorted_between pre post _ _ x hs h0 h1, seg_eq_linear _ _ _ hlt]

/-- **order preserving for congruent maps** -/
theorem interpOne_mono {rows : List (Row α β)} (h : NoDupPhys rows) (hc : Congruent rows) {c : Int}
    (h2 : 2 ≤ nMarkers rows c) {x x' : α} (hx : x ≤ x') :
    ∃ y y', interpOne rows c x = some y ∧ interpOne rows c x' = some y' ∧ y ≤ y' := by
  obtain ⟨y, hy⟩ := Option.isSome_iff_exists.mp (interpOne_isSome h h2 x)
  obtain ⟨y', hy'⟩ := Option.isSome_iff_exists.mp (interpOne_isSome h h2 x')
  refine ⟨y, y', hy, hy', ?_⟩
  rw [interpOne_eq_interpOneS h] at hy hy'
  exact interpSorted_mono _ (knots_strict h c) (knots_monoY h hc c) (by rw [knots_length]; exact h2)
    x x' hx y y' hy hy'

/-- **independence of the supplied row order** -/
theorem interpOne_perm {rows rows' : List (Row α β)} (hp : rows.Perm rows') (h : NoDupPhys rows)
    (c : Int) (x : α) : interpOne rows c x = interpOne rows' c x := by
  unfold interpOne
  rw [knots_eq_of_perm hp h c]

theorem interpGenpos_perm {rows rows' : List (Row α β)} (hp : rows.Perm rows') (h : NoDupPhys rows)
    (qchr : List Int) (qphy : List α) : interpGenpos rows qchr qphy = interpGenpos rows' qchr qphy := by
  unfold interpGenpos
  exact List.map_congr_left (fun q _ => interpOne_perm hp h q.1 q.2)

theorem nMarkers_perm {rows rows' : List (Row α β)} (hp : rows.Perm rows') (c : Int) :
    nMarkers rows c = nMarkers rows' c := (hp.filter _).length_eq

theorem ValidMap.perm {rows rows' : List (Row α β)} (hv : ValidMap rows) (hp : rows.Perm rows') :
    ValidMap rows' :=
  ⟨hv.1.perm hp, fun r hr => by rw [← nMarkers_perm hp]; exact hv.2 r (hp.symm.subset hr)⟩

theorem Congruent.perm {rows rows' : List (Row α β)} (hc : Congruent rows) (hp : rows.Perm rows') :
    Congruent rows' :=
  fun a ha b hb => hc a (hp.symm.subset ha) b (hp.symm.subset hb)

end query

/-! ### crossover probabilities -/
section xoprob
variable {α β : Type} [Field α] [LinearOrder α] [IsStrictOrderedRing α]

theorem interpXoprob_fst (f : α → α) (rows : List (Row α β)) (qchr : List Int) (qphy : List α) :
    (interpXoprob id f rows qchr qphy).1 = interpGenpos rows qchr qphy := rfl

theorem dist_map_id (d : GDist α) : d.map id = d := by cases d <;> rfl

theorem interpXoprob_snd (f : α → α) (rows : List (Row α β)) (qchr : List Int) (qphy : List α) :
    (interpXoprob id f rows qchr qphy).2 =
      (gdist1g qchr (interpGenpos rows qchr qphy)).map (mapD f) := by
  unfold interpXoprob
  simp only
  apply List.map_congr_left
  intro d _
  rw [dist_map_id]

theorem mapD_seqDist (f : α → α) (p c : Int × Option α) :
    mapD f (seqDist (some p) c) =
      if p.1 = c.1 then mapD f (subPos c.2 p.2) else GDist.fin half := by
  by_cases h : p.1 = c.1
  · simp [seqDist, h]
  · simp [seqDist, h, mapD]

theorem zip_map_zip {γ δ ε : Type} (F : γ × δ → ε) : ∀ (l : List γ) (m : List δ),
    l.zip ((l.zip m).map F) = (l.zip m).map (fun q => (q.1, F q))
  | [], _ => by simp
  | _ :: _, [] => by simp
  | a :: l, b :: m => by simp [zip_map_zip F l m]

/-- the (label, interpolated position) pairs the sequential distances are computed from -/
theorem zip_interpGenpos (rows : List (Row α β)) (qchr : List Int) (qphy : List α) :
    qchr.zip (interpGenpos rows qchr qphy) =
      (qchr.zip qphy).map (fun q => (q.1, interpOne rows q.1 q.2)) := by
  unfold interpGenpos
  exact zip_map_zip _ qchr qphy

end xoprob
end GMap
