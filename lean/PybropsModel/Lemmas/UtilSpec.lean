/-
C01: the Spec of the three matrix utilities decides "is an output of the model for some non-negative
draws" (sound for every output; complete when the first marker has positive crossover probability).
-/
import Mathlib.Tactic
import PybropsModel.Lemmas.SpecComplete
import PybropsModel.Lemmas.DenseMate
set_option autoImplicit false
set_option linter.unusedSectionVars false

namespace Mating
open Meiosis
variable {α ρ : Type} [BEq α] [LawfulBEq α]

section
variable [Preorder ρ] [DecidableLT ρ] [Zero ρ]

/-- what `specGametes` decides -/
def GametesOf (pop : Pop α) (xo : List ρ) (sel : List Nat) (rows : List (Hap α)) : Prop :=
  List.Forall₂ (fun s g => ∃ F, pop[s]? = some F ∧ Mosaic [F.1, F.2] xo g) sel rows

theorem specGametes_iff (pop : Pop α) (xo : List ρ) : ∀ (sel : List Nat) (rows : List (Hap α)),
    specGametes pop sel xo rows = true ↔ GametesOf pop xo sel rows := by
  intro sel
  induction sel with
  | nil =>
    intro rows
    cases rows with
    | nil => simp [specGametes, GametesOf]
    | cons g t => simp [specGametes, GametesOf]
  | cons s sel ih =>
    intro rows
    cases rows with
    | nil => simp [specGametes, GametesOf]
    | cons g t =>
      have := ih t
      simp only [specGametes, GametesOf, List.length_cons, Bool.and_eq_true, beq_iff_eq, List.zip_cons_cons,
        List.all_cons, List.forall₂_cons, Nat.add_right_cancel_iff] at this ⊢
      constructor
      · rintro ⟨hl, hh, ht⟩
        refine ⟨?_, this.mp ⟨hl, ht⟩⟩
        cases hp : pop[s]? with
        | none => simp [hp] at hh
        | some F =>
          simp only [hp] at hh
          exact ⟨F, rfl, (mosaicCheck_iff _ _ _).mp hh⟩
      · rintro ⟨⟨F, hF, hm⟩, ht⟩
        obtain ⟨hl, ht'⟩ := this.mpr ht
        refine ⟨hl, ?_, ht'⟩
        simp only [hF]
        exact (mosaicCheck_iff _ _ _).mpr hm

/-- soundness: every output of `mat_meiosis` / `dense_meiosis` passes -/
theorem specGametes_of_meiosisE {xo : List ρ} {pop : Pop α} (hs : Shaped xo pop) {sel : List Nat} {rnd : DrawMat ρ}
    {gs : List (Hap α)} (hnn : ∀ r ∈ rnd, ∀ x ∈ r, (0 : ρ) ≤ x) (h : meiosisE pop sel xo rnd = .ok gs) :
    specGametes pop sel xo gs = true :=
  (specGametes_iff pop xo sel gs).mpr (meiosisE_child hs hnn h)

theorem specDh_of_dhE {xo : List ρ} {pop : Pop α} (hs : Shaped xo pop) {sel : List Nat} {d d' : List (DrawMat ρ)}
    {out : Pop α} (hnn : Nonneg d) (h : dhE pop sel xo d = .ok (out, d')) : specDh pop sel xo out = true := by
  cases d with
  | nil => simp [dhE] at h
  | cons r rest =>
    cases h1 : meiosisE pop sel xo r with
    | error e => simp [dhE, h1] at h
    | ok g =>
      simp only [dhE, h1, Except.ok.injEq, Prod.mk.injEq] at h
      obtain ⟨rfl, rfl⟩ := h
      have := specGametes_of_meiosisE hs (hnn r (by simp)) h1
      simp only [specDh, List.map_map, Bool.and_eq_true, List.all_eq_true, List.mem_map]
      refine ⟨by simpa [Function.comp_def] using this, ?_⟩
      rintro c ⟨x, _, rfl⟩
      simp

theorem specCross_of_mateE {xo : List ρ} {fpop mpop : Pop α} (hf : Shaped xo fpop) (hm : Shaped xo mpop)
    {fsel msel : List Nat} {d d' : List (DrawMat ρ)} {out : Pop α} (hnn : Nonneg d)
    (h : mateE fpop mpop fsel msel xo d = .ok (out, d')) : specCross fpop mpop fsel msel xo out = true := by
  cases d with
  | nil => simp [mateE] at h
  | cons rf d1 =>
    cases d1 with
    | nil => simp [mateE] at h
    | cons rm rest =>
      cases h1 : meiosisE fpop fsel xo rf with
      | error e => simp [mateE, h1] at h
      | ok fg =>
        cases h2 : meiosisE mpop msel xo rm with
        | error e => simp [mateE, h1, h2] at h
        | ok mg =>
          simp only [mateE, h1, h2] at h
          split at h
          · rename_i hl
            simp only [Except.ok.injEq, Prod.mk.injEq] at h
            obtain ⟨rfl, rfl⟩ := h
            have a := specGametes_of_meiosisE hf (hnn rf (by simp)) h1
            have b := specGametes_of_meiosisE hm (hnn rm (by simp)) h2
            simp only [specCross, Bool.and_eq_true]
            rw [List.map_fst_zip (by omega), List.map_snd_zip (by omega)]
            exact ⟨a, b⟩
          · simp at h

end

section complete
variable [LinearOrder ρ] [Zero ρ]

/-- completeness: a gamete matrix that passes IS `mat_meiosis`'s output for some non-negative draws -/
theorem meiosisE_of_specGametes {xo : List ρ} {pop : Pop α} (hs : Shaped xo pop)
    (hstart : ∀ x, xo.head? = some x → 0 < x) {sel : List Nat} {gs : List (Hap α)}
    (h : specGametes pop sel xo gs = true) :
    ∃ rnd : DrawMat ρ, (∀ r ∈ rnd, ∀ y ∈ r, (0 : ρ) ≤ y) ∧ meiosisE pop sel xo rnd = .ok gs := by
  obtain ⟨rnd, _, hnn, hm⟩ := meiosisE_realises xo pop hs hstart sel gs ((specGametes_iff pop xo sel gs).mp h)
  exact ⟨rnd, hnn, hm⟩

theorem zip_map_fst_snd (out : Pop α) : List.zip (out.map Prod.fst) (out.map Prod.snd) = out := by
  induction out with
  | nil => rfl
  | cons c t ih => simp only [List.map_cons, List.zip_cons_cons, ih]

theorem mateE_of_specCross {xo : List ρ} {fpop mpop : Pop α} (hf : Shaped xo fpop) (hm : Shaped xo mpop)
    (hstart : ∀ x, xo.head? = some x → 0 < x) {fsel msel : List Nat} {out : Pop α} (rest : List (DrawMat ρ))
    (h : specCross fpop mpop fsel msel xo out = true) :
    ∃ rf rm : DrawMat ρ, Nonneg [rf, rm] ∧ mateE fpop mpop fsel msel xo (rf :: rm :: rest) = .ok (out, rest) := by
  simp only [specCross, Bool.and_eq_true] at h
  obtain ⟨rf, nf, ef⟩ := meiosisE_of_specGametes hf hstart h.1
  obtain ⟨rm, nm, em⟩ := meiosisE_of_specGametes hm hstart h.2
  refine ⟨rf, rm, ?_, ?_⟩
  · intro m hm'
    simp only [List.mem_cons, List.not_mem_nil, or_false] at hm'
    rcases hm' with rfl | rfl
    · exact nf
    · exact nm
  · simp only [mateE, ef, em, List.length_map, if_true]
    rw [zip_map_fst_snd]

theorem dhE_of_specDh {xo : List ρ} {pop : Pop α} (hs : Shaped xo pop)
    (hstart : ∀ x, xo.head? = some x → 0 < x) {sel : List Nat} {out : Pop α} (rest : List (DrawMat ρ))
    (h : specDh pop sel xo out = true) :
    ∃ r : DrawMat ρ, Nonneg [r] ∧ dhE pop sel xo (r :: rest) = .ok (out, rest) := by
  simp only [specDh, Bool.and_eq_true, List.all_eq_true, beq_iff_eq] at h
  obtain ⟨r, nr, er⟩ := meiosisE_of_specGametes hs hstart h.1
  refine ⟨r, ?_, ?_⟩
  · intro m hm'
    simp only [List.mem_cons, List.not_mem_nil, or_false] at hm'
    subst hm'
    exact nr
  · simp only [dhE, er, List.map_map, Except.ok.injEq, Prod.mk.injEq, and_true]
    conv_rhs => rw [← List.map_id out]
    apply List.map_congr_left
    intro c hc
    have := h.2 c hc
    simp only [Function.comp, id]
    exact Prod.ext rfl this

end complete

end Mating
