/-
Helper lemmas for C20 (3/3): bundled single steps, one generation, the generation loop,
one replicate, the replicate loop, `evolve`.
-/
import PybropsModel.Lemmas.ProgramSteps
set_option autoImplicit false
set_option linter.unusedSectionVars false

namespace Program
section
variable {σ V : Type} [DecidableEq V]
variable {S : List Ref} {V0 : List (Option V)} {ops : Ops σ V} {cfg : Cfg V}

/-- what is known about a recorded event -/
structure IsEv (V0 : List (Option V)) (e : Event V) (k : EvKind) (t : Nat) (rp : Int)
    (as rs : List Ref) : Prop where
  kind : e.kind = k
  t : e.t = t
  rep : e.rep = rp
  start : e.startVals = V0
  args : e.args = as
  argVals : e.argVals.length = as.length
  rets : e.rets = rs
  retVals : e.retVals.length = rs.length

/-! ### bundled steps (existential form keeps the goals small) -/

theorem step_newMisc {st : State σ V} (g : Good S V0 st) :
    ∃ st' n, execS ops cfg .newMisc st = st' ∧ Good S V0 st' ∧ st'.trace = st.trace ∧ st'.t = st.t ∧
      st'.rep = st.rep ∧ st'.regs .misc = some n ∧ (∀ r, r ≠ Reg.misc → st'.regs r = st.regs r) := by
  refine ⟨_, st.heap.length, execS_newMisc g.nbad, g.alloc _ _, rfl, rfl, rfl, ?_, ?_⟩
  · exact setReg_same st.regs Reg.misc (some st.heap.length)
  · intro r hr; exact setReg_other st.regs Reg.misc r (some st.heap.length) hr

theorem step_call {st : State σ V} (g : Good S V0 st) (hR : Respects S ops) (k : OpK)
    (args rets : List Reg) (as : List Ref) (hres : args.map st.regs = as.map some)
    (hnd : rets.Nodup) (har : rets.length = arity k) :
    ∃ st' e rs, execS ops cfg (.call k args rets) st = st' ∧ Good S V0 st' ∧
      st'.trace = st.trace ++ [e] ∧ st'.t = st.t ∧ st'.rep = st.rep ∧
      rets.map st'.regs = rs.map some ∧ (∀ r, r ∉ rets → st'.regs r = st.regs r) ∧
      rs.length = rets.length ∧ IsEv V0 e (.op k) st.t st.rep as rs := by
  have hres' := resolve_some _ _ _ hres
  have has := g.args_ok hres'
  obtain ⟨_, _, _, h4⟩ := hR.op k st.ost st.heap as st.t cfg.tmax g.svalid has
  have hlen : (ops.op k st.ost st.heap as st.t cfg.tmax).2.2.length = rets.length := by rw [h4, har]
  refine ⟨_, callEvent ops cfg k as st, (ops.op k st.ost st.heap as st.t cfg.tmax).2.2,
    execS_call g.nbad k args rets as hres' hlen, g.call hR k rets as has, rfl, rfl, rfl, ?_, ?_, hlen, ?_⟩
  · exact map_assign_same _ _ _ hnd hlen.symm
  · intro r hr; exact assign_other r _ _ _ hr
  · exact ⟨rfl, rfl, rfl, g.startVals, rfl, vals_length _ _, rfl, vals_length _ _⟩

theorem step_log {st : State σ V} (g : Good S V0 st) (hR : Respects S ops) (k : LogK) (guarded : Bool)
    (args : List Reg) (as : List Ref) (hres : args.map st.regs = as.map some)
    (hg : (guarded && !cfg.loginit) = false) :
    ∃ st' e, execS ops cfg (.log k guarded args) st = st' ∧ Good S V0 st' ∧
      st'.trace = st.trace ++ [e] ∧ st'.t = st.t ∧ st'.rep = st.rep ∧ st'.regs = st.regs ∧
      IsEv V0 e (.log k) st.t st.rep as [] := by
  have hres' := resolve_some _ _ _ hres
  have has := g.args_ok hres'
  exact ⟨_, logEvent cfg k as st, execS_log g.nbad k guarded args as hres' hg, g.log hR k as has, rfl, rfl,
    rfl, rfl, ⟨rfl, rfl, rfl, g.startVals, rfl, vals_length _ _, rfl, rfl⟩⟩

theorem step_tick {st : State σ V} (g : Good S V0 st) :
    ∃ st', execS ops cfg .tick st = st' ∧ Good S V0 st' ∧ st'.trace = st.trace ∧ st'.t = st.t + 1 ∧
      st'.rep = st.rep ∧ st'.regs = st.regs :=
  ⟨_, execS_tick g.nbad, g.tick, rfl, rfl, rfl, rfl⟩

/-! ### reading a recorded event -/

theorem IsEv.argItems_take {e : Event V} {k : EvKind} {t : Nat} {rp : Int} {as rs : List Ref}
    (h : IsEv V0 e k t rp as rs) (n : Nat) : (e.argItems.take n).map Prod.fst = as.take n := by
  unfold Event.argItems
  rw [items_take, items_fst, h.args]
  simp [h.args, h.argVals]

theorem IsEv.retItems_fst {e : Event V} {k : EvKind} {t : Nat} {rp : Int} {as rs : List Ref}
    (h : IsEv V0 e k t rp as rs) : e.retItems.map Prod.fst = rs := by
  unfold Event.retItems
  rw [items_fst, h.rets]
  rw [h.rets, h.retVals]

theorem IsEv.retItems_length {e : Event V} {k : EvKind} {t : Nat} {rp : Int} {as rs : List Ref}
    (h : IsEv V0 e k t rp as rs) : e.retItems.length = rs.length := by
  unfold Event.retItems
  rw [items_length, h.rets]
  rw [h.rets, h.retVals]

theorem IsEv.evOk {e : Event V} {k : EvKind} {t : Nat} {rp : Int} {as rs : List Ref}
    (h : IsEv V0 e k t rp as rs) : evOk V0 k t e = true := by
  simp [Program.evOk, h.kind, h.t, h.start]

theorem take_append_one {α : Type} (l : List α) (x : α) (n : Nat) (h : l.length = n) :
    (l ++ [x]).take n = l := by
  subst h; simp

/-- assembling the check of one generation from the eight recorded events -/
theorem checkGen_intro (R : Item V → Item V → Bool) (hR : ReflOnRefs R) (t : Nat) (rp : Int)
    (cur c1 c2 c3 c4 : List Ref) (m n1 n4 n7 n10 : Ref)
    (given : List (Item V)) (hgiven : given.map Prod.fst = cur)
    (l0 : cur.length = 5) (l1 : c1.length = 5) (l2 : c2.length = 5) (l3 : c3.length = 5) (l4 : c4.length = 5)
    (e1 e2 e3 e4 e5 e6 e7 e8 : Event V)
    (h1 : IsEv V0 e1 (.op .pselect) t rp (cur ++ [n1]) (m :: c1))
    (h2 : IsEv V0 e2 (.log .pselect) t rp (m :: c1 ++ [n1]) [])
    (h3 : IsEv V0 e3 (.op .mate) t rp (m :: c1 ++ [n4]) c2)
    (h4 : IsEv V0 e4 (.log .mate) t rp (m :: c2 ++ [n4]) [])
    (h5 : IsEv V0 e5 (.op .evaluate) t rp (c2 ++ [n7]) c3)
    (h6 : IsEv V0 e6 (.log .evaluate) t rp (c3 ++ [n7]) [])
    (h7 : IsEv V0 e7 (.op .sselect) t rp (c3 ++ [n10]) c4)
    (h8 : IsEv V0 e8 (.log .sselect) t rp (c4 ++ [n10]) [])
    (rest : List (Event V)) :
    checkGen R V0 t given (e1 :: e2 :: e3 :: e4 :: e5 :: e6 :: e7 :: e8 :: rest) = some (e7.retItems, rest) := by
  have a1 : handed R given (e1.argItems.take 5) = true :=
    handed_of_fst R hR _ _ (by rw [hgiven, h1.argItems_take, take_append_one _ _ _ l0])
  have a2 : handed R e1.retItems (e2.argItems.take 6) = true :=
    handed_of_fst R hR _ _ (by
      rw [h1.retItems_fst, h2.argItems_take, take_append_one _ _ _ (by simp [l1])])
  have a3 : handed R e1.retItems (e3.argItems.take 6) = true :=
    handed_of_fst R hR _ _ (by
      rw [h1.retItems_fst, h3.argItems_take, take_append_one _ _ _ (by simp [l1])])
  have a4 : handed R (e1.retItems.take 1 ++ e3.retItems) (e4.argItems.take 6) = true :=
    handed_of_fst R hR _ _ (by
      rw [List.map_append, List.map_take, h1.retItems_fst, h3.retItems_fst, h4.argItems_take,
        take_append_one _ _ _ (by simp [l2])]
      simp)
  have a5 : handed R e3.retItems (e5.argItems.take 5) = true :=
    handed_of_fst R hR _ _ (by rw [h3.retItems_fst, h5.argItems_take, take_append_one _ _ _ l2])
  have a6 : handed R e5.retItems (e6.argItems.take 5) = true :=
    handed_of_fst R hR _ _ (by rw [h5.retItems_fst, h6.argItems_take, take_append_one _ _ _ l3])
  have a7 : handed R e5.retItems (e7.argItems.take 5) = true :=
    handed_of_fst R hR _ _ (by rw [h5.retItems_fst, h7.argItems_take, take_append_one _ _ _ l3])
  have a8 : handed R e7.retItems (e8.argItems.take 5) = true :=
    handed_of_fst R hR _ _ (by rw [h7.retItems_fst, h8.argItems_take, take_append_one _ _ _ l4])
  have b1 : e1.retItems.length = 6 := by rw [h1.retItems_length]; simp [l1]
  have b3 : e3.retItems.length = 5 := by rw [h3.retItems_length, l2]
  have b5 : e5.retItems.length = 5 := by rw [h5.retItems_length, l3]
  have b7 : e7.retItems.length = 5 := by rw [h7.retItems_length, l4]
  simp only [checkGen, h1.evOk, h2.evOk, h3.evOk, h4.evOk, h5.evOk, h6.evOk, h7.evOk, h8.evOk,
    a1, a2, a3, a4, a5, a6, a7, a8, b1, b3, b5, b7, beq_self_eq_true, Bool.and_self, if_true]

/-! ### one generation -/

theorem five_map_of_ne_misc {regs regs' : Reg → Option Ref} (h : ∀ r, r ≠ Reg.misc → regs' r = regs r) :
    five.map regs' = five.map regs :=
  List.map_congr_left (fun x hx => h x (fun e => misc_not_five (e ▸ hx)))

theorem five_map_of_not_mem {regs regs' : Reg → Option Ref} {rets : List Reg}
    (h : ∀ r, r ∉ rets → regs' r = regs r) (hd : ∀ x ∈ five, x ∉ rets) :
    five.map regs' = five.map regs :=
  List.map_congr_left (fun x hx => h x (hd x hx))

theorem execR_eq_execS (sc : Schedule) (s : Stmt) (h : s ≠ .callReset) (st : State σ V) :
    execR ops cfg sc s st = execS ops cfg s st := by
  cases s <;> first | rfl | exact absurd rfl h

/-- what one pass through the body of `advance`'s loop does -/
theorem gen_spec (hR : Respects S ops) {st : State σ V} (g : Good S V0 st) (cur : List Ref)
    (hcur : five.map st.regs = cur.map some) (l0 : cur.length = 5) :
    ∃ (st' : State σ V) (es : List (Event V)) (cur' : List Ref) (out : List (Item V)),
      execList (execR ops cfg canonical) canonical.advanceGen st = st' ∧ Good S V0 st' ∧
      st'.trace = st.trace ++ es ∧ st'.t = st.t + 1 ∧ st'.rep = st.rep ∧
      five.map st'.regs = cur'.map some ∧ cur'.length = 5 ∧ out.map Prod.fst = cur' ∧
      es.length = 8 ∧ (∀ e ∈ es, e.rep = st.rep ∧ e.kind ≠ .log .initialize ∧ e.kind ≠ .init) ∧
      ∀ (R : Item V → Item V → Bool), ReflOnRefs R → ∀ (given : List (Item V)) (rest : List (Event V)),
        given.map Prod.fst = cur → checkGen R V0 st.t given (es ++ rest) = some (out, rest) := by
  have hE : execList (execR ops cfg canonical) canonical.advanceGen st =
      execS ops cfg .tick
       (execS ops cfg (.log .sselect false (five ++ [.misc]))
       (execS ops cfg (.call .sselect (five ++ [.misc]) five)
       (execS ops cfg .newMisc
       (execS ops cfg (.log .evaluate false (five ++ [.misc]))
       (execS ops cfg (.call .evaluate (five ++ [.misc]) five)
       (execS ops cfg .newMisc
       (execS ops cfg (.log .mate false (.mcfg :: five ++ [.misc]))
       (execS ops cfg (.call .mate (.mcfg :: five ++ [.misc]) five)
       (execS ops cfg .newMisc
       (execS ops cfg (.log .pselect false (.mcfg :: five ++ [.misc]))
       (execS ops cfg (.call .pselect (five ++ [.misc]) (.mcfg :: five))
       (execS ops cfg .newMisc st)))))))))))) := rfl
  -- pselect
  obtain ⟨s1, n1, q1, g1, tr1, t1, rp1, hm1, ho1⟩ := step_newMisc (ops := ops) (cfg := cfg) g
  have f1 : five.map s1.regs = cur.map some := (five_map_of_ne_misc ho1).trans hcur
  obtain ⟨s2, e1, rs1, q2, g2, tr2, t2, rp2, hr2, ho2, hl2, ev1⟩ :=
    step_call (cfg := cfg) g1 hR .pselect (five ++ [.misc]) (.mcfg :: five) (cur ++ [n1])
      (by simp only [List.map_append, f1, List.map_cons, List.map_nil, hm1]) mcfg_five_nodup rfl
  cases rs1 with
  | nil => simp at hl2
  | cons m c1 =>
  have l1 : c1.length = 5 := by simpa [five] using hl2
  simp only [List.map_cons, List.cons.injEq] at hr2
  obtain ⟨hmc2, f2⟩ := hr2
  have hm2 : s2.regs .misc = some n1 := (ho2 .misc (by decide)).trans hm1
  obtain ⟨s3, e2, q3, g3, tr3, t3, rp3, hr3, ev2⟩ :=
    step_log (cfg := cfg) g2 hR .pselect false (.mcfg :: five ++ [.misc]) (m :: c1 ++ [n1])
      (by simp only [List.map_append, List.map_cons, List.map_nil, hmc2, f2, hm2]) rfl
  -- mate
  obtain ⟨s4, n4, q4, g4, tr4, t4, rp4, hm4, ho4⟩ := step_newMisc (ops := ops) (cfg := cfg) g3
  have f4 : five.map s4.regs = c1.map some := by rw [five_map_of_ne_misc ho4, hr3, f2]
  have hmc4 : s4.regs .mcfg = some m := by rw [ho4 .mcfg (by decide), hr3, hmc2]
  obtain ⟨s5, e3, c2, q5, g5, tr5, t5, rp5, f5, ho5, l2, ev3⟩ :=
    step_call (cfg := cfg) g4 hR .mate (.mcfg :: five ++ [.misc]) five (m :: c1 ++ [n4])
      (by simp only [List.map_append, List.map_cons, List.map_nil, hmc4, f4, hm4]) five_nodup rfl
  have hmc5 : s5.regs .mcfg = some m := (ho5 .mcfg mcfg_not_five).trans hmc4
  have hm5 : s5.regs .misc = some n4 := (ho5 .misc misc_not_five).trans hm4
  obtain ⟨s6, e4, q6, g6, tr6, t6, rp6, hr6, ev4⟩ :=
    step_log (cfg := cfg) g5 hR .mate false (.mcfg :: five ++ [.misc]) (m :: c2 ++ [n4])
      (by simp only [List.map_append, List.map_cons, List.map_nil, hmc5, f5, hm5]) rfl
  -- evaluate
  obtain ⟨s7, n7, q7, g7, tr7, t7, rp7, hm7, ho7⟩ := step_newMisc (ops := ops) (cfg := cfg) g6
  have f7 : five.map s7.regs = c2.map some := by rw [five_map_of_ne_misc ho7, hr6, f5]
  obtain ⟨s8, e5, c3, q8, g8, tr8, t8, rp8, f8, ho8, l3, ev5⟩ :=
    step_call (cfg := cfg) g7 hR .evaluate (five ++ [.misc]) five (c2 ++ [n7])
      (by simp only [List.map_append, List.map_cons, List.map_nil, f7, hm7]) five_nodup rfl
  have hm8 : s8.regs .misc = some n7 := (ho8 .misc misc_not_five).trans hm7
  obtain ⟨s9, e6, q9, g9, tr9, t9, rp9, hr9, ev6⟩ :=
    step_log (cfg := cfg) g8 hR .evaluate false (five ++ [.misc]) (c3 ++ [n7])
      (by simp only [List.map_append, List.map_cons, List.map_nil, f8, hm8]) rfl
  -- sselect
  obtain ⟨s10, n10, q10, g10, tr10, t10, rp10, hm10, ho10⟩ := step_newMisc (ops := ops) (cfg := cfg) g9
  have f10 : five.map s10.regs = c3.map some := by rw [five_map_of_ne_misc ho10, hr9, f8]
  obtain ⟨s11, e7, c4, q11, g11, tr11, t11, rp11, f11, ho11, l4, ev7⟩ :=
    step_call (cfg := cfg) g10 hR .sselect (five ++ [.misc]) five (c3 ++ [n10])
      (by simp only [List.map_append, List.map_cons, List.map_nil, f10, hm10]) five_nodup rfl
  have hm11 : s11.regs .misc = some n10 := (ho11 .misc misc_not_five).trans hm10
  obtain ⟨s12, e8, q12, g12, tr12, t12, rp12, hr12, ev8⟩ :=
    step_log (cfg := cfg) g11 hR .sselect false (five ++ [.misc]) (c4 ++ [n10])
      (by simp only [List.map_append, List.map_cons, List.map_nil, f11, hm11]) rfl
  obtain ⟨s13, q13, g13, tr13, t13, rp13, hr13⟩ := step_tick (ops := ops) (cfg := cfg) g12
  rw [q1, q2, q3, q4, q5, q6, q7, q8, q9, q10, q11, q12, q13] at hE
  -- all clocks and replicate counters equal those of `st`
  have T2 : s1.t = st.t := t1
  have T3 : s2.t = st.t := t2.trans T2
  have T4 : s3.t = st.t := t3.trans T3
  have T5 : s4.t = st.t := t4.trans T4
  have T6 : s5.t = st.t := t5.trans T5
  have T7 : s6.t = st.t := t6.trans T6
  have T8 : s7.t = st.t := t7.trans T7
  have T9 : s8.t = st.t := t8.trans T8
  have T10 : s9.t = st.t := t9.trans T9
  have T11 : s10.t = st.t := t10.trans T10
  have T12 : s11.t = st.t := t11.trans T11
  have T13 : s12.t = st.t := t12.trans T12
  have P2 : s1.rep = st.rep := rp1
  have P3 : s2.rep = st.rep := rp2.trans P2
  have P4 : s3.rep = st.rep := rp3.trans P3
  have P5 : s4.rep = st.rep := rp4.trans P4
  have P6 : s5.rep = st.rep := rp5.trans P5
  have P7 : s6.rep = st.rep := rp6.trans P6
  have P8 : s7.rep = st.rep := rp7.trans P7
  have P9 : s8.rep = st.rep := rp8.trans P8
  have P10 : s9.rep = st.rep := rp9.trans P9
  have P11 : s10.rep = st.rep := rp10.trans P10
  have P12 : s11.rep = st.rep := rp11.trans P11
  have P13 : s12.rep = st.rep := rp12.trans P12
  rw [T2, P2] at ev1
  rw [T3, P3] at ev2
  rw [T5, P5] at ev3
  rw [T6, P6] at ev4
  rw [T8, P8] at ev5
  rw [T9, P9] at ev6
  rw [T11, P11] at ev7
  rw [T12, P12] at ev8
  have l2' : c2.length = 5 := l2
  have l3' : c3.length = 5 := l3
  have l4' : c4.length = 5 := l4
  refine ⟨s13, [e1, e2, e3, e4, e5, e6, e7, e8], c4, e7.retItems, hE, g13, ?_, ?_, ?_, ?_, l4', ev7.retItems_fst,
    rfl, ?_, ?_⟩
  · rw [tr13, tr12, tr11, tr10, tr9, tr8, tr7, tr6, tr5, tr4, tr3, tr2, tr1]
    simp
  · rw [t13, T13]
  · rw [rp13, P13]
  · rw [hr13, hr12, f11]
  · intro e he
    simp only [List.mem_cons, List.not_mem_nil, or_false] at he
    rcases he with rfl | rfl | rfl | rfl | rfl | rfl | rfl | rfl
    · exact ⟨ev1.rep, by rw [ev1.kind]; decide, by rw [ev1.kind]; decide⟩
    · exact ⟨ev2.rep, by rw [ev2.kind]; decide, by rw [ev2.kind]; decide⟩
    · exact ⟨ev3.rep, by rw [ev3.kind]; decide, by rw [ev3.kind]; decide⟩
    · exact ⟨ev4.rep, by rw [ev4.kind]; decide, by rw [ev4.kind]; decide⟩
    · exact ⟨ev5.rep, by rw [ev5.kind]; decide, by rw [ev5.kind]; decide⟩
    · exact ⟨ev6.rep, by rw [ev6.kind]; decide, by rw [ev6.kind]; decide⟩
    · exact ⟨ev7.rep, by rw [ev7.kind]; decide, by rw [ev7.kind]; decide⟩
    · exact ⟨ev8.rep, by rw [ev8.kind]; decide, by rw [ev8.kind]; decide⟩
  · intro R hRR given rest hgiven
    exact checkGen_intro R hRR st.t st.rep cur c1 c2 c3 c4 m n1 n4 n7 n10 given hgiven l0 l1 l2' l3' l4'
      e1 e2 e3 e4 e5 e6 e7 e8 ev1 ev2 ev3 ev4 ev5 ev6 ev7 ev8 rest

/-! ### the generation loop -/

theorem gens_spec (hR : Respects S ops) (n : Nat) :
    ∀ {st : State σ V}, Good S V0 st → ∀ (cur : List Ref), five.map st.regs = cur.map some → cur.length = 5 →
    ∃ (st' : State σ V) (es : List (Event V)),
      iter (execList (execR ops cfg canonical) canonical.advanceGen) n st = st' ∧ Good S V0 st' ∧
      st'.trace = st.trace ++ es ∧ st'.t = st.t + n ∧ st'.rep = st.rep ∧ es.length = 8 * n ∧
      (∀ e ∈ es, e.rep = st.rep ∧ e.kind ≠ .log .initialize ∧ e.kind ≠ .init) ∧
      ∀ (R : Item V → Item V → Bool), ReflOnRefs R → ∀ (given : List (Item V)) (rest : List (Event V)),
        given.map Prod.fst = cur → checkGens R V0 n st.t given (es ++ rest) = some rest := by
  induction n with
  | zero =>
    intro st g cur _ _
    exact ⟨st, [], rfl, g, by simp, rfl, rfl, rfl, by simp, fun R _ given rest _ => by simp [checkGens]⟩
  | succ n ih =>
    intro st g cur hcur l0
    obtain ⟨s1, es1, cur1, out1, q1, g1, tr1, t1, rp1, f1, l1, ho1, len1, all1, chk1⟩ :=
      gen_spec (cfg := cfg) hR g cur hcur l0
    obtain ⟨s2, es2, q2, g2, tr2, t2, rp2, len2, all2, chk2⟩ := ih g1 cur1 f1 l1
    refine ⟨s2, es1 ++ es2, ?_, g2, ?_, ?_, ?_, ?_, ?_, ?_⟩
    · show iter _ n (execList (execR ops cfg canonical) canonical.advanceGen st) = s2
      rw [q1, q2]
    · rw [tr2, tr1, List.append_assoc]
    · rw [t2, t1]; omega
    · rw [rp2, rp1]
    · rw [List.length_append, len1, len2]; omega
    · intro e he
      rcases List.mem_append.mp he with h | h
      · exact all1 e h
      · have := all2 e h
        rw [rp1] at this
        exact this
    · intro R hRR given rest hgiven
      rw [List.append_assoc]
      simp only [checkGens, chk1 R hRR given (es2 ++ rest) hgiven]
      have := chk2 R hRR out1 rest ho1
      rw [t1] at this
      exact this

/-! ### `reset` -/

theorem step_copy {st : State σ V} (g : Good S V0 st) (dst : Reg) (i : Nat) (hi : i < S.length) :
    ∃ (st' : State σ V) (v : V), execS ops cfg (.copyStart dst i) st = st' ∧ Good S V0 st' ∧
      st'.trace = st.trace ∧ st'.t = st.t ∧ st'.rep = st.rep ∧ st'.regs dst = some st.heap.length ∧
      (∀ r, r ≠ dst → st'.regs r = st.regs r) ∧ st'.heap = st.heap ++ [v] ∧ V0[i]? = some (some v) := by
  obtain ⟨v, hv, q⟩ := execS_copyStart (ops := ops) (cfg := cfg) g dst i hi
  refine ⟨_, v, q, g.alloc v dst, rfl, rfl, rfl, ?_, ?_, rfl, hv⟩
  · exact setReg_same st.regs dst (some st.heap.length)
  · intro r hr; exact setReg_other st.regs dst r (some st.heap.length) hr

theorem reset_spec (hS : S.length = 5) {st : State σ V} (g : Good S V0 st) :
    ∃ (st' : State σ V) (cur : List Ref), execList (execS ops cfg) canonical.reset st = st' ∧ Good S V0 st' ∧
      st'.trace = st.trace ∧ st'.t = 0 ∧ st'.rep = st.rep ∧ five.map st'.regs = cur.map some ∧
      cur.length = 5 ∧ vals st'.heap cur = V0 := by
  have hE : execList (execS ops cfg) canonical.reset st =
      execS ops cfg .resetT (execS ops cfg (.copyStart .gmod 4) (execS ops cfg (.copyStart .bval 3)
        (execS ops cfg (.copyStart .pheno 2) (execS ops cfg (.copyStart .geno 1)
          (execS ops cfg (.copyStart .genome 0) st))))) := rfl
  obtain ⟨s1, v0, q1, g1, tr1, _, rp1, r1, o1, h1, w0⟩ := step_copy (ops := ops) (cfg := cfg) g .genome 0 (by omega)
  obtain ⟨s2, v1, q2, g2, tr2, _, rp2, r2, o2, h2, w1⟩ := step_copy (ops := ops) (cfg := cfg) g1 .geno 1 (by omega)
  obtain ⟨s3, v2, q3, g3, tr3, _, rp3, r3, o3, h3, w2⟩ := step_copy (ops := ops) (cfg := cfg) g2 .pheno 2 (by omega)
  obtain ⟨s4, v3, q4, g4, tr4, _, rp4, r4, o4, h4, w3⟩ := step_copy (ops := ops) (cfg := cfg) g3 .bval 3 (by omega)
  obtain ⟨s5, v4, q5, g5, tr5, _, rp5, r5, o5, h5, w4⟩ := step_copy (ops := ops) (cfg := cfg) g4 .gmod 4 (by omega)
  rw [q1, q2, q3, q4, q5, execS_resetT g5.nbad] at hE
  have hV0 : V0 = [some v0, some v1, some v2, some v3, some v4] := by
    have hl : V0.length = 5 := by rw [← g.svals, vals_length, hS]
    match V0, hl, w0, w1, w2, w3, w4 with
    | [a, b, c, d, e], _, w0, w1, w2, w3, w4 =>
      simp only [List.getElem?_cons_zero, List.getElem?_cons_succ, Option.some.injEq] at w0 w1 w2 w3 w4
      subst w0 w1 w2 w3 w4
      rfl
  have hheap : s5.heap = st.heap ++ [v0, v1, v2, v3, v4] := by
    rw [h5, h4, h3, h2, h1]; simp
  refine ⟨_, [st.heap.length, st.heap.length + 1, st.heap.length + 2, st.heap.length + 3, st.heap.length + 4],
    hE, g5.resetT, ?_, rfl, ?_, ?_, rfl, ?_⟩
  · show s5.trace = st.trace
    rw [tr5, tr4, tr3, tr2, tr1]
  · show s5.rep = st.rep
    rw [rp5, rp4, rp3, rp2, rp1]
  · show five.map s5.regs = _
    have e1 : s5.regs .genome = some st.heap.length := by
      rw [o5 _ (by decide), o4 _ (by decide), o3 _ (by decide), o2 _ (by decide), r1]
    have e2 : s5.regs .geno = some (st.heap.length + 1) := by
      rw [o5 _ (by decide), o4 _ (by decide), o3 _ (by decide), r2, h1]; simp
    have e3 : s5.regs .pheno = some (st.heap.length + 2) := by
      rw [o5 _ (by decide), o4 _ (by decide), r3, h2, h1]; simp
    have e4 : s5.regs .bval = some (st.heap.length + 3) := by
      rw [o5 _ (by decide), r4, h3, h2, h1]; simp
    have e5 : s5.regs .gmod = some (st.heap.length + 4) := by
      rw [r5, h4, h3, h2, h1]; simp
    simp [five, e1, e2, e3, e4, e5]
  · show vals s5.heap _ = V0
    rw [hheap, hV0]
    simp [vals]

/-! ### one replicate -/

theorem Good.held_valid {st : State σ V} (g : Good S V0 st) {rl : List Reg} {cur : List Ref}
    (h : rl.map st.regs = cur.map some) : ∀ a ∈ cur, a < st.heap.length := by
  intro a ha
  have : some a ∈ rl.map st.regs := by rw [h]; exact List.mem_map.mpr ⟨a, ha, rfl⟩
  obtain ⟨r, _, hr⟩ := List.mem_map.mp this
  exact (g.regs r a hr).1

theorem step_newMisc' {st : State σ V} (g : Good S V0 st) :
    ∃ st' n, execS ops cfg .newMisc st = st' ∧ Good S V0 st' ∧ st'.trace = st.trace ∧ st'.t = st.t ∧
      st'.rep = st.rep ∧ st'.regs .misc = some n ∧ (∀ r, r ≠ Reg.misc → st'.regs r = st.regs r) ∧
      (∀ rs : List Ref, (∀ a ∈ rs, a < st.heap.length) → vals st'.heap rs = vals st.heap rs) := by
  refine ⟨_, st.heap.length, execS_newMisc g.nbad, g.alloc _ _, rfl, rfl, rfl, ?_, ?_, ?_⟩
  · exact setReg_same st.regs Reg.misc (some st.heap.length)
  · intro r hr; exact setReg_other st.regs Reg.misc r (some st.heap.length) hr
  · intro rs hrs; exact vals_grow _ _ _ hrs

theorem step_call' {st : State σ V} (g : Good S V0 st) (hR : Respects S ops) (k : OpK)
    (args rets : List Reg) (as : List Ref) (hres : args.map st.regs = as.map some)
    (hnd : rets.Nodup) (har : rets.length = arity k) :
    ∃ st' e rs, execS ops cfg (.call k args rets) st = st' ∧ Good S V0 st' ∧
      st'.trace = st.trace ++ [e] ∧ st'.t = st.t ∧ st'.rep = st.rep ∧
      rets.map st'.regs = rs.map some ∧ (∀ r, r ∉ rets → st'.regs r = st.regs r) ∧
      rs.length = rets.length ∧ IsEv V0 e (.op k) st.t st.rep as rs ∧ e.argVals = vals st.heap as := by
  have hres' := resolve_some _ _ _ hres
  have has := g.args_ok hres'
  obtain ⟨_, _, _, h4⟩ := hR.op k st.ost st.heap as st.t cfg.tmax g.svalid has
  have hlen : (ops.op k st.ost st.heap as st.t cfg.tmax).2.2.length = rets.length := by rw [h4, har]
  refine ⟨_, callEvent ops cfg k as st, (ops.op k st.ost st.heap as st.t cfg.tmax).2.2,
    execS_call g.nbad k args rets as hres' hlen, g.call hR k rets as has, rfl, rfl, rfl, ?_, ?_, hlen, ?_, rfl⟩
  · exact map_assign_same _ _ _ hnd hlen.symm
  · intro r hr; exact assign_other r _ _ _ hr
  · exact ⟨rfl, rfl, rfl, g.startVals, rfl, vals_length _ _, rfl, vals_length _ _⟩

theorem execE_callReset {st : State σ V} (hb : st.bad = false) :
    execE ops cfg canonical .callReset st = execList (execS ops cfg) canonical.reset st := by
  simp [execE, execR, hb]

theorem execE_callAdvance {st : State σ V} (hb : st.bad = false) :
    execE ops cfg canonical .callAdvance st =
      iter (execList (execR ops cfg canonical) canonical.advanceGen) cfg.ngen st := by
  simp [execE, advance, hb, canonical, execList]

/-- number of events of one replicate -/
def repLen (loginit : Bool) (ngen : Nat) : Nat := 1 + (if loginit then 1 else 0) + 8 * ngen

theorem rep_spec (hS : S.length = 5) (hR : Respects S ops) {st : State σ V} (g : Good S V0 st) :
    ∃ (st' : State σ V) (es : List (Event V)),
      execList (execE ops cfg canonical) canonical.evolveRep st = st' ∧ Good S V0 st' ∧
      st'.trace = st.trace ++ es ∧ st'.rep = st.rep + 1 ∧ es.length = repLen cfg.loginit cfg.ngen ∧
      (∀ e ∈ es, e.rep = st.rep + 1 ∧ (cfg.loginit = false → e.kind ≠ .log .initialize) ∧ e.kind ≠ .init) ∧
      ∀ (R : Item V → Item V → Bool), ReflOnRefs R → ∀ (rest : List (Event V)),
        checkRep R V0 cfg.loginit cfg.ngen (es ++ rest) = some rest := by
  have hE : execList (execE ops cfg canonical) canonical.evolveRep st =
      execE ops cfg canonical .callAdvance
       (execS ops cfg .tick
       (execS ops cfg (.log .initialize true (five ++ [.misc]))
       (execS ops cfg (.call .evaluate (five ++ [.misc]) five)
       (execS ops cfg .newMisc
       (execE ops cfg canonical .callReset
       (execS ops cfg .incRep st)))))) := rfl
  rw [execS_incRep g.nbad] at hE
  have g0 := g.incRep
  rw [execE_callReset g0.nbad] at hE
  obtain ⟨s1, cur, q1, g1, tr1, t1, rp1, f1, l0, hv1⟩ := reset_spec (ops := ops) (cfg := cfg) hS g0
  obtain ⟨s2, n2, q2, g2, tr2, t2, rp2, hm2, ho2, hvals2⟩ := step_newMisc' (ops := ops) (cfg := cfg) g1
  have f2 : five.map s2.regs = cur.map some := (five_map_of_ne_misc ho2).trans f1
  obtain ⟨s3, e0, c0, q3, g3, tr3, t3, rp3, f3, ho3, lc0, ev0, av0⟩ :=
    step_call' (cfg := cfg) g2 hR .evaluate (five ++ [.misc]) five (cur ++ [n2])
      (by simp only [List.map_append, List.map_cons, List.map_nil, f2, hm2]) five_nodup rfl
  have lc0' : c0.length = 5 := lc0
  have hm3 : s3.regs .misc = some n2 := (ho3 .misc misc_not_five).trans hm2
  have T2 : s2.t = 0 := t2.trans t1
  have T3 : s3.t = 0 := t3.trans T2
  have P1 : s1.rep = st.rep + 1 := rp1
  have P2 : s2.rep = st.rep + 1 := rp2.trans P1
  have P3 : s3.rep = st.rep + 1 := rp3.trans P2
  rw [T2, P2] at ev0
  have hav : e0.argVals.take 5 = V0 := by
    rw [av0, vals_append, List.take_left' (by rw [vals_length, l0]), hvals2 cur (g1.held_valid f1), hv1]
  have hV0len : V0.length = 5 := by rw [← g.svals, vals_length, hS]
  have head_ok : (evOk V0 (.op .evaluate) 0 e0 && e0.argVals.take 5 == V0 && e0.retItems.length == 5) = true := by
    simp [ev0.evOk, hav, ev0.retItems_length, lc0']
  rw [q1, q2, q3] at hE
  cases hli : cfg.loginit with
  | true =>
    obtain ⟨s4, e1, q4, g4, tr4, t4, rp4, hr4, ev1⟩ :=
      step_log (cfg := cfg) g3 hR .initialize true (five ++ [.misc]) (c0 ++ [n2])
        (by simp only [List.map_append, List.map_cons, List.map_nil, f3, hm3]) (by simp [hli])
    rw [T3, P3] at ev1
    obtain ⟨s5, q5, g5, tr5, t5, rp5, hr5⟩ := step_tick (ops := ops) (cfg := cfg) g4
    have f5 : five.map s5.regs = c0.map some := by rw [hr5, hr4, f3]
    have T5 : s5.t = 1 := by rw [t5, t4, T3]
    have P5 : s5.rep = st.rep + 1 := by rw [rp5, rp4, P3]
    obtain ⟨s6, es, q6, g6, tr6, _, rp6, len6, all6, chk6⟩ := gens_spec (cfg := cfg) hR cfg.ngen g5 c0 f5 lc0'
    rw [q4, q5, execE_callAdvance g5.nbad, q6] at hE
    refine ⟨s6, e0 :: e1 :: es, hE, g6, ?_, ?_, ?_, ?_, ?_⟩
    · rw [tr6, tr5, tr4, tr3, tr2, tr1]; simp
    · rw [rp6, P5]
    · simp [repLen, len6]; omega
    · intro e he
      simp only [List.mem_cons] at he
      rcases he with rfl | rfl | he
      · exact ⟨ev0.rep, fun h => by simp at h, by rw [ev0.kind]; decide⟩
      · exact ⟨ev1.rep, fun h => by simp at h, by rw [ev1.kind]; decide⟩
      · have := all6 e he
        rw [P5] at this
        exact ⟨this.1, fun _ => this.2.1, this.2.2⟩
    · intro R hRR rest
      have hh : handed R e0.retItems (e1.argItems.take 5) = true :=
        handed_of_fst R hRR _ _ (by rw [ev0.retItems_fst, ev1.argItems_take, take_append_one _ _ _ lc0'])
      have := chk6 R hRR e0.retItems rest ev0.retItems_fst
      rw [T5] at this
      simp only [List.cons_append, checkRep, head_ok, if_true, ev1.evOk, hh, Bool.and_self, this]
  | false =>
    rw [execS_log_off _ _ hli] at hE
    obtain ⟨s5, q5, g5, tr5, t5, rp5, hr5⟩ := step_tick (ops := ops) (cfg := cfg) g3
    have f5 : five.map s5.regs = c0.map some := by rw [hr5, f3]
    have T5 : s5.t = 1 := by rw [t5, T3]
    have P5 : s5.rep = st.rep + 1 := by rw [rp5, P3]
    obtain ⟨s6, es, q6, g6, tr6, _, rp6, len6, all6, chk6⟩ := gens_spec (cfg := cfg) hR cfg.ngen g5 c0 f5 lc0'
    rw [q5, execE_callAdvance g5.nbad, q6] at hE
    refine ⟨s6, e0 :: es, hE, g6, ?_, ?_, ?_, ?_, ?_⟩
    · rw [tr6, tr5, tr3, tr2, tr1]; simp
    · rw [rp6, P5]
    · simp [repLen, len6]; omega
    · intro e he
      simp only [List.mem_cons] at he
      rcases he with rfl | he
      · exact ⟨ev0.rep, fun _ => by rw [ev0.kind]; decide, by rw [ev0.kind]; decide⟩
      · have := all6 e he
        rw [P5] at this
        exact ⟨this.1, fun _ => this.2.1, this.2.2⟩
    · intro R hRR rest
      have := chk6 R hRR e0.retItems rest ev0.retItems_fst
      rw [T5] at this
      simp only [List.cons_append, checkRep, head_ok, if_true, this]
      simp

end
end Program
