/-
Helper lemmas for C20: from the dataflow conditions of `WellFormed` (on tokens) to the Spec of the
recorded trace (on references): one generation, the generation loop.
-/
import PybropsModel.Lemmas.ProgramSymSound
set_option autoImplicit false
set_option linter.unusedSectionVars false
set_option linter.unusedVariables false

namespace Program
section
variable {σ V : Type} [DecidableEq V]
variable {I : σ → Heap (Cell V) → Prop} {S : List Ref} {V0 : List (Option (View V))} {ops : Ops σ V} {cfg : Cfg V}

/-! ### reading a recorded event -/

theorem argItems_take_fst (e : Event (View V)) (hl : e.argVals.length = e.args.length) (n : Nat) :
    (e.argItems.take n).map Prod.fst = e.args.take n := by
  unfold Event.argItems
  rw [items_take, items_fst]
  simp [hl]

theorem retItems_fst (e : Event (View V)) (hl : e.retVals.length = e.rets.length) :
    e.retItems.map Prod.fst = e.rets := by
  unfold Event.retItems
  rw [items_fst]
  rw [hl]

theorem retItems_length (e : Event (View V)) (hl : e.retVals.length = e.rets.length) :
    e.retItems.length = e.rets.length := by
  unfold Event.retItems
  rw [items_length]
  rw [hl]

/-- assembling the check of one generation from the eight recorded events -/
theorem checkGen_intro (R : Item (View V) → Item (View V) → Bool) (hR : ReflOnRefs R) (t : Nat)
    (given : List (Item (View V))) (cur : List Ref) (hgiven : given.map Prod.fst = cur)
    (c1 c2 c3 c4 c5 c6 c7 c8 : Event (View V))
    (k1 : evOk V0 (.op .pselect) t c1 = true) (k2 : evOk V0 (.log .pselect) t c2 = true)
    (k3 : evOk V0 (.op .mate) t c3 = true) (k4 : evOk V0 (.log .mate) t c4 = true)
    (k5 : evOk V0 (.op .evaluate) t c5 = true) (k6 : evOk V0 (.log .evaluate) t c6 = true)
    (k7 : evOk V0 (.op .sselect) t c7 = true) (k8 : evOk V0 (.log .sselect) t c8 = true)
    (v1 : c1.argVals.length = c1.args.length) (v2 : c2.argVals.length = c2.args.length)
    (v3 : c3.argVals.length = c3.args.length) (v4 : c4.argVals.length = c4.args.length)
    (v5 : c5.argVals.length = c5.args.length) (v6 : c6.argVals.length = c6.args.length)
    (v7 : c7.argVals.length = c7.args.length) (v8 : c8.argVals.length = c8.args.length)
    (r1 : c1.retVals.length = c1.rets.length) (r3 : c3.retVals.length = c3.rets.length)
    (r5 : c5.retVals.length = c5.rets.length) (r7 : c7.retVals.length = c7.rets.length)
    (a1 : c1.args.take 5 = cur) (a2 : c2.args.take 6 = c1.rets) (a3 : c3.args.take 6 = c1.rets)
    (a4 : c4.args.take 6 = c1.rets.take 1 ++ c3.rets) (a5 : c5.args.take 5 = c3.rets)
    (a6 : c6.args.take 5 = c5.rets) (a7 : c7.args.take 5 = c5.rets) (a8 : c8.args.take 5 = c7.rets)
    (l1 : c1.rets.length = 6) (l3 : c3.rets.length = 5) (l5 : c5.rets.length = 5) (l7 : c7.rets.length = 5)
    (rest : List (Event (View V))) :
    checkGen R V0 t given (c1 :: c2 :: c3 :: c4 :: c5 :: c6 :: c7 :: c8 :: rest) = some (c7.retItems, rest) := by
  have h1 : handed R given (c1.argItems.take 5) = true :=
    handed_of_fst R hR _ _ (by rw [hgiven, argItems_take_fst _ v1, a1])
  have h2 : handed R c1.retItems (c2.argItems.take 6) = true :=
    handed_of_fst R hR _ _ (by rw [retItems_fst _ r1, argItems_take_fst _ v2, a2])
  have h3 : handed R c1.retItems (c3.argItems.take 6) = true :=
    handed_of_fst R hR _ _ (by rw [retItems_fst _ r1, argItems_take_fst _ v3, a3])
  have h4 : handed R (c1.retItems.take 1 ++ c3.retItems) (c4.argItems.take 6) = true :=
    handed_of_fst R hR _ _ (by
      rw [List.map_append, List.map_take, retItems_fst _ r1, retItems_fst _ r3, argItems_take_fst _ v4, a4])
  have h5 : handed R c3.retItems (c5.argItems.take 5) = true :=
    handed_of_fst R hR _ _ (by rw [retItems_fst _ r3, argItems_take_fst _ v5, a5])
  have h6 : handed R c5.retItems (c6.argItems.take 5) = true :=
    handed_of_fst R hR _ _ (by rw [retItems_fst _ r5, argItems_take_fst _ v6, a6])
  have h7 : handed R c5.retItems (c7.argItems.take 5) = true :=
    handed_of_fst R hR _ _ (by rw [retItems_fst _ r5, argItems_take_fst _ v7, a7])
  have h8 : handed R c7.retItems (c8.argItems.take 5) = true :=
    handed_of_fst R hR _ _ (by rw [retItems_fst _ r7, argItems_take_fst _ v8, a8])
  have b1 : c1.retItems.length = 6 := by rw [retItems_length _ r1, l1]
  have b3 : c3.retItems.length = 5 := by rw [retItems_length _ r3, l3]
  have b5 : c5.retItems.length = 5 := by rw [retItems_length _ r5, l5]
  have b7 : c7.retItems.length = 5 := by rw [retItems_length _ r7, l7]
  simp only [checkGen, k1, k2, k3, k4, k5, k6, k7, k8, h1, h2, h3, h4, h5, h6, h7, h8, b1, b3, b5, b7,
    beq_self_eq_true, Bool.and_self, if_true]

/-! ### from a predicted call to the recorded call -/

variable {ρ : List Ref} {base : Nat} {rep0 : Int}

theorem EvMatch.evOk_rel0 {se : SEv} {ce : Event (View V)} (h : EvMatch V0 ρ base rep0 se ce) {k : EvKind} {n : Nat}
    (hs : sevOk k (.rel 0) n se = true) : evOk V0 k base ce = true ∧ ce.rep = rep0 + n := by
  simp only [sevOk, Bool.and_eq_true, beq_iff_eq, Bool.not_eq_true'] at hs
  obtain ⟨⟨⟨hk, ht⟩, hr⟩, _⟩ := hs
  have := h.t
  rw [ht] at this
  simp only [TRel, Nat.add_zero] at this
  refine ⟨by simp [evOk, h.kind, hk, this, h.start], by rw [h.rep, hr]⟩

/-- equal token lists on the analysis side give equal reference lists on the recorded side -/
theorem wire {toks1 toks2 : List Tok} {xs ys : List Ref} (h1 : tokRefs ρ toks1 xs) (h2 : tokRefs ρ toks2 ys)
    (e : toks2 = toks1) : ys = xs := by
  subst e; exact tokRefs_inj h2 h1

theorem entry_tokRefs (cur : List Ref) (h : cur.length = 5) : tokRefs cur entryToks cur := by
  match cur, h with
  | [a, b, c, d, e], _ => simp [tokRefs, entryToks]

theorem assign_self : ∀ (rl : List Reg) (xs : List Ref) (regs : Reg → Option Ref), rl.Nodup →
    rl.map regs = xs.map some → ∀ r, assign regs rl xs r = regs r
  | [], _, _, _, _, _ => by simp [assign]
  | _ :: _, [], _, _, h, _ => by simp at h
  | d :: rl, x :: xs, regs, hnd, h, r => by
    simp only [List.nodup_cons] at hnd
    simp only [List.map_cons, List.cons.injEq] at h
    rw [assign]
    have hset : ∀ y, setReg regs d (some x) y = regs y := by
      intro y
      by_cases e : y = d
      · subst e; rw [setReg_same]; exact h.1.symm
      · exact setReg_other _ _ _ _ e
    rw [assign_self rl xs (setReg regs d (some x)) hnd.2 (by
      rw [← h.2]; exact List.map_congr_left (fun y _ => hset y)) r]
    exact hset r

/-- the related pair at the top of the body of `advance`'s loop -/
theorem genEntry_conc {st : State σ V} (cur : List Ref) (hcur : five.map st.regs = cur.map some)
    (l0 : cur.length = 5) :
    Conc cfg.depth V0 cfg.loginit cur st.t st.rep st.trace genEntry st := by
  refine ⟨by simp [genEntry, l0], ?_, by simp [TRel, genEntry], by simp [genEntry], ?_, ⟨[], by simp, ?_⟩⟩
  · have hbase : RegRel cur (fun _ => none) st.regs := by intro r tok h; cases h
    have := RegRel.assign five entryToks cur hbase (entry_tokRefs cur l0)
    intro r tok hr
    obtain ⟨x, h1, h2⟩ := this r tok hr
    rw [assign_self five cur st.regs five_nodup hcur r] at h2
    exact ⟨x, h1, h2⟩
  · intro tok i h; simp [genEntry] at h
  · simp [genEntry]

theorem forall2_eight {α β : Type} {P : α → β → Prop} {a1 a2 a3 a4 a5 a6 a7 a8 : α} {l : List β}
    (h : List.Forall₂ P [a1, a2, a3, a4, a5, a6, a7, a8] l) :
    ∃ b1 b2 b3 b4 b5 b6 b7 b8, l = [b1, b2, b3, b4, b5, b6, b7, b8] ∧ P a1 b1 ∧ P a2 b2 ∧ P a3 b3 ∧ P a4 b4 ∧
      P a5 b5 ∧ P a6 b6 ∧ P a7 b7 ∧ P a8 b8 := by
  cases h with | cons p1 h =>
  cases h with | cons p2 h =>
  cases h with | cons p3 h =>
  cases h with | cons p4 h =>
  cases h with | cons p5 h =>
  cases h with | cons p6 h =>
  cases h with | cons p7 h =>
  cases h with | cons p8 h =>
  cases h
  exact ⟨_, _, _, _, _, _, _, _, rfl, p1, p2, p3, p4, p5, p6, p7, p8⟩

theorem sevOk_visible {k : EvKind} {t : TVal} {n : Nat} {e : SEv} (li : Bool) (h : sevOk k t n e = true) :
    visible li e = true := by
  simp only [sevOk, Bool.and_eq_true, Bool.not_eq_true'] at h
  simp [visible, h.2]

theorem EvMatch.kind_facts {se : SEv} {ce : Event (View V)} (h : EvMatch V0 ρ base rep0 se ce) {k : EvKind} {t : TVal}
    {n : Nat} (hs : sevOk k t n se = true) : ce.kind = k := by
  simp only [sevOk, Bool.and_eq_true, beq_iff_eq] at hs
  rw [h.kind, hs.1.1.1]

/-! ### one generation -/

/-- what one pass through the body of `advance`'s loop does, for every schedule whose loop body has
    the right dataflow -/
theorem gen_spec (hR : Respects I S ops) (hS : S.length = 5) (sc : Schedule) (hwf : wfGen sc = true)
    {st : State σ V} (g : Good I cfg.depth S V0 st) (cur : List Ref)
    (hcur : five.map st.regs = cur.map some) (l0 : cur.length = 5) :
    ∃ (st' : State σ V) (es : List (Event (View V))) (cur' : List Ref) (out : List (Item (View V))),
      execList (execR ops cfg sc) sc.advanceGen st = st' ∧ Good I cfg.depth S V0 st' ∧
      st'.trace = st.trace ++ es ∧ st'.t = st.t + 1 ∧ st'.rep = st.rep ∧ st'.ngen = st.ngen ∧
      five.map st'.regs = cur'.map some ∧ cur'.length = 5 ∧ out.map Prod.fst = cur' ∧
      es.length = 8 ∧ (∀ e ∈ es, e.rep = st.rep ∧ e.kind ≠ .log .initialize ∧ e.kind ≠ .init) ∧
      ∀ (R : Item (View V) → Item (View V) → Bool), ReflOnRefs R → ∀ (given : List (Item (View V))) (rest : List (Event (View V))),
        given.map Prod.fst = cur → checkGen R V0 st.t given (es ++ rest) = some (out, rest) := by
  unfold wfGen at hwf
  generalize hA : symList (symR sc) sc.advanceGen genEntry = a1 at hwf
  simp only [Bool.and_eq_true, beq_iff_eq] at hwf
  obtain ⟨⟨⟨hok, ht⟩, hrep⟩, hm⟩ := hwf
  cases hout : resolve a1.regs five with
  | none => simp [hout] at hm
  | some out =>
  cases hsg : symGenOK entryToks a1.evs with
  | none => simp [hout, hsg] at hm
  | some out' =>
  simp only [hout, hsg, beq_iff_eq] at hm
  subst hm
  -- the eight predicted calls
  unfold symGenOK at hsg
  split at hsg
  · rename_i e1 e2 e3 e4 e5 e6 e7 e8 hevs
    split at hsg
    · rename_i hcnd
      simp only [Option.some.injEq] at hsg
      simp only [Bool.and_eq_true, beq_iff_eq] at hcnd
      obtain ⟨⟨⟨⟨⟨⟨⟨⟨⟨⟨⟨⟨⟨⟨⟨⟨⟨⟨⟨s1, A1⟩, s2⟩, A2⟩, s3⟩, A3⟩, s4⟩, A4⟩, s5⟩, A5⟩, s6⟩, A6⟩, s7⟩, A7⟩, s8⟩, A8⟩, L1⟩, L3⟩, L5⟩, L7⟩ := hcnd
      -- run the analysis alongside the programme
      have hok' : (symList (symR sc) sc.advanceGen genEntry).ok = true := by rw [hA]; exact hok
      obtain ⟨ρ', hp, hc, g', hng⟩ := symBlock_sound (cfg := cfg) hR hS sc sc.advanceGen
        (genEntry_conc (V0 := V0) (cfg := cfg) cur hcur l0) g rfl hok'
      rw [hA] at hc
      obtain ⟨ces, htr, hall⟩ := hc.trace
      have hfil : a1.evs.filter (visible cfg.loginit) = [e1, e2, e3, e4, e5, e6, e7, e8] := by
        rw [hevs]
        simp [sevOk_visible cfg.loginit s1, sevOk_visible cfg.loginit s2,
          sevOk_visible cfg.loginit s3, sevOk_visible cfg.loginit s4, sevOk_visible cfg.loginit s5,
          sevOk_visible cfg.loginit s6, sevOk_visible cfg.loginit s7, sevOk_visible cfg.loginit s8]
      rw [hfil] at hall
      obtain ⟨c1, c2, c3, c4, c5, c6, c7, c8, rfl, m1, m2, m3, m4, m5, m6, m7, m8⟩ := forall2_eight hall
      obtain ⟨k1, p1⟩ := m1.evOk_rel0 s1
      obtain ⟨k2, p2⟩ := m2.evOk_rel0 s2
      obtain ⟨k3, p3⟩ := m3.evOk_rel0 s3
      obtain ⟨k4, p4⟩ := m4.evOk_rel0 s4
      obtain ⟨k5, p5⟩ := m5.evOk_rel0 s5
      obtain ⟨k6, p6⟩ := m6.evOk_rel0 s6
      obtain ⟨k7, p7⟩ := m7.evOk_rel0 s7
      obtain ⟨k8, p8⟩ := m8.evOk_rel0 s8
      have hentry : tokRefs ρ' entryToks cur := tokRefs_prefix hp (entry_tokRefs cur l0)
      have a1' : c1.args.take 5 = cur := wire hentry (tokRefs_take m1.args 5) A1
      have a2' : c2.args.take 6 = c1.rets := wire m1.rets (tokRefs_take m2.args 6) A2
      have a3' : c3.args.take 6 = c1.rets := wire m1.rets (tokRefs_take m3.args 6) A3
      have a4' : c4.args.take 6 = c1.rets.take 1 ++ c3.rets :=
        wire (tokRefs_append (tokRefs_take m1.rets 1) m3.rets) (tokRefs_take m4.args 6) A4
      have a5' : c5.args.take 5 = c3.rets := wire m3.rets (tokRefs_take m5.args 5) A5
      have a6' : c6.args.take 5 = c5.rets := wire m5.rets (tokRefs_take m6.args 5) A6
      have a7' : c7.args.take 5 = c5.rets := wire m5.rets (tokRefs_take m7.args 5) A7
      have a8' : c8.args.take 5 = c7.rets := wire m7.rets (tokRefs_take m8.args 5) A8
      have l1' : c1.rets.length = 6 := by rw [← tokRefs_length m1.rets, L1]
      have l3' : c3.rets.length = 5 := by rw [← tokRefs_length m3.rets, L3]
      have l5' : c5.rets.length = 5 := by rw [← tokRefs_length m5.rets, L5]
      have l7' : c7.rets.length = 5 := by rw [← tokRefs_length m7.rets, L7]
      -- the working containers afterwards
      obtain ⟨cur', hres, hcur'⟩ := resolve_rel hc.regs five out hout
      have hcur7 : cur' = c7.rets := wire m7.rets hcur' hsg.symm
      have hT := hc.t
      rw [ht] at hT
      have hP := hc.rep
      rw [hrep] at hP
      refine ⟨_, [c1, c2, c3, c4, c5, c6, c7, c8], cur', c7.retItems, rfl, g', htr, hT, by simpa using hP, hng,
        resolve_map _ _ _ hres, by rw [hcur7, l7'], by rw [retItems_fst _ m7.retVals, hcur7], rfl, ?_, ?_⟩
      · intro e he
        simp only [List.mem_cons, List.not_mem_nil, or_false] at he
        rcases he with rfl | rfl | rfl | rfl | rfl | rfl | rfl | rfl
        · exact ⟨by simpa using p1, by rw [m1.kind_facts s1]; decide, by rw [m1.kind_facts s1]; decide⟩
        · exact ⟨by simpa using p2, by rw [m2.kind_facts s2]; decide, by rw [m2.kind_facts s2]; decide⟩
        · exact ⟨by simpa using p3, by rw [m3.kind_facts s3]; decide, by rw [m3.kind_facts s3]; decide⟩
        · exact ⟨by simpa using p4, by rw [m4.kind_facts s4]; decide, by rw [m4.kind_facts s4]; decide⟩
        · exact ⟨by simpa using p5, by rw [m5.kind_facts s5]; decide, by rw [m5.kind_facts s5]; decide⟩
        · exact ⟨by simpa using p6, by rw [m6.kind_facts s6]; decide, by rw [m6.kind_facts s6]; decide⟩
        · exact ⟨by simpa using p7, by rw [m7.kind_facts s7]; decide, by rw [m7.kind_facts s7]; decide⟩
        · exact ⟨by simpa using p8, by rw [m8.kind_facts s8]; decide, by rw [m8.kind_facts s8]; decide⟩
      · intro R hRR given rest hgiven
        exact checkGen_intro R hRR st.t given cur hgiven c1 c2 c3 c4 c5 c6 c7 c8 k1 k2 k3 k4 k5 k6 k7 k8
          m1.argVals m2.argVals m3.argVals m4.argVals m5.argVals m6.argVals m7.argVals m8.argVals
          m1.retVals m3.retVals m5.retVals m7.retVals a1' a2' a3' a4' a5' a6' a7' a8' l1' l3' l5' l7' rest
    · cases hsg
  · cases hsg

/-! ### the generation loop -/

theorem gens_spec (hR : Respects I S ops) (hS : S.length = 5) (sc : Schedule) (hwf : wfGen sc = true) (n : Nat) :
    ∀ {st : State σ V}, Good I cfg.depth S V0 st → ∀ (cur : List Ref), five.map st.regs = cur.map some → cur.length = 5 →
    ∃ (st' : State σ V) (es : List (Event (View V))) (cur' : List Ref),
      iter (execList (execR ops cfg sc) sc.advanceGen) n st = st' ∧ Good I cfg.depth S V0 st' ∧
      st'.trace = st.trace ++ es ∧ st'.t = st.t + n ∧ st'.rep = st.rep ∧ st'.ngen = st.ngen ∧
      five.map st'.regs = cur'.map some ∧ cur'.length = 5 ∧ es.length = 8 * n ∧
      (∀ e ∈ es, e.rep = st.rep ∧ e.kind ≠ .log .initialize ∧ e.kind ≠ .init) ∧
      ∀ (R : Item (View V) → Item (View V) → Bool), ReflOnRefs R → ∀ (given : List (Item (View V))) (rest : List (Event (View V))),
        given.map Prod.fst = cur → checkGens R V0 n st.t given (es ++ rest) = some rest := by
  induction n with
  | zero =>
    intro st g cur hcur l0
    exact ⟨st, [], cur, rfl, g, by simp, rfl, rfl, rfl, hcur, l0, rfl, by simp,
      fun R _ given rest _ => by simp [checkGens]⟩
  | succ n ih =>
    intro st g cur hcur l0
    obtain ⟨s1, es1, cur1, out1, q1, g1, tr1, t1, rp1, ng1, f1, l1, ho1, len1, all1, chk1⟩ :=
      gen_spec (cfg := cfg) hR hS sc hwf g cur hcur l0
    obtain ⟨s2, es2, cur2, q2, g2, tr2, t2, rp2, ng2, f2, l2, len2, all2, chk2⟩ := ih g1 cur1 f1 l1
    refine ⟨s2, es1 ++ es2, cur2, ?_, g2, ?_, ?_, ?_, ?_, f2, l2, ?_, ?_, ?_⟩
    · show iter _ n (execList (execR ops cfg sc) sc.advanceGen st) = s2
      rw [q1, q2]
    · rw [tr2, tr1, List.append_assoc]
    · rw [t2, t1]; omega
    · rw [rp2, rp1]
    · rw [ng2, ng1]
    · rw [List.length_append, len1, len2]; omega
    · intro e he
      rcases List.mem_append.mp he with h | h
      · exact all1 e h
      · have := all2 e h
        rw [rp1] at this
        exact this
    · intro R hRR given rest hgiven
      rw [List.append_assoc]
      simp only [checkGens, chk1 R hRR given (es2 ++ rest) hgiven]
      have := chk2 R hRR out1 rest ho1
      rw [t1] at this
      exact this

end
end Program
