/-
Concrete operators that KEEP every reference they are handed and mutate the kept objects in LATER
calls (`keeperOps`), with the proof that they satisfy the footprint frame condition — used by the
non-vacuity examples and counterexamples of Props/C20.lean.
-/
import PybropsModel.Lemmas.ProgramDemo
set_option autoImplicit false
set_option linter.unusedVariables false

namespace Program
namespace Demo

/-- in-place mutation (data only) of every object in a list -/
def mutAll (h : Heap (Cell Nat)) (ms : List Nat) : Heap (Cell Nat) := ms.foldl mutAt h

/-- operators and logbook whose internal state is the list of all references they were ever handed:
    every call first mutates in place every object kept from EARLIER calls, then behaves like
    `demoOps` (mutates below what it is handed now, allocates, returns handed containers), and keeps
    what it was handed -/
def keeperOps : Ops (List Ref) Nat where
  op := fun k s h as t tm =>
    let r := demoOps.op k () (mutAll h s) as t tm
    (s ++ as, r.2.1, r.2.2)
  log := fun _ s h as _ _ _ => (s ++ as, mutAll h s)
  init := fun s h => (s, (demoOps.init () h).2.1, (demoOps.init () h).2.2)

theorem mutAt_refs' (h : Heap (Cell Nat)) (m x : Nat) (c0 : Cell Nat) (hc : h[x]? = some c0) :
    ∃ c, (mutAt h m)[x]? = some c ∧ c.refs = c0.refs := by
  by_cases hx : x = m
  · subst hx
    unfold mutAt
    rw [hc]
    have hlt : x < h.length := (List.getElem?_eq_some_iff.mp hc).1
    exact ⟨{ c0 with data := c0.data + 1 }, by simp [hlt], rfl⟩
  · exact ⟨c0, by rw [mutAt_ne h m x hx]; exact hc, rfl⟩

theorem mutAll_length (ms : List Nat) : ∀ (h : Heap (Cell Nat)), (mutAll h ms).length = h.length := by
  induction ms with
  | nil => intro h; rfl
  | cons m ms ih => intro h; show (mutAll (mutAt h m) ms).length = _; rw [ih, mutAt_length]

theorem mutAll_notmem (ms : List Nat) : ∀ (h : Heap (Cell Nat)) (x : Nat), x ∉ ms → (mutAll h ms)[x]? = h[x]? := by
  induction ms with
  | nil => intro h x _; rfl
  | cons m ms ih =>
    intro h x hx
    simp only [List.mem_cons, not_or] at hx
    show (mutAll (mutAt h m) ms)[x]? = _
    rw [ih _ x hx.2, mutAt_ne h m x hx.1]

theorem mutAll_refs (ms : List Nat) : ∀ (h : Heap (Cell Nat)) (x : Nat) (c : Cell Nat),
    (mutAll h ms)[x]? = some c → ∃ c0, h[x]? = some c0 ∧ c0.refs = c.refs := by
  induction ms with
  | nil => intro h x c hc; exact ⟨c, hc, rfl⟩
  | cons m ms ih =>
    intro h x c hc
    obtain ⟨c1, h1, e1⟩ := ih (mutAt h m) x c hc
    obtain ⟨c0, h0, e0⟩ := mutAt_refs h m x c1 h1
    exact ⟨c0, h0, e0.trans e1⟩

theorem mutAll_refs' (ms : List Nat) : ∀ (h : Heap (Cell Nat)) (x : Nat) (c0 : Cell Nat),
    h[x]? = some c0 → ∃ c, (mutAll h ms)[x]? = some c ∧ c.refs = c0.refs := by
  induction ms with
  | nil => intro h x c0 hc; exact ⟨c0, hc, rfl⟩
  | cons m ms ih =>
    intro h x c0 hc
    obtain ⟨c1, h1, e1⟩ := mutAt_refs' h m x c0 hc
    obtain ⟨c, h2, e2⟩ := ih (mutAt h m) x c1 h1
    exact ⟨c, h2, e2.trans e1⟩

/-- reachability only depends on the references stored in the cells -/
theorem reach_of_same_refs {h h' : Heap (Cell Nat)}
    (hrefs : ∀ (x : Nat) (c : Cell Nat), h'[x]? = some c → ∃ c0, h[x]? = some c0 ∧ c0.refs = c.refs)
    {a x : Ref} (hr : Reach h' a x) : Reach h a x := by
  induction hr with
  | refl => exact .refl _
  | step hc hr _ ih =>
    obtain ⟨c0, h0, e⟩ := hrefs _ _ hc
    exact .step h0 (e ▸ hr) ih

theorem mutAll_reach (h : Heap (Cell Nat)) (ms : List Nat) (a x : Ref) : Reach (mutAll h ms) a x ↔ Reach h a x :=
  ⟨reach_of_same_refs (mutAll_refs ms h), reach_of_same_refs (fun x c hc => mutAll_refs' ms h x c hc)⟩

theorem mutAll_wf {h : Heap (Cell Nat)} (wf : WFH h) (ms : List Nat) : WFH (mutAll h ms) := by
  intro a c hc r hr
  obtain ⟨c0, h0, e⟩ := mutAll_refs ms h a c hc
  rw [mutAll_length]
  exact wf a c0 h0 r (e ▸ hr)

/-- **the keeping operators satisfy the footprint frame condition** with footprint = everything
    they were ever handed -/
theorem keeper_footprint : Footprint (fun s : List Ref => s) keeperOps := by
  -- what a cell of the pre-mutated heap tells about the original heap
  have cellcase : ∀ (h : Heap (Cell Nat)) (s as : List Ref) (x : Nat) (c : Cell Nat), (mutAll h s)[x]? = some c →
      h[x]? = some c ∨ ∀ r ∈ c.refs, (∃ a ∈ as ++ s, Reach h a r) ∨ h.length ≤ r := by
    intro h s as x c hc
    by_cases hx : x ∈ s
    · right
      intro r hr
      obtain ⟨c0, h0, e⟩ := mutAll_refs s h x c hc
      exact Or.inl ⟨x, List.mem_append_right _ hx, .step h0 (e ▸ hr) (.refl r)⟩
    · left
      rw [← mutAll_notmem s h x hx]; exact hc
  have conv : ∀ (h : Heap (Cell Nat)) (s as : List Ref) (r : Nat),
      ((∃ a ∈ as, Reach (mutAll h s) a r) ∨ (mutAll h s).length ≤ r) →
      ((∃ a ∈ as ++ s, Reach h a r) ∨ h.length ≤ r) := by
    rintro h s as r (⟨a, ha, hr⟩ | hge)
    · exact Or.inl ⟨a, List.mem_append_left _ ha, (mutAll_reach h s a r).mp hr⟩
    · exact Or.inr (by rwa [mutAll_length] at hge)
  constructor
  · intro k s h as t tm wf has
    have has' : ∀ a ∈ as, a < (mutAll h s).length := by
      intro a ha; rw [mutAll_length]; exact has a (List.mem_append_left _ ha)
    obtain ⟨h1, h2, h3, h4, h5, h6⟩ := demo_frame.op k () (mutAll h s) as t tm (mutAll_wf wf s) has'
    rw [mutAll_length] at h1
    refine ⟨h1, h2, ?_, ?_, ?_, h6, ?_⟩
    · intro x hx hnr
      have hxs : x ∉ s := fun hin => hnr x (List.mem_append_right _ hin) (.refl x)
      have := h3 x (by rw [mutAll_length]; exact hx)
        (fun a ha hr => hnr a (List.mem_append_left _ ha) ((mutAll_reach h s a x).mp hr))
      exact this.trans (mutAll_notmem s h x hxs)
    · intro x c hc
      rcases h4 x c hc with hold | hnew
      · exact cellcase h s as x c hold
      · right
        intro r hr
        exact conv h s as r (hnew r hr)
    · intro r hr
      exact ⟨(h5 r hr).1, conv h s as r (h5 r hr).2⟩
    · intro r hr
      have hr' : r ∈ as ++ s := by
        rcases List.mem_append.mp hr with h | h
        · exact List.mem_append_right _ h
        · exact List.mem_append_left _ h
      exact ⟨lt_of_lt_of_le (has r hr') h1, Or.inl ⟨r, hr', .refl r⟩⟩
  · intro k s h as t tm rp wf has
    refine ⟨by show h.length ≤ (mutAll h s).length; rw [mutAll_length], mutAll_wf wf s, ?_, ?_, ?_⟩
    · intro x _ hnr
      exact mutAll_notmem s h x (fun hin => hnr x (List.mem_append_right _ hin) (.refl x))
    · intro x c hc
      exact cellcase h s as x c hc
    · intro r hr
      have hr' : r ∈ as ++ s := by
        rcases List.mem_append.mp hr with h | h
        · exact List.mem_append_right _ h
        · exact List.mem_append_left _ h
      refine ⟨?_, Or.inl ⟨r, hr', .refl r⟩⟩
      show r < (mutAll h s).length
      rw [mutAll_length]; exact has r hr'

/-- … hence respect any start containers they hold no reference into -/
theorem keeper_respects (S : List Ref) : Respects (KeptOutside (fun s : List Ref => s) S) S keeperOps :=
  keeper_footprint.respects S

/-- a programme whose operators have not kept anything yet -/
def givenK : State (List Ref) Nat := givenS []

theorem givenK_ready : Ready (KeptOutside (fun s : List Ref => s) [0, 1, 2, 3, 4]) keeperOps givenK :=
  givenS_ready _ keeperOps [] (by intro a ha; simp at ha)

/-- the canonical skeleton whose `reset()` hands out the stored `start_gmod` itself
    (`self.gmod = self.start_gmod`): nothing mutates it at once … -/
def aliasGmod : Schedule :=
  { canonical with reset := [.copyStart .genome 0, .copyStart .geno 1, .copyStart .pheno 2,
                             .copyStart .bval 3, .aliasStart .gmod 4, .setT0] }

end Demo
end Program

namespace Program
namespace Demo

/-! ### containers nested several levels deep, copies that stop above the deepest level -/

/-- start container 0 is the top of a chain of `d` further objects (nesting depth `d + 1`), the
    other four containers are flat -/
def chainState (d : Nat) : State Unit Nat :=
  { heap := [⟨10, if d = 0 then [] else [5]⟩, ⟨20, []⟩, ⟨30, []⟩, ⟨40, []⟩, ⟨50, []⟩] ++
      (List.range d).map (fun i => ⟨i + 1, if i + 1 < d then [5 + i + 1] else []⟩),
    n0 := 5 + d, regs := fun _ => none, start := [some 0, some 1, some 2, some 3, some 4],
    t := 0, rep := 0, ngen := none, ost := (), trace := [], bad := false }

/-- the deepest object below `a` along first references -/
def deepest (h : Heap (Cell Nat)) : Nat → Ref → Ref
  | 0, a => a
  | f + 1, a =>
    match h[a]? with
    | some c =>
      match c.refs with
      | r :: _ => deepest h f r
      | [] => a
    | none => a

/-- operators that mutate in place the DEEPEST object below each container they are handed -/
def deepOps : Ops Unit Nat where
  op := fun k _ h as _ _ =>
    let h1 := as.foldl (fun h a => mutAt h (deepest h 16 a)) h
    match k with
    | .pselect => ((), h1 ++ [⟨7, []⟩], h.length :: pick as h.length 0)
    | .mate => ((), h1 ++ [⟨7, []⟩], pick as h.length 1)
    | _ => ((), h1 ++ [⟨7, []⟩], pick as h.length 0)
  log := fun _ _ h _ _ _ _ => ((), h)
  init := demoOps.init

/-- the canonical skeleton whose `reset()` copies `start_genome` only `k` levels deep -/
def levelSched (k : Nat) : Schedule :=
  { canonical with reset := [.levelCopyStart .genome 0 k, .copyStart .geno 1, .copyStart .pheno 2,
                             .copyStart .bval 3, .copyStart .gmod 4, .setT0] }

/-- does the run of 2 replicates x 1 generation meet the Spec? -/
def levelRunOK (k d : Nat) : Bool :=
  specTrace sameOrEqual 2 1 true (startVals (d + 1) (chainState d).heap (chainState d).start)
    (evolve deepOps ⟨2, some 1, 9, true, 0, d + 1⟩ (levelSched k) (chainState d)).trace

end Demo
end Program
