/-
Helper lemmas for C17, outcross_shuffle: an exchange is a rearrangement (`swap_perm`).
-/
import PybropsModel.Lemmas.SamplingBasic
set_option autoImplicit false
set_option linter.unusedSectionVars false
namespace Sampling
section outcross
variable {β : Type} [DecidableEq β]

theorem swap_of_lt (x : List β) (i j : Nat) (hi : i < x.length) (hj : j < x.length) :
    swap x i j = (x.set i x[j]).set j x[i] := by
  unfold swap
  simp [hi, hj]

theorem swap_of_not_lt (x : List β) (i j : Nat) (h : ¬ (i < x.length ∧ j < x.length)) : swap x i j = x := by
  unfold swap
  by_cases hi : i < x.length
  · have hj : ¬ j < x.length := fun hj => h ⟨hi, hj⟩
    simp [List.getElem?_eq_none (not_lt.mp hj)]
  · simp [List.getElem?_eq_none (not_lt.mp hi)]

theorem swap_perm (x : List β) (i j : Nat) : (swap x i j).Perm x := by
  by_cases h : i < x.length ∧ j < x.length
  · obtain ⟨hi, hj⟩ := h
    rw [swap_of_lt x i j hi hj, List.perm_iff_count]
    intro c
    have hj' : j < (x.set i x[j]).length := by simpa using hj
    rw [List.count_set hj', List.count_set hi]
    have hyj : (x.set i x[j])[j] = x[j] := by
      by_cases hij : i = j
      · subst hij; simp
      · simp [List.getElem_set_of_ne hij]
    rw [hyj]
    have hA : (if (x[i] == c) = true then 1 else 0) ≤ x.count c := by
      split_ifs with ha
      · have : x[i] = c := by simpa using ha
        exact this ▸ List.one_le_count_iff.mpr (List.getElem_mem hi)
      · exact Nat.zero_le _
    omega
  · rw [swap_of_not_lt x i j h]

end outcross
end Sampling
