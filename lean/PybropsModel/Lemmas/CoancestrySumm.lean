/-
Helper lemmas for C13: the fold-based extreme-value summaries return the maximum / minimum of the
entries, commute with the (strictly monotone) kinship scaling, and the mean is the entry sum over n².
-/
import PybropsModel.Lemmas.CoancestryBasic
set_option autoImplicit false
set_option linter.unusedSectionVars false

namespace Coancestry
open Finset

section order
variable {α : Type} [LinearOrder α]

theorem foldl_max_spec (as : List α) (a : α) :
    as.foldl (fun m x => if m < x then x else m) a ∈ a :: as ∧
      ∀ y ∈ a :: as, y ≤ as.foldl (fun m x => if m < x then x else m) a := by
  induction as generalizing a with
  | nil => simp
  | cons x as ih =>
    simp only [List.foldl_cons]
    obtain ⟨h1, h2⟩ := ih (if a < x then x else a)
    constructor
    · rcases List.mem_cons.mp h1 with h | h
      · rw [h]; split <;> simp
      · simp [h]
    · intro y hy
      have hax : a ≤ (if a < x then x else a) := by split <;> [exact le_of_lt ‹_›; exact le_rfl]
      have hxx : x ≤ (if a < x then x else a) := by split <;> [exact le_rfl; exact not_lt.mp ‹_›]
      rcases List.mem_cons.mp hy with h | h
      · rw [h]; exact le_trans hax (h2 _ (by simp))
      · rcases List.mem_cons.mp h with h | h
        · rw [h]; exact le_trans hxx (h2 _ (by simp))
        · exact h2 _ (by simp [h])

theorem foldl_min_spec (as : List α) (a : α) :
    as.foldl (fun m x => if x < m then x else m) a ∈ a :: as ∧
      ∀ y ∈ a :: as, as.foldl (fun m x => if x < m then x else m) a ≤ y := by
  induction as generalizing a with
  | nil => simp
  | cons x as ih =>
    simp only [List.foldl_cons]
    obtain ⟨h1, h2⟩ := ih (if x < a then x else a)
    constructor
    · rcases List.mem_cons.mp h1 with h | h
      · rw [h]; split <;> simp
      · simp [h]
    · intro y hy
      have hax : (if x < a then x else a) ≤ a := by split <;> [exact le_of_lt ‹_›; exact le_rfl]
      have hxx : (if x < a then x else a) ≤ x := by split <;> [exact le_rfl; exact not_lt.mp ‹_›]
      rcases List.mem_cons.mp hy with h | h
      · rw [h]; exact le_trans (h2 _ (by simp)) hax
      · rcases List.mem_cons.mp h with h | h
        · rw [h]; exact le_trans (h2 _ (by simp)) hxx
        · exact h2 _ (by simp [h])

theorem maxL_spec (l : List α) (x : α) (h : maxL l = some x) : x ∈ l ∧ ∀ y ∈ l, y ≤ x := by
  cases l with
  | nil => simp [maxL] at h
  | cons a as =>
    simp only [maxL, Option.some.injEq] at h
    rw [← h]
    exact foldl_max_spec as a

theorem minL_spec (l : List α) (x : α) (h : minL l = some x) : x ∈ l ∧ ∀ y ∈ l, x ≤ y := by
  cases l with
  | nil => simp [minL] at h
  | cons a as =>
    simp only [minL, Option.some.injEq] at h
    rw [← h]
    exact foldl_min_spec as a

theorem maxL_isSome (l : List α) (h : l ≠ []) : ∃ x, maxL l = some x := by
  cases l with
  | nil => exact absurd rfl h
  | cons a as => exact ⟨_, rfl⟩

/-- a strictly monotone map commutes with the fold -/
theorem foldl_max_map (f : α → α) (hf : StrictMono f) (as : List α) (a : α) :
    (as.map f).foldl (fun m x => if m < x then x else m) (f a)
      = f (as.foldl (fun m x => if m < x then x else m) a) := by
  induction as generalizing a with
  | nil => rfl
  | cons x as ih =>
    simp only [List.map_cons, List.foldl_cons]
    rw [← ih]
    congr 1
    by_cases h : a < x
    · simp [h, hf h]
    · have : ¬ f a < f x := fun h' => h (hf.lt_iff_lt.mp h')
      simp [h, this]

theorem foldl_min_map (f : α → α) (hf : StrictMono f) (as : List α) (a : α) :
    (as.map f).foldl (fun m x => if x < m then x else m) (f a)
      = f (as.foldl (fun m x => if x < m then x else m) a) := by
  induction as generalizing a with
  | nil => rfl
  | cons x as ih =>
    simp only [List.map_cons, List.foldl_cons]
    rw [← ih]
    congr 1
    by_cases h : x < a
    · simp [h, hf h]
    · have : ¬ f x < f a := fun h' => h (hf.lt_iff_lt.mp h')
      simp [h, this]

theorem maxL_map (f : α → α) (hf : StrictMono f) (l : List α) : maxL (l.map f) = (maxL l).map f := by
  cases l with
  | nil => rfl
  | cons a as => simp [maxL, foldl_max_map f hf]

theorem minL_map (f : α → α) (hf : StrictMono f) (l : List α) : minL (l.map f) = (minL l).map f := by
  cases l with
  | nil => rfl
  | cons a as => simp [minL, foldl_min_map f hf]

end order

section members
variable {α : Type} [Zero α]

/-- the entries of a rectangular matrix are exactly the members of its flattening -/
theorem mem_flatten_iff_entry (G : List (List α)) (n m : Nat) (hG : Rect n m G) (x : α) :
    x ∈ G.flatten ↔ ∃ i < n, ∃ j < m, entry G i j = x := by
  rw [List.mem_flatten]
  constructor
  · rintro ⟨r, hr, hx⟩
    obtain ⟨i, hi, rfl⟩ := List.mem_iff_getElem.mp hr
    obtain ⟨j, hj, rfl⟩ := List.mem_iff_getElem.mp hx
    have hrl := hG.2 _ (List.getElem_mem hi)
    refine ⟨i, hG.1 ▸ hi, j, hrl ▸ hj, ?_⟩
    simp [entry, List.getD_eq_getElem?_getD, List.getElem?_eq_getElem hi, List.getElem?_eq_getElem hj]
  · rintro ⟨i, hi, j, hj, rfl⟩
    have hi' : i < G.length := hG.1 ▸ hi
    have hrl := hG.2 _ (List.getElem_mem hi')
    have hj' : j < G[i].length := hrl ▸ hj
    refine ⟨G[i], List.getElem_mem hi', ?_⟩
    have : entry G i j = G[i][j] := by
      simp [entry, List.getD_eq_getElem?_getD, List.getElem?_eq_getElem hi', List.getElem?_eq_getElem hj']
    rw [this]
    exact List.getElem_mem hj'

/-- the members of `diag G` are the diagonal entries -/
theorem mem_diag_iff (G : List (List α)) (n : Nat) (hG : Rect n n G) (x : α) :
    x ∈ diag G ↔ ∃ i < n, entry G i i = x := by
  unfold diag
  rw [List.mem_map]
  constructor
  · rintro ⟨⟨r, i⟩, hri, rfl⟩
    obtain ⟨hi, hr⟩ := List.mem_zipIdx' hri
    simp only at hi hr ⊢
    refine ⟨i, hG.1 ▸ hi, ?_⟩
    rw [hr]
    simp [entry, List.getD_eq_getElem?_getD, List.getElem?_eq_getElem hi]
  · rintro ⟨i, hi, rfl⟩
    have hi' : i < G.length := hG.1 ▸ hi
    refine ⟨(G[i], i), ?_, ?_⟩
    · rw [List.mem_zipIdx_iff_getElem?]
      simp [List.getElem?_eq_getElem hi']
    · simp [entry, List.getD_eq_getElem?_getD, List.getElem?_eq_getElem hi']

end members

section halfmono
variable {α : Type} [Field α] [LinearOrder α] [IsStrictOrderedRing α]

theorem half_strictMono : StrictMono (fun x : α => half * x) := by
  intro a b hab
  have : (0 : α) < half := by unfold half; positivity
  exact mul_lt_mul_of_pos_left hab this

end halfmono

section mean
variable {α : Type} [Field α]

/-- right-inverse contract on nested lists: `Σ_k G_ik H_kj = δ_ij` (what `numpy.linalg.inv` promises) -/
def IsRightInverse (n : Nat) (G H : List (List α)) : Prop :=
  ∀ i < n, ∀ j < n, ∑ k ∈ range n, entry G i k * entry H k j = if i = j then 1 else 0

theorem sumAll_eq (G : List (List α)) (n m : Nat) (hG : Rect n m G) :
    sumAll G = ∑ i ∈ range n, ∑ j ∈ range m, entry G i j := by
  unfold sumAll
  rw [npsum_eq_sum, list_sum_eq_range _ n (by simp [hG.1])]
  apply Finset.sum_congr rfl
  intro i hi
  have hi' := Finset.mem_range.mp hi
  rw [getD_map' (fun r : List α => Np.sum r) G i 0 [] (hG.1 ▸ hi'), npsum_eq_sum,
    list_sum_eq_range _ m (hG.row hi')]
  rfl

end mean

end Coancestry
