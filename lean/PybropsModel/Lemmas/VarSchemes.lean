/-
Helper lemmas for C12 (5): the linkage-decay terms of `vmat/util.py` are the selfing recursion
`delta`; `rho` vanishes across a position with crossover probability 1/2; allele covariances of the
two-, three- and four-way schemes in closed form.
-/
import PybropsModel.Lemmas.VarMoments
import PybropsModel.Lemmas.VarBlocks
set_option autoImplicit false
set_option linter.unusedSectionVars false

namespace Variance
variable {α : Type} [Field α] [CharZero α]

/-! ### numerals of the model -/
theorem two_eq : (two : α) = 2 := by unfold two; norm_num
theorem four_eq : (four : α) = 4 := by unfold four; rw [two_eq]; norm_num
theorem half_eq : (half : α) = 1 / 2 := by unfold half; rw [two_eq]

theorem powN_eq (x : α) (n : Nat) : powN x n = x ^ n := by
  induction n with
  | zero => simp [powN]
  | succ n ih => simp [powN, ih, pow_succ]

/-! ### `cov_D1s`, `cov_D2s` versus the selfing recursion -/

theorem delta_zero (n : Nat) : delta (0 : α) n = 0 := by
  cases n <;> simp [delta]

theorem delta_one (n : Nat) : delta (1 : α) n = 1 := by
  induction n with
  | zero => rfl
  | succ n ih => simp only [delta, ih]; norm_num

/-- the closed formula `1 - 2 r_k` of `rprob_filial` satisfies the selfing recursion -/
theorem filial_closed_eq_delta (r : α) (h : 1 + 2 * r ≠ 0) (n : Nat) :
    1 - 2 * (2 * r / (1 + 2 * r) * (1 - (1 / 2) ^ (n + 1) * (1 - 2 * r) ^ (n + 1))) = delta (1 - 2 * r) n := by
  induction n with
  | zero =>
    simp only [delta, zero_add, pow_one]
    field_simp
    ring
  | succ n ih =>
    simp only [delta]
    rw [← ih]
    have e1 : ((1 : α) / 2) ^ (n + 1 + 1) = (1 / 2) ^ (n + 1) * (1 / 2) := pow_succ _ _
    have e2 : (1 - 2 * r) ^ (n + 1 + 1) = (1 - 2 * r) ^ (n + 1) * (1 - 2 * r) := pow_succ _ _
    rw [e1, e2]
    generalize ((1 : α) / 2) ^ (n + 1) = A
    generalize (1 - 2 * r) ^ (n + 1) = B
    field_simp
    ring

/-- **D1**: `cov_D1s(r, nself)` is the decay `δ_nself(1 - 2r)` -/
theorem covD1s_eq_delta (r : α) (h : 1 + 2 * r ≠ 0) (n : Nat) :
    covD1s r (some n) = delta (1 - 2 * r) n := by
  cases n with
  | zero => simp [covD1s, delta, two_eq]
  | succ n =>
    simp only [covD1s, succInf, rprobFilial, two_eq, half_eq, powN_eq]
    exact filial_closed_eq_delta r h (n + 1)

/-- **D2**: `cov_D2s(r, nself) = c - δ + c δ` with `c = 1 - 2r`, `δ = cov_D1s(r, nself)` -/
theorem covD2s_eq (r : α) (h : 1 + 2 * r ≠ 0) (n : Nat) :
    covD2s r (some n) = (1 - 2 * r) - delta (1 - 2 * r) n + (1 - 2 * r) * delta (1 - 2 * r) n := by
  cases n with
  | zero => simp [covD2s, delta, two_eq, powN_eq]; ring
  | succ n =>
    have h1 := covD1s_eq_delta r h (n + 1)
    simp only [covD1s, succInf, two_eq] at h1
    simp only [covD2s, succInf, four_eq]
    rw [← h1]
    ring

/-! ### `rho` across an unlinked position -/

theorem prodTo_zero_of_half (xs : List α) (j k : Nat) (hk : k ≤ j) (hx : xs[k]? = some (1 / 2)) :
    prodTo xs j = 0 := by
  induction xs generalizing j k with
  | nil => simp at hx
  | cons x xs ih =>
    cases k with
    | zero =>
      simp only [List.getElem?_cons_zero, Option.some.injEq] at hx
      subst hx
      cases j <;> simp [prodTo]
    | succ k =>
      cases j with
      | zero => omega
      | succ j =>
        simp only [List.getElem?_cons_succ] at hx
        simp only [prodTo, ih j k (by omega) hx, mul_zero]

theorem halfStart_of_head (xs : List α) (h : xs[0]? = some (1 / 2)) : HalfStart xs :=
  fun j => prodTo_zero_of_half xs j 0 (Nat.zero_le j) h

theorem rho_zero_of_half (xs : List α) (i j k : Nat) (h1 : i < k) (h2 : k ≤ j)
    (hx : xs[k]? = some (1 / 2)) : rho xs i j = 0 := by
  induction xs generalizing i j k with
  | nil => simp at hx
  | cons x xs ih =>
    cases k with
    | zero => omega
    | succ k =>
      simp only [List.getElem?_cons_succ] at hx
      cases j with
      | zero => omega
      | succ j =>
        cases i with
        | zero => simp only [rho]; exact prodTo_zero_of_half xs j k (by omega) hx
        | succ i => simp only [rho]; exact ih i j k (by omega) (by omega) hx

/-! ### allele covariances of the schemes -/

theorem coordCov_twoWay (xs : List α) (hx : HalfStart xs) (n : Nat) (a b : Nat → α) (i j : Nat) :
    4 * coordCov (twoWayE xs n a b) i j = (a i - b i) * delta (rho xs i j) n * (a j - b j) := by
  unfold coordCov twoWayE
  rw [ssd_second xs hx, ssd_first xs hx, ssd_first xs hx]
  ring

theorem threeWay_second (xs : List α) (hx : HalfStart xs) (n : Nat) (p1 p2 p3 : Nat → α) (i j : Nat) :
    threeWayE xs n p1 p2 p3 (fun g => g i * g j) =
      ((1 + delta (rho xs i j) n) * (p1 i * p1 j
          + ((1 + rho xs i j) * (p2 i * p2 j + p3 i * p3 j) + (1 - rho xs i j) * (p2 i * p3 j + p3 i * p2 j)) / 4)
        + (1 - delta (rho xs i j) n) * (p1 i * ((p2 j + p3 j) / 2) + ((p2 i + p3 i) / 2) * p1 j)) / 4 := by
  unfold threeWayE
  simp only [ssd_second xs hx]
  have h : ∀ m : List Bool,
      ((1 + delta (rho xs i j) n) * (p1 i * p1 j + gameteAt m p2 p3 i * gameteAt m p2 p3 j)
        + (1 - delta (rho xs i j) n) * (p1 i * gameteAt m p2 p3 j + gameteAt m p2 p3 i * p1 j)) / 4
      = (1 + delta (rho xs i j) n) / 4 * (p1 i * p1 j)
        + (1 + delta (rho xs i j) n) / 4 * (gameteAt m p2 p3 i * gameteAt m p2 p3 j)
        + (1 - delta (rho xs i j) n) / 4 * p1 i * gameteAt m p2 p3 j
        + (1 - delta (rho xs i j) n) / 4 * p1 j * gameteAt m p2 p3 i := by
    intro m; ring
  simp only [h, E_add, E_const_mul, E_const, E_gamete_mul_half xs hx, E_gamete_half xs hx]
  ring

theorem threeWay_first (xs : List α) (hx : HalfStart xs) (n : Nat) (p1 p2 p3 : Nat → α) (i : Nat) :
    threeWayE xs n p1 p2 p3 (fun g => g i) = (p1 i + (p2 i + p3 i) / 2) / 2 := by
  unfold threeWayE
  simp only [ssd_first xs hx]
  have h : ∀ m : List Bool, (p1 i + gameteAt m p2 p3 i) / 2 = p1 i / 2 + (1 / 2) * gameteAt m p2 p3 i := by
    intro m; ring
  simp only [h, E_add, E_const_mul, E_const, E_gamete_half xs hx]
  ring

/-- three-way scheme `p1 × (p2 × p3)`: the code's combination `¼ (2 (D1·q21 + D1·q31) + D2·q23)` -/
theorem coordCov_threeWay (xs : List α) (hx : HalfStart xs) (n : Nat) (p1 p2 p3 : Nat → α) (i j : Nat) :
    4 * coordCov (threeWayE xs n p1 p2 p3) i j =
      (2 * ((p2 i - p1 i) * delta (rho xs i j) n * (p2 j - p1 j)
            + (p3 i - p1 i) * delta (rho xs i j) n * (p3 j - p1 j))
        + (p2 i - p3 i) * (rho xs i j - delta (rho xs i j) n + rho xs i j * delta (rho xs i j) n) * (p2 j - p3 j))
      * (1 / 4) := by
  unfold coordCov
  rw [threeWay_second xs hx, threeWay_first xs hx, threeWay_first xs hx]
  ring

theorem fourWay_second (xs : List α) (hx : HalfStart xs) (n : Nat) (p1 p2 p3 p4 : Nat → α) (i j : Nat) :
    fourWayE xs n p1 p2 p3 p4 (fun g => g i * g j) =
      ((1 + delta (rho xs i j) n) *
          (((1 + rho xs i j) * (p1 i * p1 j + p2 i * p2 j) + (1 - rho xs i j) * (p1 i * p2 j + p2 i * p1 j)) / 4
          + ((1 + rho xs i j) * (p3 i * p3 j + p4 i * p4 j) + (1 - rho xs i j) * (p3 i * p4 j + p4 i * p3 j)) / 4)
        + (1 - delta (rho xs i j) n) *
          (((p1 i + p2 i) / 2) * ((p3 j + p4 j) / 2) + ((p3 i + p4 i) / 2) * ((p1 j + p2 j) / 2))) / 4 := by
  unfold fourWayE
  simp only [ssd_second xs hx]
  have h : ∀ mA mB : List Bool,
      ((1 + delta (rho xs i j) n) * (gameteAt mA p1 p2 i * gameteAt mA p1 p2 j + gameteAt mB p3 p4 i * gameteAt mB p3 p4 j)
        + (1 - delta (rho xs i j) n) * (gameteAt mA p1 p2 i * gameteAt mB p3 p4 j + gameteAt mB p3 p4 i * gameteAt mA p1 p2 j)) / 4
      = (1 + delta (rho xs i j) n) / 4 * (gameteAt mA p1 p2 i * gameteAt mA p1 p2 j)
        + (1 + delta (rho xs i j) n) / 4 * (gameteAt mB p3 p4 i * gameteAt mB p3 p4 j)
        + (1 - delta (rho xs i j) n) / 4 * (gameteAt mA p1 p2 i * gameteAt mB p3 p4 j)
        + (1 - delta (rho xs i j) n) / 4 * (gameteAt mA p1 p2 j * gameteAt mB p3 p4 i) := by
    intro mA mB; ring
  simp only [h, E_add, E_const_mul, E_mul_const, E_const, E_gamete_mul_half xs hx, E_gamete_half xs hx]
  ring

theorem fourWay_first (xs : List α) (hx : HalfStart xs) (n : Nat) (p1 p2 p3 p4 : Nat → α) (i : Nat) :
    fourWayE xs n p1 p2 p3 p4 (fun g => g i) = ((p1 i + p2 i) / 2 + (p3 i + p4 i) / 2) / 2 := by
  unfold fourWayE
  simp only [ssd_first xs hx]
  have h : ∀ mA mB : List Bool, (gameteAt mA p1 p2 i + gameteAt mB p3 p4 i) / 2
      = (1 / 2) * gameteAt mA p1 p2 i + (1 / 2) * gameteAt mB p3 p4 i := by
    intro mA mB; ring
  simp only [h, E_add, E_const_mul, E_const, E_gamete_half xs hx]
  ring

/-- four-way scheme `(p1 × p2) × (p3 × p4)`: the code's six-part combination -/
theorem coordCov_fourWay (xs : List α) (hx : HalfStart xs) (n : Nat) (p1 p2 p3 p4 : Nat → α) (i j : Nat) :
    4 * coordCov (fourWayE xs n p1 p2 p3 p4) i j =
      ( (p2 i - p1 i) * (rho xs i j - delta (rho xs i j) n + rho xs i j * delta (rho xs i j) n) * (p2 j - p1 j)
      + (p3 i - p1 i) * delta (rho xs i j) n * (p3 j - p1 j)
      + (p3 i - p2 i) * delta (rho xs i j) n * (p3 j - p2 j)
      + (p4 i - p1 i) * delta (rho xs i j) n * (p4 j - p1 j)
      + (p4 i - p2 i) * delta (rho xs i j) n * (p4 j - p2 j)
      + (p4 i - p3 i) * (rho xs i j - delta (rho xs i j) n + rho xs i j * delta (rho xs i j) n) * (p4 j - p3 j))
      * (1 / 4) := by
  unfold coordCov
  rw [fourWay_second xs hx, fourWay_first xs hx, fourWay_first xs hx]
  ring

end Variance
