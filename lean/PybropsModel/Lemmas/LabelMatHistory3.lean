/-
Lemmas/LabelMatHistory3.lean — histories including `concat`.
-/
import PybropsModel.Lemmas.LabelMatConcat

set_option autoImplicit false
set_option linter.unusedVariables false

namespace LabelMat

variable {α lab : Type}

theorem safe_of_not_concat {sch : Schema} {op : Op α lab} (hc : ∀ k vs, op ≠ .concat k vs) : op.Safe sch := by
  cases op <;> first | trivial | exact absurd rfl (hc _ _)

theorem accSt_self_mat (s : St α lab) (k : Kind) : (accSt s k s.mat (s.bundle k).cols).mat = s.mat := rfl

theorem accSt_self_cols (s : St α lab) (k kk : Kind) :
    ((accSt s k s.mat (s.bundle k).cols).bundle kk).cols = (s.bundle kk).cols := by
  by_cases h : kk = k
  · subst h; rw [accSt_bundle_same]
  · rw [accSt_bundle_ne _ _ _ _ _ h]

theorem cons_congr (sch : Schema) (s t : St α lab) (hm : t.mat = s.mat)
    (hc : ∀ kk, (t.bundle kk).cols = (s.bundle kk).cols) (h : Cons sch s) : Cons sch t := by
  refine ⟨by rw [hm]; exact h.1, ?_, ?_⟩
  · intro kk b hb
    rw [hm]
    exact colsLen_congr (hc kk) _ (h.2.1 kk b hb)
  · intro kk b1 b2 h1 h2
    rw [hm]
    exact h.2.2 kk b1 b2 h1 h2

/-- **`concat_<k>` keeps labels attached and the shape consistent.** -/
theorem concat_attached (sch : Schema) (k : Kind) (hs : sch.SimpleAt k) (s s' : St α lab) (vs : List (Operand α lab))
    (hcons : Cons sch s) (hp : PosDims s.mat)
    (hvs : ∀ v ∈ vs, Cons sch (operandState s k v) ∧ PosDims v.mat ∧ (s.bundle k).cols.length = v.cols.length)
    (h : concatK sch k (s :: vs.map (operandState s k)) = .ok s') :
    Cons sch s' ∧ ∀ c, IsLCell sch s' c → IsLCell sch s c ∨ ∃ v ∈ vs, IsLCell sch (operandState s k v) c := by
  unfold concatK at h
  split at h
  · cases h
  · cases h
  · rename_i a as s0 rest hax heq
    cases heq
    have hax' : sch.axes k = [a] ∧ a < 3 := by
      rcases hs.single with h0 | ⟨a', ha', ha3⟩
      · rw [h0] at hax; cases hax
      · rw [ha'] at hax; cases hax; exact ⟨ha', ha3⟩
    obtain ⟨hax1, ha3⟩ := hax'
    simp only [bind, Except.bind, pure, Except.pure] at h
    split at h
    · cases h
    · rename_i hshape
      split at h
      · cases h
      · rename_i cols' hfold
        rw [newObj_eq sch hs.keeps] at h
        have hs' := checkCtor_ok h
        -- off-axis shapes of every operand
        have hoffv : ∀ v ∈ vs, ∀ b, b < 3 → b ≠ a → axLen b v.mat = axLen b s.mat := by
          intro v hv b hb3 hba
          simp only [Bool.not_eq_true, List.any_eq_false, List.mem_map, forall_exists_index, and_imp,
            forall_apply_eq_imp_iff₂, Bool.and_eq_false_imp, bne_iff_ne, ne_eq, Decidable.not_not,
            List.mem_cons, List.not_mem_nil, or_false] at hshape
          have hb' : b = 0 ∨ b = 1 ∨ b = 2 := by omega
          have := hshape v hv b hb' hba
          simpa [operandState_mat] using this
        have hfold' := concat_fold sch k hs a hax1 ha3 s vs s.mat (s.bundle k).cols cols'
          (cons_congr sch s _ (accSt_self_mat s k) (accSt_self_cols s k) hcons) hp
          (fun b _ _ => rfl) rfl
          (fun v hv => ⟨(hvs v hv).1, (hvs v hv).2.1, (hvs v hv).2.2, hoffv v hv⟩) hfold
        obtain ⟨hfin, hatt⟩ := hfold'
        rw [hs']
        constructor
        · exact cons_congr sch _ _ (freshK_mat k _) (fun kk => freshK_cols k kk _) hfin
        · intro c hc
          rw [isLCell_congr sch _ _ (freshK_mat k _) (fun kk => freshK_cols k kk _) c] at hc
          rcases hatt c hc with h1 | h1
          · left
            exact (isLCell_congr sch _ s (accSt_self_mat s k) (accSt_self_cols s k) c).mp h1
          · exact Or.inr h1

theorem step_attached' [BEq lab] (le : lab → lab → Bool) (sch : Schema) (fill : α) (fx : Bool)
    (op : Op α lab) (hs : sch.SimpleAt op.kind) (s s' : St α lab) (hcons : consistentOK sch s = true) (hopnd : OperandsOK sch op s)
    (hp : PosDims s.mat) (hpv : ∀ v ∈ op.operands, PosDims v.mat)
    (h : step le sch fill fx op s = .ok s') (c : LCell α lab) (hc : IsLCell sch s' c) :
    IsLCell sch s c ∨ ∃ v ∈ op.operands, IsLCell sch (operandState s op.kind v) c := by
  by_cases hcc : ∃ k vs, op = .concat k vs
  · obtain ⟨k, vs, rfl⟩ := hcc
    simp only [step] at h
    have := concat_attached sch k hs s s' vs ((cons_iff _ _).mp hcons) hp
      (fun v hv => ⟨(cons_iff _ _).mp (hopnd v (by simpa [Op.operands] using hv)).1,
        hpv v (by simpa [Op.operands] using hv), (hopnd v (by simpa [Op.operands] using hv)).2⟩) h
    exact this.2 c hc
  · exact step_attached le sch fill fx op hs s s' hcons hopnd
      (safe_of_not_concat (fun k vs e => hcc ⟨k, vs, e⟩)) h c hc

theorem step_cons' [BEq lab] (le : lab → lab → Bool) (sch : Schema) (fill : α) (fx : Bool)
    (op : Op α lab) (hs : sch.SimpleAt op.kind) (s s' : St α lab) (hcons : consistentOK sch s = true) (hopnd : OperandsOK sch op s)
    (hp : PosDims s.mat) (hpv : ∀ v ∈ op.operands, PosDims v.mat) (hp' : PosDims s'.mat)
    (h : step le sch fill fx op s = .ok s') : consistentOK sch s' = true := by
  by_cases hcc : ∃ k vs, op = .concat k vs
  · obtain ⟨k, vs, rfl⟩ := hcc
    simp only [step] at h
    have := concat_attached sch k hs s s' vs ((cons_iff _ _).mp hcons) hp
      (fun v hv => ⟨(cons_iff _ _).mp (hopnd v (by simpa [Op.operands] using hv)).1,
        hpv v (by simpa [Op.operands] using hv), (hopnd v (by simpa [Op.operands] using hv)).2⟩) h
    exact (cons_iff _ _).mpr this.1
  · exact step_cons le sch fill fx op hs s s' hcons hopnd
      (safe_of_not_concat (fun k vs e => hcc ⟨k, vs, e⟩)) hp hpv hp' h

/-- a history all of whose operations (every position form, `concat` included) have valid arguments for the state they
    meet, and in which no dimension is or becomes 0 -/
def ValidHist3 [BEq lab] (le : lab → lab → Bool) (sch : Schema) (fill : α) (fx : Bool) :
    List (Op α lab) → St α lab → Prop
  | [], _ => True
  | op :: ops, s =>
    OperandsOK sch op s ∧ PosDims s.mat ∧ (∀ v ∈ op.operands, PosDims v.mat) ∧
      ∀ s1, step le sch fill fx op s = .ok s1 → PosDims s1.mat ∧ ValidHist3 le sch fill fx ops s1

theorem run_attached3 [BEq lab] (le : lab → lab → Bool) (sch : Schema) (hs : sch.Simple) (fill : α) (fx : Bool)
    (ops : List (Op α lab)) (s s' : St α lab) (hcons : consistentOK sch s = true)
    (hv : ValidHist3 le sch fill fx ops s) (h : run le sch fill fx ops s = .ok s') :
    consistentOK sch s' = true ∧
      ∀ c, IsLCell sch s' c → IsLCell sch s c ∨ Sources.SourcesTail le sch fill fx ops s c := by
  induction ops generalizing s with
  | nil =>
    simp only [run, pure, Except.pure] at h
    cases h
    exact ⟨hcons, fun c hc => Or.inl hc⟩
  | cons op ops ih =>
    simp only [run, bind, Except.bind] at h
    split at h
    · cases h
    · rename_i s1 hs1
      obtain ⟨hopnd, hp, hpv, hrest⟩ := hv
      obtain ⟨hp1, hv1⟩ := hrest s1 hs1
      have hc1 := step_cons' le sch fill fx op (hs.at _) s s1 hcons hopnd hp hpv hp1 hs1
      obtain ⟨hfin, hatt⟩ := ih s1 hc1 hv1 h
      refine ⟨hfin, ?_⟩
      intro c hc
      rcases hatt c hc with h1 | h1
      · rcases step_attached' le sch fill fx op (hs.at _) s s1 hcons hopnd hp hpv hs1 c h1 with h2 | h2
        · exact Or.inl h2
        · exact Or.inr (Or.inl h2)
      · exact Or.inr (Or.inr ⟨s1, hs1, h1⟩)

end LabelMat
