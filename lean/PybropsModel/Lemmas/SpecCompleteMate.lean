/-
Helper lemma for C01: completeness of the Spec for the two-way cross without selfing.  An output on
which `specMate` is true (names in generation order, first marker with positive crossover
probability) IS an output of the model for suitable non-negative draws.
-/
import Mathlib.Tactic
import PybropsModel.Lemmas.SpecComplete
import PybropsModel.Lemmas.SpecSound
set_option autoImplicit false
set_option linter.unusedSectionVars false

namespace Mating
open Meiosis
variable {α ρ : Type} [LinearOrder ρ] [Zero ρ] [BEq α] [LawfulBEq α]

theorem mosaic_parentHaps {pop : Pop α} {xo : List ρ} {cross : List Nat} {k : Nat} {g : List α}
    (h : Mosaic (parentHaps pop cross k) xo g) :
    ∃ F, pop[cross.getD k 0]? = some F ∧ Mosaic [F.1, F.2] xo g := by
  unfold parentHaps at h
  cases hp : pop[cross.getD k 0]? with
  | none =>
    rw [hp] at h
    obtain ⟨cur, hc, _⟩ := h
    simp at hc
  | some F =>
    rw [hp] at h
    exact ⟨F, rfl, h⟩

theorem spec_complete_twoWay {pop : Pop α} {xc : List (List Nat)} {nmating nprogeny : Cnt} {xo : List ρ}
    {pc fc : Nat} {out : Out α}
    (hs : popShaped pop xo.length = true) (hw : ∀ r ∈ xc, r.length = 2)
    (hstart : ∀ x, xo.head? = some x → 0 < x) (hsmall : pc + out.rows.length ≤ 10 ^ 7)
    (hspec : (specMate .twoWay pop xc nmating nprogeny 0 xo pc fc out).1 = true) :
    ∃ draws : List (DrawMat ρ), Nonneg draws ∧ ∃ out', mate .twoWay pop xc nmating nprogeny 0 xo pc fc draws = .ok out' ∧
      out'.rows = out.rows ∧ out'.pc = out.pc ∧ out'.fc = out.fc := by
  unfold specMate at hspec
  split at hspec
  case h_2 => simp at hspec
  rename_i nm np hnm hnp
  simp only [Np.sum_eq_list_sum, Bool.and_eq_true, beq_iff_eq, List.all_eq_true] at hspec
  obtain ⟨⟨⟨⟨hcount, hgrp⟩, hnames⟩, ⟨hpc, hfc⟩⟩, hrowsOK⟩ := hspec
  have lnm := Cnt.expand_length hnm
  have lnp := Cnt.expand_length hnp
  set per := List.zipWith (· * ·) nm np with hper
  have lper : per.length = xc.length := by simp [hper, lnm, lnp]
  have hnames' : out.rows.map Row.name = (Np.arange pc per.sum).map (name Proto.twoWay.pre) := by
    unfold namesOK at hnames
    rw [hcount] at hsmall
    simp only [hsmall, if_true, beq_iff_eq] at hnames
    exact hnames
  have hshape := shaped_of_popShaped hs
  -- the progeny and the selection arrays of the one mat_mate call
  set prog := out.rows.map Row.ind with hprog
  have lprog : prog.length = per.sum := by simp [hprog, hcount]
  have lfs : ∀ k, (Np.repeatEach per (col xc k)).length = per.sum := fun k =>
    Np.length_repeatEach per _ (by simp [col, lper])
  have lgrp : (Np.repeatEach per (Np.arange fc xc.length)).length = per.sum :=
    Np.length_repeatEach per _ (by simp [lper])
  have hchild : List.Forall₂ (fun (ss : Nat × Nat) c => ∃ F M, pop[ss.1]? = some F ∧ pop[ss.2]? = some M ∧ Child xo F M c)
      (List.zip (Np.repeatEach per (col xc 0)) (Np.repeatEach per (col xc 1))) prog := by
    rw [List.forall₂_iff_get]
    refine ⟨by simp [lfs, lprog], ?_⟩
    intro i hi1 hi2
    have hi : i < per.sum := by rw [← lprog]; exact hi2
    have hir : i < out.rows.length := by rw [hcount]; exact hi
    have hok := hrowsOK _ (List.getElem_mem hir)
    simp only [rowOK, Bool.and_eq_true, decide_eq_true_eq] at hok
    obtain ⟨hfc', hrest⟩ := hok
    -- family label of row i and the selections at position i come from the same cross
    have hgi : (out.rows[i]).grp = (Np.repeatEach per (Np.arange fc xc.length))[i]'(by rw [lgrp]; exact hi) := by
      have := congrArg (fun l => l[i]?) hgrp
      simp only [List.getElem?_map, List.getElem?_eq_getElem hir, Option.map_some] at this
      rw [List.getElem?_eq_getElem (by rw [lgrp]; exact hi)] at this
      exact Option.some.inj this
    have hz : (((Np.repeatEach per (col xc 0))[i]'(by rw [lfs]; exact hi),
                (Np.repeatEach per (col xc 1))[i]'(by rw [lfs]; exact hi)),
               (Np.repeatEach per (Np.arange fc xc.length))[i]'(by rw [lgrp]; exact hi)) ∈
        List.zip (List.zip (col xc 0) (col xc 1)) (Np.arange fc xc.length) := by
      apply Np.mem_of_mem_repeatEach (c := per)
      rw [← Np.zip_repeatEach, ← Np.zip_repeatEach, List.mem_iff_getElem]
      exact ⟨i, by simp [lfs, lgrp]; exact hi, by simp⟩
    obtain ⟨k, hk, hke⟩ := List.mem_iff_getElem.mp hz
    simp only [List.getElem_zip, Np.getElem_arange, Prod.mk.injEq] at hke
    obtain ⟨⟨hk0, hk1⟩, hk2⟩ := hke
    have hkx : k < xc.length := by simp [col] at hk; omega
    have hc0 : (col xc 0)[k]'(by simp [col]; exact hkx) = xc[k].getD 0 0 := by simp [col]
    have hc1 : (col xc 1)[k]'(by simp [col]; exact hkx) = xc[k].getD 1 0 := by simp [col]
    rw [hc0] at hk0
    rw [hc1] at hk1
    have hcross : xc[(out.rows[i]).grp - fc]? = some xc[k] := by
      rw [hgi, ← hk2]; simp [hkx]
    rw [hcross] at hrest
    simp only [sources, if_true, Bool.and_eq_true, mosaicCheck_iff] at hrest
    obtain ⟨⟨⟨m1, m2⟩, _⟩, _⟩ := hrest
    obtain ⟨F, hF, mF⟩ := mosaic_parentHaps m1
    obtain ⟨M, hM, mM⟩ := mosaic_parentHaps m2
    simp only [List.get_eq_getElem, List.getElem_zip]
    refine ⟨F, M, by rw [← hk0]; exact hF, by rw [← hk1]; exact hM, ?_, ?_⟩
    · simpa [hprog] using mF
    · simpa [hprog] using mM
  obtain ⟨rf, rm, hnn, hmate⟩ := mateE_realises xo pop pop hshape hshape hstart _ _ prog []
    (by rw [lfs, lfs]) hchild
  refine ⟨[rf, rm], hnn, ?_⟩
  have hgen : generate .twoWay pop xc nm np 0 xo [rf, rm] = .ok (prog, []) := by
    have hmate' := hmate
    rw [hper] at hmate'
    simp only [generate, hmate', selfLoop]
  have hwb : (xc.all fun r => r.length == Proto.twoWay.nparent) = true := by
    simp only [List.all_eq_true, beq_iff_eq]; exact hw
  have hfam : (families .twoWay fc xc.length nm np).length = prog.length := by
    rw [families_eq, lgrp, lprog]
  have hsortedG : (Np.repeatEach per (Np.arange fc xc.length)).Pairwise (· ≤ ·) :=
    Np.pairwise_repeatEach (fun a => le_refl a) _ _ (Np.pairwise_le_arange fc xc.length)
  have hfam' : families .twoWay fc xc.length nm np = Np.repeatEach per (Np.arange fc xc.length) := families_eq _ _ _ _ _
  have hrows : groupTaxa (genRows .twoWay prog pc (families .twoWay fc xc.length nm np)) = out.rows := by
    rw [hfam'] at hfam ⊢
    rw [groupTaxa_sorted _ (genRows_sorted .twoWay prog pc _ hfam hsortedG (by rw [lprog, ← hcount]; exact hsmall))]
    apply List.ext_getElem
    · rw [genRows_length _ _ _ _ hfam, lprog, hcount]
    · intro i h1 h2
      rw [genRows_getElem _ _ _ _ hfam]
      have e1 : prog[i]'(by rw [lprog, ← hcount]; exact h2) = (out.rows[i]).ind := by simp [hprog]
      have e2 : name Proto.twoWay.pre (pc + i) = (out.rows[i]).name := by
        have := congrArg (fun l => l[i]?) hnames'
        simp only [List.getElem?_map, List.getElem?_eq_getElem h2, Option.map_some] at this
        rw [List.getElem?_eq_getElem (by simp; rw [← hcount]; exact h2)] at this
        have := Option.some.inj this
        rw [this]
        simp [Np.arange, Nat.add_comm]
      have e3 : (Np.repeatEach per (Np.arange fc xc.length))[i]'(by rw [lgrp, ← hcount]; exact h2) = (out.rows[i]).grp := by
        have := congrArg (fun l => l[i]?) hgrp
        simp only [List.getElem?_map, List.getElem?_eq_getElem h2, Option.map_some] at this
        rw [List.getElem?_eq_getElem (by rw [lgrp, ← hcount]; exact h2)] at this
        exact (Option.some.inj this).symm
      rw [e1, e2, e3]
  cases hm : mate .twoWay pop xc nmating nprogeny 0 xo pc fc [rf, rm] with
  | error e =>
    exfalso
    simp only [mate, hs, hwb, hnm, hnp, hgen, Bool.not_true, Bool.false_eq_true, if_false,
      List.isEmpty_nil] at hm
    simp [hfam] at hm
  | ok out' =>
    obtain ⟨nm', np', prog', _, hnm', hnp', hgen', _, hr', hpc', hfc'⟩ := mate_inv hm
    rw [hnm] at hnm'; cases hnm'
    rw [hnp] at hnp'; cases hnp'
    rw [hgen] at hgen'
    simp only [Except.ok.injEq, Prod.mk.injEq, and_true] at hgen'
    subst hgen'
    refine ⟨out', rfl, ?_, ?_, ?_⟩
    · rw [hr', hrows]
    · rw [hpc', hpc, lprog]
    · rw [hfc', hfc]

end Mating
