/-
Helper lemmas for C01: the model accepts every valid input.  `Mating.mate` returns `.ok` whenever
the genotype matrix is rectangular, the configuration has the protocol's width and only names
taxa of the matrix, the count arrays have one entry per cross, and the supplied draw matrices have
the shapes the code requests (`Mating.drawRows`).
-/
import Mathlib.Tactic
import PybropsModel.Lemmas.MatingSpec
set_option autoImplicit false
set_option linter.unusedSectionVars false

namespace Mating
open Meiosis
variable {α ρ : Type} [Preorder ρ] [DecidableLT ρ] [Zero ρ]

/-- number of rows of each `rng.uniform` call of a `mate()` call, in call order
    (`M = Σ nmating`, `T = Σ nmating·nprogeny`) -/
def drawRows (P : Proto) (nm np : List Nat) (nself : Nat) : List Nat :=
  let T := (List.zipWith (· * ·) nm np).sum
  let M := nm.sum
  match P with
  | .self | .twoWay => List.replicate 2 T ++ List.replicate (2 * nself) T
  | .twoWayDH => List.replicate 2 M ++ List.replicate (2 * nself) M ++ [T]
  | .threeWay => List.replicate 2 M ++ List.replicate 2 T ++ List.replicate (2 * nself) T
  | .threeWayDH => List.replicate 2 M ++ List.replicate 2 M ++ List.replicate (2 * nself) M ++ [T]
  | .fourWay => List.replicate 2 M ++ List.replicate 2 M ++ List.replicate 2 T ++ List.replicate (2 * nself) T
  | .fourWayDH =>
      List.replicate 2 M ++ List.replicate 2 M ++ List.replicate 2 M ++ List.replicate (2 * nself) M ++ [T]

/-- the draw matrices have the requested shapes -/
def DrawsFit (rows : List Nat) (nv : Nat) (d : List (DrawMat ρ)) : Prop :=
  List.Forall₂ (fun n m => drawsShaped n nv m = true) rows d

theorem rowsE_ok (pop : Pop α) (xo : List ρ) : ∀ (sel : List Nat) (rnd : DrawMat ρ),
    (∀ s ∈ sel, s < pop.length) → ∃ gs, rowsE pop xo sel rnd = .ok gs
  | [], _, _ => ⟨[], rfl⟩
  | s :: sel, rnd, h => by
    have hs : s < pop.length := h s (by simp)
    obtain ⟨gs, hgs⟩ := rowsE_ok pop xo sel rnd.tail (fun x hx => h x (by simp [hx]))
    refine ⟨gameteLoop pop[s] (xoMask (rnd.headD []) xo) :: gs, ?_⟩
    simp only [rowsE, List.getElem?_eq_getElem hs, hgs]

theorem meiosisE_ok {pop : Pop α} {xo : List ρ} {sel : List Nat} {rnd : DrawMat ρ}
    (hv : ∀ s ∈ sel, s < pop.length) (hd : drawsShaped sel.length xo.length rnd = true) :
    ∃ gs, meiosisE pop sel xo rnd = .ok gs ∧ gs.length = sel.length := by
  obtain ⟨gs, hgs⟩ := rowsE_ok pop xo sel rnd hv
  refine ⟨gs, ?_, rowsE_length hgs⟩
  simp [meiosisE, hd, hgs]

theorem mateE_ok {fpop mpop : Pop α} {xo : List ρ} {fsel msel : List Nat} {n : Nat} {rf rm : DrawMat ρ}
    {rest : List (DrawMat ρ)}
    (hf : ∀ s ∈ fsel, s < fpop.length) (hm : ∀ s ∈ msel, s < mpop.length)
    (lf : fsel.length = n) (lm : msel.length = n)
    (df : drawsShaped n xo.length rf = true) (dm : drawsShaped n xo.length rm = true) :
    ∃ out, mateE fpop mpop fsel msel xo (rf :: rm :: rest) = .ok (out, rest) ∧ out.length = n := by
  subst lf
  obtain ⟨fg, hfg, lfg⟩ := meiosisE_ok hf df
  obtain ⟨mg, hmg, lmg⟩ := meiosisE_ok (xo := xo) (rnd := rm) hm (by rw [lm]; exact dm)
  refine ⟨List.zip fg mg, ?_, by simp [lfg, lmg, lm]⟩
  simp [mateE, hfg, hmg, lfg, lmg, lm]

theorem dhE_ok {pop : Pop α} {xo : List ρ} {sel : List Nat} {n : Nat} {r : DrawMat ρ} {rest : List (DrawMat ρ)}
    (hv : ∀ s ∈ sel, s < pop.length) (l : sel.length = n) (dr : drawsShaped n xo.length r = true) :
    ∃ out, dhE pop sel xo (r :: rest) = .ok (out, rest) ∧ out.length = n := by
  subst l
  obtain ⟨g, hg, lg⟩ := meiosisE_ok hv dr
  exact ⟨g.map (fun h => (h, h)), by simp [dhE, hg], by simp [lg]⟩

theorem mem_arange_lt {n s : Nat} (h : s ∈ Np.arange 0 n) : s < n := by
  simp [Np.arange] at h
  omega

theorem selfLoop_ok {xo : List ρ} : ∀ (nself : Nat) {pop : Pop α} {d rest : List (DrawMat ρ)},
    DrawsFit (List.replicate (2 * nself) pop.length) xo.length d →
    ∃ out, selfLoop xo (Np.arange 0 pop.length) nself pop (d ++ rest) = .ok (out, rest) ∧ out.length = pop.length := by
  intro nself
  induction nself with
  | zero =>
    intro pop d rest hd
    have : d = [] := by
      unfold DrawsFit at hd
      simpa using hd.length_eq.symm
    subst this
    exact ⟨pop, rfl, rfl⟩
  | succ n ih =>
    intro pop d rest hd
    unfold DrawsFit at hd
    rw [show 2 * (n + 1) = (2 * n + 1) + 1 by ring, List.replicate_succ, List.replicate_succ] at hd
    cases hd with
    | cons h1 hd1 =>
      cases hd1 with
      | cons h2 hd2 =>
        rename_i rf d1 rm d2
        obtain ⟨p', hp', lp'⟩ := mateE_ok (fpop := pop) (mpop := pop) (xo := xo) (rest := d2 ++ rest)
          (fsel := Np.arange 0 pop.length) (msel := Np.arange 0 pop.length)
          (fun s hs => mem_arange_lt hs) (fun s hs => mem_arange_lt hs) (by simp) (by simp) h1 h2
        have hd2' : DrawsFit (List.replicate (2 * n) p'.length) xo.length d2 := by rw [lp']; exact hd2
        obtain ⟨out, hout, lout⟩ := ih (pop := p') (rest := rest) hd2'
        refine ⟨out, ?_, by rw [lout, lp']⟩
        simp only [List.cons_append, selfLoop, hp']
        rw [← lp']
        exact hout

theorem drawsFit_append {nv : Nat} : ∀ {rows1 rows2 : List Nat} {d : List (DrawMat ρ)},
    DrawsFit (rows1 ++ rows2) nv d →
    ∃ d1 d2, d = d1 ++ d2 ∧ DrawsFit rows1 nv d1 ∧ DrawsFit rows2 nv d2
  | [], rows2, d, h => ⟨[], d, rfl, List.Forall₂.nil, h⟩
  | n :: rows1, rows2, d, h => by
    unfold DrawsFit at h
    rw [List.cons_append] at h
    cases h with
    | cons h1 h' =>
      obtain ⟨d1, d2, rfl, a, b⟩ := drawsFit_append (rows1 := rows1) h'
      exact ⟨_ :: d1, d2, rfl, List.Forall₂.cons h1 a, b⟩

theorem drawsFit_two {n nv : Nat} {d : List (DrawMat ρ)} (h : DrawsFit (List.replicate 2 n) nv d) :
    ∃ a b, d = [a, b] ∧ drawsShaped n nv a = true ∧ drawsShaped n nv b = true := by
  unfold DrawsFit at h
  cases h with
  | cons h1 h' =>
    cases h' with
    | cons h2 h'' =>
      cases h''
      exact ⟨_, _, rfl, h1, h2⟩

theorem drawsFit_one {n nv : Nat} {d : List (DrawMat ρ)} (h : DrawsFit [n] nv d) :
    ∃ a, d = [a] ∧ drawsShaped n nv a = true := by
  unfold DrawsFit at h
  cases h with
  | cons h1 h' =>
    cases h'
    exact ⟨_, rfl, h1⟩

/-! ### the seven protocols accept valid inputs -/

variable {pop : Pop α} {xc : List (List Nat)} {nm np : List Nat} {nself : Nat} {xo : List ρ}
  {d : List (DrawMat ρ)}

theorem col_valid {k w : Nat} (hw : ∀ r ∈ xc, r.length = w) (hk : k < w)
    (hidx : ∀ r ∈ xc, ∀ s ∈ r, s < pop.length) : ∀ s ∈ col xc k, s < pop.length := by
  intro s hs
  obtain ⟨r, hr, rfl⟩ := List.mem_map.mp hs
  have : k < r.length := by rw [hw r hr]; exact hk
  rw [List.getD_eq_getElem?_getD, List.getElem?_eq_getElem this]
  exact hidx r hr _ (List.getElem_mem this)

theorem sel_valid {k w : Nat} (c : List Nat) (hw : ∀ r ∈ xc, r.length = w) (hk : k < w)
    (hidx : ∀ r ∈ xc, ∀ s ∈ r, s < pop.length) : ∀ s ∈ Np.repeatEach c (col xc k), s < pop.length :=
  fun s hs => col_valid hw hk hidx s (Np.mem_of_mem_repeatEach hs)

theorem sel_length (c : List Nat) (k : Nat) (hc : c.length = xc.length) :
    (Np.repeatEach c (col xc k)).length = c.sum :=
  Np.length_repeatEach c _ (by simp [col, hc])

theorem nested_valid {n : Nat} (c : List Nat) : ∀ s ∈ Np.repeatEach c (Np.arange 0 n), s < n :=
  fun _ hs => mem_arange_lt (Np.mem_of_mem_repeatEach hs)

theorem nested_length {n : Nat} (hl : nm.length = np.length) (hn : n = nm.sum) :
    (Np.repeatEach (Np.repeatEach nm np) (Np.arange 0 n)).length = (List.zipWith (· * ·) nm np).sum := by
  rw [Np.length_repeatEach _ _ (by rw [Np.length_repeatEach_same nm np hl, Np.length_arange, hn]),
    Np.sum_repeatEach]

/-- hypotheses shared by the seven acceptance lemmas -/
structure ValidIn (P : Proto) (pop : Pop α) (xc : List (List Nat)) (nm np : List Nat) : Prop where
  width : ∀ r ∈ xc, r.length = P.nparent
  index : ∀ r ∈ xc, ∀ s ∈ r, s < pop.length
  lnm : nm.length = xc.length
  lnp : np.length = xc.length

theorem ValidIn.lmp {P : Proto} (v : ValidIn P pop xc nm np) : (List.zipWith (· * ·) nm np).length = xc.length := by
  simp [v.lnm, v.lnp]

theorem total_self (v : ValidIn .self pop xc nm np) (hd : DrawsFit (drawRows .self nm np nself) xo.length d) :
    ∃ prog, generate .self pop xc nm np nself xo d = .ok (prog, []) ∧ prog.length = (List.zipWith (· * ·) nm np).sum := by
  simp only [drawRows] at hd
  obtain ⟨d1, d2, rfl, h1, h2⟩ := drawsFit_append hd
  obtain ⟨a, b, rfl, ha, hb⟩ := drawsFit_two h1
  have hv := sel_valid (List.zipWith (· * ·) nm np) v.width (by decide : 0 < Proto.self.nparent) v.index
  have hl := sel_length (xc := xc) (List.zipWith (· * ·) nm np) 0 v.lmp
  obtain ⟨h, hh, lh⟩ := mateE_ok (fpop := pop) (mpop := pop) (xo := xo) (rest := d2) hv hv hl hl ha hb
  obtain ⟨out, hout, lout⟩ := selfLoop_ok (xo := xo) nself (pop := h) (rest := []) (by rw [lh]; exact h2)
  refine ⟨out, ?_, by rw [lout, lh]⟩
  simp only [generate, List.cons_append, List.nil_append, hh]
  simpa using hout

theorem total_twoWay (v : ValidIn .twoWay pop xc nm np) (hd : DrawsFit (drawRows .twoWay nm np nself) xo.length d) :
    ∃ prog, generate .twoWay pop xc nm np nself xo d = .ok (prog, []) ∧ prog.length = (List.zipWith (· * ·) nm np).sum := by
  simp only [drawRows] at hd
  obtain ⟨d1, d2, rfl, h1, h2⟩ := drawsFit_append hd
  obtain ⟨a, b, rfl, ha, hb⟩ := drawsFit_two h1
  have hv0 := sel_valid (List.zipWith (· * ·) nm np) v.width (by decide : 0 < Proto.twoWay.nparent) v.index
  have hv1 := sel_valid (List.zipWith (· * ·) nm np) v.width (by decide : 1 < Proto.twoWay.nparent) v.index
  have hl0 := sel_length (xc := xc) (List.zipWith (· * ·) nm np) 0 v.lmp
  have hl1 := sel_length (xc := xc) (List.zipWith (· * ·) nm np) 1 v.lmp
  obtain ⟨h, hh, lh⟩ := mateE_ok (fpop := pop) (mpop := pop) (xo := xo) (rest := d2) hv0 hv1 hl0 hl1 ha hb
  obtain ⟨out, hout, lout⟩ := selfLoop_ok (xo := xo) nself (pop := h) (rest := []) (by rw [lh]; exact h2)
  refine ⟨out, ?_, by rw [lout, lh]⟩
  simp only [generate, List.cons_append, List.nil_append, hh]
  simpa using hout

theorem total_twoWayDH (v : ValidIn .twoWayDH pop xc nm np)
    (hd : DrawsFit (drawRows .twoWayDH nm np nself) xo.length d) :
    ∃ prog, generate .twoWayDH pop xc nm np nself xo d = .ok (prog, []) ∧ prog.length = (List.zipWith (· * ·) nm np).sum := by
  simp only [drawRows] at hd
  obtain ⟨d12, d3, rfl, h12, h3⟩ := drawsFit_append hd
  obtain ⟨d1, d2, rfl, h1, h2⟩ := drawsFit_append h12
  obtain ⟨a, b, rfl, ha, hb⟩ := drawsFit_two h1
  obtain ⟨c, rfl, hc⟩ := drawsFit_one h3
  have hv0 := sel_valid nm v.width (by decide : 0 < Proto.twoWayDH.nparent) v.index
  have hv1 := sel_valid nm v.width (by decide : 1 < Proto.twoWayDH.nparent) v.index
  have hl0 := sel_length (xc := xc) nm 0 v.lnm
  have hl1 := sel_length (xc := xc) nm 1 v.lnm
  obtain ⟨h, hh, lh⟩ := mateE_ok (fpop := pop) (mpop := pop) (xo := xo) (rest := d2 ++ [c]) hv0 hv1 hl0 hl1 ha hb
  obtain ⟨h', hh', lh'⟩ := selfLoop_ok (xo := xo) nself (pop := h) (rest := [c]) (by rw [lh]; exact h2)
  obtain ⟨out, hout, lout⟩ := dhE_ok (pop := h') (xo := xo) (rest := [])
    (sel := Np.repeatEach (Np.repeatEach nm np) (Np.arange 0 h'.length)) (nested_valid _)
    (nested_length (by rw [v.lnm, v.lnp]) (by rw [lh', lh])) hc
  refine ⟨out, ?_, lout⟩
  simp only [generate, List.cons_append, List.nil_append, hh, hh', hout]

theorem total_threeWay (v : ValidIn .threeWay pop xc nm np)
    (hd : DrawsFit (drawRows .threeWay nm np nself) xo.length d) :
    ∃ prog, generate .threeWay pop xc nm np nself xo d = .ok (prog, []) ∧ prog.length = (List.zipWith (· * ·) nm np).sum := by
  simp only [drawRows] at hd
  obtain ⟨d12, d3, rfl, h12, h3⟩ := drawsFit_append hd
  obtain ⟨d1, d2, rfl, h1, h2⟩ := drawsFit_append h12
  obtain ⟨a, b, rfl, ha, hb⟩ := drawsFit_two h1
  obtain ⟨a', b', rfl, ha', hb'⟩ := drawsFit_two h2
  have hv0 := sel_valid (List.zipWith (· * ·) nm np) v.width (by decide : 0 < Proto.threeWay.nparent) v.index
  have hv1 := sel_valid nm v.width (by decide : 1 < Proto.threeWay.nparent) v.index
  have hv2 := sel_valid nm v.width (by decide : 2 < Proto.threeWay.nparent) v.index
  have hl0 := sel_length (xc := xc) (List.zipWith (· * ·) nm np) 0 v.lmp
  have hl1 := sel_length (xc := xc) nm 1 v.lnm
  have hl2 := sel_length (xc := xc) nm 2 v.lnm
  obtain ⟨f1, hf1, lf1⟩ := mateE_ok (fpop := pop) (mpop := pop) (xo := xo) (rest := a' :: b' :: d3) hv1 hv2 hl1 hl2 ha hb
  obtain ⟨h, hh, lh⟩ := mateE_ok (fpop := pop) (mpop := f1) (xo := xo) (rest := d3)
    (msel := Np.repeatEach (Np.repeatEach nm np) (Np.arange 0 f1.length)) hv0 (nested_valid _) hl0
    (nested_length (by rw [v.lnm, v.lnp]) lf1) ha' hb'
  obtain ⟨out, hout, lout⟩ := selfLoop_ok (xo := xo) nself (pop := h) (rest := []) (by rw [lh]; exact h3)
  refine ⟨out, ?_, by rw [lout, lh]⟩
  simp only [generate, List.cons_append, List.nil_append, hf1, hh]
  simpa using hout

theorem total_threeWayDH (v : ValidIn .threeWayDH pop xc nm np)
    (hd : DrawsFit (drawRows .threeWayDH nm np nself) xo.length d) :
    ∃ prog, generate .threeWayDH pop xc nm np nself xo d = .ok (prog, []) ∧ prog.length = (List.zipWith (· * ·) nm np).sum := by
  simp only [drawRows] at hd
  obtain ⟨d123, d4, rfl, h123, h4⟩ := drawsFit_append hd
  obtain ⟨d12, d3, rfl, h12, h3⟩ := drawsFit_append h123
  obtain ⟨d1, d2, rfl, h1, h2⟩ := drawsFit_append h12
  obtain ⟨a, b, rfl, ha, hb⟩ := drawsFit_two h1
  obtain ⟨a', b', rfl, ha', hb'⟩ := drawsFit_two h2
  obtain ⟨c, rfl, hc⟩ := drawsFit_one h4
  have hv0 := sel_valid nm v.width (by decide : 0 < Proto.threeWayDH.nparent) v.index
  have hv1 := sel_valid nm v.width (by decide : 1 < Proto.threeWayDH.nparent) v.index
  have hv2 := sel_valid nm v.width (by decide : 2 < Proto.threeWayDH.nparent) v.index
  have hl0 := sel_length (xc := xc) nm 0 v.lnm
  have hl1 := sel_length (xc := xc) nm 1 v.lnm
  have hl2 := sel_length (xc := xc) nm 2 v.lnm
  obtain ⟨f1, hf1, lf1⟩ := mateE_ok (fpop := pop) (mpop := pop) (xo := xo) (rest := a' :: b' :: (d3 ++ [c]))
    hv1 hv2 hl1 hl2 ha hb
  obtain ⟨bc, hbc, lbc⟩ := mateE_ok (fpop := pop) (mpop := f1) (xo := xo) (rest := d3 ++ [c])
    (msel := Np.arange 0 f1.length) hv0 (fun s hs => mem_arange_lt hs) hl0 (by simp [lf1]) ha' hb'
  obtain ⟨bc', hbc', lbc'⟩ := selfLoop_ok (xo := xo) nself (pop := bc) (rest := [c]) (by rw [lbc]; exact h3)
  obtain ⟨out, hout, lout⟩ := dhE_ok (pop := bc') (xo := xo) (rest := [])
    (sel := Np.repeatEach (Np.repeatEach nm np) (Np.arange 0 bc'.length)) (nested_valid _)
    (nested_length (by rw [v.lnm, v.lnp]) (by rw [lbc', lbc])) hc
  refine ⟨out, ?_, lout⟩
  simp only [generate, List.cons_append, List.nil_append, hf1, hbc, hbc', hout]

theorem total_fourWay (v : ValidIn .fourWay pop xc nm np)
    (hd : DrawsFit (drawRows .fourWay nm np nself) xo.length d) :
    ∃ prog, generate .fourWay pop xc nm np nself xo d = .ok (prog, []) ∧ prog.length = (List.zipWith (· * ·) nm np).sum := by
  simp only [drawRows] at hd
  obtain ⟨d123, d4, rfl, h123, h4⟩ := drawsFit_append hd
  obtain ⟨d12, d3, rfl, h12, h3⟩ := drawsFit_append h123
  obtain ⟨d1, d2, rfl, h1, h2⟩ := drawsFit_append h12
  obtain ⟨a, b, rfl, ha, hb⟩ := drawsFit_two h1
  obtain ⟨a', b', rfl, ha', hb'⟩ := drawsFit_two h2
  obtain ⟨a'', b'', rfl, ha'', hb''⟩ := drawsFit_two h3
  have hv0 := sel_valid nm v.width (by decide : 0 < Proto.fourWay.nparent) v.index
  have hv1 := sel_valid nm v.width (by decide : 1 < Proto.fourWay.nparent) v.index
  have hv2 := sel_valid nm v.width (by decide : 2 < Proto.fourWay.nparent) v.index
  have hv3 := sel_valid nm v.width (by decide : 3 < Proto.fourWay.nparent) v.index
  have hl0 := sel_length (xc := xc) nm 0 v.lnm
  have hl1 := sel_length (xc := xc) nm 1 v.lnm
  have hl2 := sel_length (xc := xc) nm 2 v.lnm
  have hl3 := sel_length (xc := xc) nm 3 v.lnm
  obtain ⟨ab, hab, lab⟩ := mateE_ok (fpop := pop) (mpop := pop) (xo := xo)
    (rest := a' :: b' :: a'' :: b'' :: d4) hv2 hv3 hl2 hl3 ha hb
  obtain ⟨cd, hcd, lcd⟩ := mateE_ok (fpop := pop) (mpop := pop) (xo := xo) (rest := a'' :: b'' :: d4)
    hv0 hv1 hl0 hl1 ha' hb'
  obtain ⟨h, hh, lh⟩ := mateE_ok (fpop := ab) (mpop := cd) (xo := xo) (rest := d4)
    (fsel := Np.repeatEach (Np.repeatEach nm np) (Np.arange 0 ab.length))
    (msel := Np.repeatEach (Np.repeatEach nm np) (Np.arange 0 cd.length)) (nested_valid _) (nested_valid _)
    (nested_length (by rw [v.lnm, v.lnp]) lab) (nested_length (by rw [v.lnm, v.lnp]) lcd) ha'' hb''
  obtain ⟨out, hout, lout⟩ := selfLoop_ok (xo := xo) nself (pop := h) (rest := []) (by rw [lh]; exact h4)
  refine ⟨out, ?_, by rw [lout, lh]⟩
  simp only [generate, List.cons_append, List.nil_append, hab, hcd, hh]
  simpa using hout

theorem total_fourWayDH (v : ValidIn .fourWayDH pop xc nm np)
    (hd : DrawsFit (drawRows .fourWayDH nm np nself) xo.length d) :
    ∃ prog, generate .fourWayDH pop xc nm np nself xo d = .ok (prog, []) ∧ prog.length = (List.zipWith (· * ·) nm np).sum := by
  simp only [drawRows] at hd
  obtain ⟨d1234, d5, rfl, h1234, h5⟩ := drawsFit_append hd
  obtain ⟨d123, d4, rfl, h123, h4⟩ := drawsFit_append h1234
  obtain ⟨d12, d3, rfl, h12, h3⟩ := drawsFit_append h123
  obtain ⟨d1, d2, rfl, h1, h2⟩ := drawsFit_append h12
  obtain ⟨a, b, rfl, ha, hb⟩ := drawsFit_two h1
  obtain ⟨a', b', rfl, ha', hb'⟩ := drawsFit_two h2
  obtain ⟨a'', b'', rfl, ha'', hb''⟩ := drawsFit_two h3
  obtain ⟨c, rfl, hc⟩ := drawsFit_one h5
  have hv0 := sel_valid nm v.width (by decide : 0 < Proto.fourWayDH.nparent) v.index
  have hv1 := sel_valid nm v.width (by decide : 1 < Proto.fourWayDH.nparent) v.index
  have hv2 := sel_valid nm v.width (by decide : 2 < Proto.fourWayDH.nparent) v.index
  have hv3 := sel_valid nm v.width (by decide : 3 < Proto.fourWayDH.nparent) v.index
  have hl0 := sel_length (xc := xc) nm 0 v.lnm
  have hl1 := sel_length (xc := xc) nm 1 v.lnm
  have hl2 := sel_length (xc := xc) nm 2 v.lnm
  have hl3 := sel_length (xc := xc) nm 3 v.lnm
  obtain ⟨ab, hab, lab⟩ := mateE_ok (fpop := pop) (mpop := pop) (xo := xo)
    (rest := a' :: b' :: a'' :: b'' :: (d4 ++ [c])) hv2 hv3 hl2 hl3 ha hb
  obtain ⟨cd, hcd, lcd⟩ := mateE_ok (fpop := pop) (mpop := pop) (xo := xo) (rest := a'' :: b'' :: (d4 ++ [c]))
    hv0 hv1 hl0 hl1 ha' hb'
  obtain ⟨dih, hdih, ldih⟩ := mateE_ok (fpop := ab) (mpop := cd) (xo := xo) (rest := d4 ++ [c])
    (fsel := Np.arange 0 ab.length) (msel := Np.arange 0 cd.length)
    (fun s hs => mem_arange_lt hs) (fun s hs => mem_arange_lt hs) (by simp [lab]) (by simp [lcd]) ha'' hb''
  obtain ⟨dih', hdih', ldih'⟩ := selfLoop_ok (xo := xo) nself (pop := dih) (rest := [c]) (by rw [ldih]; exact h4)
  obtain ⟨out, hout, lout⟩ := dhE_ok (pop := dih') (xo := xo) (rest := [])
    (sel := Np.repeatEach (Np.repeatEach nm np) (Np.arange 0 dih'.length)) (nested_valid _)
    (nested_length (by rw [v.lnm, v.lnp]) (by rw [ldih', ldih])) hc
  refine ⟨out, ?_, lout⟩
  simp only [generate, List.cons_append, List.nil_append, hab, hcd, hdih, hdih', hout]

theorem generate_total (P : Proto) (v : ValidIn P pop xc nm np)
    (hd : DrawsFit (drawRows P nm np nself) xo.length d) :
    ∃ prog, generate P pop xc nm np nself xo d = .ok (prog, []) ∧ prog.length = (List.zipWith (· * ·) nm np).sum := by
  cases P
  · exact total_self v hd
  · exact total_twoWay v hd
  · exact total_twoWayDH v hd
  · exact total_threeWay v hd
  · exact total_threeWayDH v hd
  · exact total_fourWay v hd
  · exact total_fourWayDH v hd

/-- the model accepts every valid input -/
theorem mate_accepts (P : Proto) {nmating nprogeny : Cnt} {pc fc : Nat}
    (hs : popShaped pop xo.length = true)
    (hw : ∀ r ∈ xc, r.length = P.nparent) (hidx : ∀ r ∈ xc, ∀ s ∈ r, s < pop.length)
    (hnm : nmating.expand xc.length = .ok nm) (hnp : nprogeny.expand xc.length = .ok np)
    (hd : DrawsFit (drawRows P nm np nself) xo.length d) :
    ∃ out, mate P pop xc nmating nprogeny nself xo pc fc d = .ok out := by
  have v : ValidIn P pop xc nm np := ⟨hw, hidx, Cnt.expand_length hnm, Cnt.expand_length hnp⟩
  obtain ⟨prog, hgen, lprog⟩ := generate_total (nself := nself) (xo := xo) (d := d) P v hd
  have hwb : (xc.all fun r => r.length == P.nparent) = true := by
    simp only [List.all_eq_true, beq_iff_eq]; exact hw
  have hfam : (families P fc xc.length nm np).length = prog.length := by
    rw [families_eq, Np.length_repeatEach _ _ (by simp [v.lnm, v.lnp]), lprog]
  cases hm : mate P pop xc nmating nprogeny nself xo pc fc d with
  | ok out => exact ⟨out, rfl⟩
  | error e =>
    exfalso
    simp only [mate, hs, hwb, hnm, hnp, hgen, Bool.not_true, Bool.false_eq_true, if_false,
      List.isEmpty_nil] at hm
    simp [hfam] at hm

end Mating
