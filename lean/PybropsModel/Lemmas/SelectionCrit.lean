/-
Helper lemmas for C05: for every criterion the subset latentfn equals the shared `core` evaluated at
the normalised contribution vector of the listed parents; the vector latentfn is `core` at the
normalised decision vector by construction.
-/
import PybropsModel.Lemmas.SelectionSum
import PybropsModel.Lemmas.GMapSort
set_option autoImplicit false
set_option linter.unusedSectionVars false
set_option linter.unusedSimpArgs false

namespace Selection
open Finset

section crit
variable {α : Type} [Field α] [LinearOrder α] [IsStrictOrderedRing α] [HasSqrt α]

theorem latent_vec (eps : α) (cr : Crit α) (x : List α) :
    latent eps cr (.vec x) = core cr (contrib cr.guarded eps x) := by
  cases cr <;> rfl

theorem linSubset_eq (D : List (List α)) (n : Nat) (S : List Nat) (hS : ∀ i ∈ S, i < n) :
    linSubset D S = linCore D (unitShares n S) := by
  unfold linSubset linCore vecMat
  rw [List.map_map]
  apply List.map_congr_left
  intro j _
  simp only [Function.comp, unitShares_length]
  rw [rsum_unitShares_mul n S hS]
  ring

theorem pickCols_eq (C : List (List α)) (n : Nat) (S : List Nat) (hS : ∀ i ∈ S, i < n) :
    pickCols C S = matVec C (unitShares n S) := by
  unfold pickCols matVec
  apply List.map_congr_left
  intro row _
  simp only [unitShares_length]
  rw [rsum_mul_unitShares n S hS]

theorem familywt_eq (n : Nat) (S : List Nat) (hnd : S.Nodup) :
    ((List.range n).map fun i => if S.contains i then indcontrib (α := α) S else 0) = unitShares n S := by
  unfold unitShares indcontrib
  apply List.map_congr_left
  intro i _
  rw [hnd.count]
  by_cases h : i ∈ S <;> simp [h]

/-- for every criterion with vector classes: subset latentfn = core at the normalised shares -/
theorem subset_eq_core (eps : α) (cr : Crit α) (hv : cr.hasVec = true) (S : List Nat) (hnd : S.Nodup)
    (hS : ∀ i ∈ S, i < cr.ncand) :
    latent eps cr (.subset S) = core cr (unitShares cr.ncand S) := by
  cases cr with
  | lin g D => simp only [latent, core]; rw [linSubset_eq D _ S hS]
  | ocs C D =>
    simp only [latent, core]
    rw [pickCols_eq C _ S hS, linSubset_eq D _ S hS]
  | mgr C => simp only [latent, core]; rw [pickCols_eq C _ S hS]
  | meh C => simp only [latent, core]; rw [pickCols_eq C _ S hS]
  | l1 V =>
    simp only [latent, core]
    congr 1
    apply List.map_congr_left
    intro Vt _
    rw [pickCols_eq Vt _ S hS]
  | l2 C =>
    simp only [latent, core]
    congr 1
    apply List.map_congr_left
    intro Ct _
    rw [pickCols_eq Ct _ S hS]
  | family D fix nfam =>
    simp only [latent, core]
    have hfw := familywt_eq (α := α) fix.length S hnd
    simp only [Crit.ncand] at hS ⊢
    rw [linSubset_eq D _ S hS, hfw]
  | opv H => simp [Crit.hasVec] at hv
  | gb H nb => simp [Crit.hasVec] at hv
  | pafd g p w tf => simp [Crit.hasVec] at hv
  | pau g p w tf => simp [Crit.hasVec] at hv
  | mogs g p w tf => simp [Crit.hasVec] at hv

end crit

/-! ### listing order -/
section perm
variable {α : Type} [Field α] [LinearOrder α] [IsStrictOrderedRing α] [HasSqrt α]

theorem indcontrib_perm (S S' : List Nat) (h : S.Perm S') : indcontrib (α := α) S = indcontrib S' := by
  unfold indcontrib; rw [h.length_eq]

theorem linSubset_perm (D : List (List α)) (S S' : List Nat) (h : S.Perm S') :
    linSubset D S = linSubset D S' := by
  unfold linSubset
  apply List.map_congr_left
  intro j _
  rw [indcontrib_perm S S' h, ssum_perm S S' h]

theorem pickCols_perm (C : List (List α)) (S S' : List Nat) (h : S.Perm S') :
    pickCols C S = pickCols C S' := by
  unfold pickCols
  apply List.map_congr_left
  intro row _
  rw [indcontrib_perm S S' h, ssum_perm S S' h]

theorem pfreq_perm (g : List (List α)) (p : Nat) (S S' : List Nat) (h : S.Perm S') (m : Nat) :
    pfreq g p S m = pfreq g p S' m := by
  unfold pfreq
  rw [ssum_perm S S' h, h.length_eq]

theorem pafdSubset_perm (g : List (List α)) (p : Nat) (w tf : List (List α)) (S S' : List Nat)
    (h : S.Perm S') : pafdSubset g p w tf S = pafdSubset g p w tf S' := by
  unfold pafdSubset
  simp only [pfreq_perm g p S S' h]

theorem pauSubset_perm (g : List (List α)) (p : Nat) (w tf : List (List α)) (S S' : List Nat)
    (h : S.Perm S') : pauSubset g p w tf S = pauSubset g p w tf S' := by
  unfold pauSubset pauWith
  simp only [pfreq_perm g p S S' h]

theorem mogsPau_perm (g : List (List α)) (p : Nat) (w tf : List (List α)) (S S' : List Nat)
    (h : S.Perm S') : mogsPau g p w tf S = mogsPau g p w tf S' := by
  unfold mogsPau
  simp only [pfreq_perm g p S S' h]

/-- `maxL` is the greatest element of a non-empty list -/
theorem maxL_foldl (l : List α) (m0 : α) :
    let r := l.foldl (fun m x => if m < x then x else m) m0
    (r = m0 ∨ r ∈ l) ∧ m0 ≤ r ∧ ∀ x ∈ l, x ≤ r := by
  induction l generalizing m0 with
  | nil => simp
  | cons a l ih =>
    simp only [List.foldl_cons]
    obtain ⟨h1, h2, h3⟩ := ih (if m0 < a then a else m0)
    have hm0 : m0 ≤ (if m0 < a then a else m0) := by split_ifs with h <;> [exact h.le; exact le_rfl]
    have ha : a ≤ (if m0 < a then a else m0) := by split_ifs with h <;> [exact le_rfl; exact not_lt.mp h]
    refine ⟨?_, hm0.trans h2, ?_⟩
    · rcases h1 with h1 | h1
      · rw [h1]
        split_ifs with h
        · right; exact List.mem_cons_self
        · left; rfl
      · right; exact List.mem_cons_of_mem _ h1
    · intro x hx
      rcases List.mem_cons.mp hx with rfl | hx
      · exact ha.trans h2
      · exact h3 x hx

theorem maxL_mem (l : List α) (hne : l ≠ []) : maxL l ∈ l := by
  cases l with
  | nil => exact absurd rfl hne
  | cons a l =>
    have := (maxL_foldl l a).1
    simp only [maxL, List.tail_cons, List.headD_cons]
    rcases this with h | h
    · rw [h]; exact List.mem_cons_self
    · exact List.mem_cons_of_mem _ h

theorem le_maxL (l : List α) (x : α) (hx : x ∈ l) : x ≤ maxL l := by
  cases l with
  | nil => cases hx
  | cons a l =>
    obtain ⟨_, h2, h3⟩ := maxL_foldl l a
    simp only [maxL, List.tail_cons, List.headD_cons]
    rcases List.mem_cons.mp hx with rfl | hx
    · exact h2
    · exact h3 x hx

theorem maxL_perm (l l' : List α) (h : l.Perm l') : maxL l = maxL l' := by
  by_cases hne : l = []
  · subst hne; rw [List.nil_perm.mp h]
  · have hne' : l' ≠ [] := fun e => hne (by subst e; exact List.perm_nil.mp h)
    apply le_antisymm
    · exact le_maxL l' _ (h.mem_iff.mp (maxL_mem l hne))
    · exact le_maxL l _ (h.mem_iff.mpr (maxL_mem l' hne'))

theorem opvSubset_perm (H : List (List (List (List α)))) (S S' : List Nat) (h : S.Perm S') :
    opvSubset H S = opvSubset H S' := by
  unfold opvSubset
  apply List.map_congr_left
  intro j _
  congr 1
  apply rsum_congr
  intro b _
  apply maxL_perm
  apply List.Perm.flatMap_left
  intro Hp _
  exact h.map _

/-- ascending sort is a canonical form: permuted inputs sort to the same list -/
theorem sortAsc_perm (l l' : List α) (h : l.Perm l') : sortAsc l = sortAsc l' := by
  unfold sortAsc
  apply GMap.stableSort_eq_of_perm _ _ _ h
  · intro a b _ _ hab hba
    simp only [Bool.not_eq_true', decide_eq_false_iff_not, not_lt] at hab hba
    exact le_antisymm hab hba
  · intro a b
    simp only [Bool.not_eq_true', decide_eq_false_iff_not, not_lt]
    exact le_total a b
  · intro a b c hab hbc
    simp only [Bool.not_eq_true', decide_eq_false_iff_not, not_lt] at hab hbc ⊢
    exact hab.trans hbc

theorem gbSubset_perm (H : List (List (List (List α)))) (nb : Nat) (S S' : List Nat) (h : S.Perm S') :
    gbSubset H nb S = gbSubset H nb S' := by
  unfold gbSubset
  apply List.map_congr_left
  intro j _
  congr 1
  apply rsum_congr
  intro b _
  simp only
  rw [sortAsc_perm _ _ (h.map _), h.length_eq]

/-- **order independence** of the subset encoding, every criterion -/
theorem latent_subset_perm (eps : α) (cr : Crit α) (S S' : List Nat) (h : S.Perm S') :
    latent eps cr (.subset S) = latent eps cr (.subset S') := by
  cases cr with
  | lin g D => simp only [latent]; rw [linSubset_perm D S S' h]
  | ocs C D => simp only [latent]; rw [pickCols_perm C S S' h, linSubset_perm D S S' h]
  | mgr C => simp only [latent]; rw [pickCols_perm C S S' h]
  | meh C => simp only [latent]; rw [pickCols_perm C S S' h]
  | l1 V => simp only [latent, pickCols_perm _ S S' h]
  | l2 C => simp only [latent, pickCols_perm _ S S' h]
  | family D fix nfam =>
    simp only [latent]
    rw [linSubset_perm D S S' h, indcontrib_perm S S' h]
    have : ∀ i, S.contains i = S'.contains i := by
      intro i
      rw [Bool.eq_iff_iff]
      simp [h.mem_iff]
    simp only [this]
  | opv H => simp only [latent]; rw [opvSubset_perm H S S' h]
  | gb H nb => simp only [latent]; rw [gbSubset_perm H nb S S' h]
  | pafd g p w tf => simp only [latent]; rw [pafdSubset_perm g p w tf S S' h]
  | pau g p w tf => simp only [latent]; rw [pauSubset_perm g p w tf S S' h]
  | mogs g p w tf => simp only [latent]; rw [mogsPau_perm g p w tf S S' h, pafdSubset_perm g p w tf S S' h]

end perm
end Selection
