/-
Helper lemmas for C05, round 4: problem OBJECTS with state (Model/SelectionObj.lean).
  * the masks the `tfreq` setters store stay consistent with the stored `tfreq` along every history, hence the
    mask-reading latentfn transcriptions equal the stateless ones on the fields the object now holds;
  * fields after a history = last assignment;
  * `numpy.unique(.., return_inverse=True)` as modelled: ascending, duplicate-free, `fam[ix[i]] = ids[i]`;
  * frame property of a store of objects; the Spec oracle of evalfn is sound and, at zero tolerance, exact.
-/
import PybropsModel.Lemmas.SelectionSpecGB
import PybropsModel.Model.SelectionObj
set_option autoImplicit false
set_option linter.unusedSectionVars false
set_option linter.unusedSimpArgs false

namespace Selection
open Finset Selection.Spec

section masks
variable {α : Type} [Field α] [LinearOrder α] [IsStrictOrderedRing α]

/-- the masks of an object describe its stored target frequencies -/
def TfObj.Consistent (o : TfObj α) : Prop :=
  o.tminor = calcTminor o.tfreq ∧ o.thet = calcThet o.tfreq ∧ o.tmajor = calcTmajor o.tfreq ∧
  o.fixMinor = calcFixMinor o.tfreq ∧ o.fixHeter = calcFixHeter o.tfreq ∧ o.fixMajor = calcFixMajor o.tfreq

theorem TfObj.step_consistent (o : TfObj α) (op : TfOp α) (h : o.Consistent) : (o.step op).Consistent := by
  cases op
  · exact h
  · exact h
  · exact h
  · exact ⟨rfl, rfl, rfl, rfl, rfl, rfl⟩

theorem TfObj.run_consistent (ops : List (TfOp α)) : ∀ (o : TfObj α), o.Consistent → (o.run ops).Consistent := by
  induction ops with
  | nil => intro o h; exact h
  | cons op ops ih => intro o h; exact ih (o.step op) (TfObj.step_consistent o op h)

theorem TfObj.new_consistent (g : List (List α)) (p : Nat) (w tf : List (List α)) :
    (TfObj.new g p w tf).Consistent := ⟨rfl, rfl, rfl, rfl, rfl, rfl⟩

theorem TfObj.new_fields (g : List (List α)) (p : Nat) (w tf : List (List α)) :
    (TfObj.new g p w tf).geno = g ∧ (TfObj.new g p w tf).ploidy = p ∧ (TfObj.new g p w tf).mkrwt = w ∧
    (TfObj.new g p w tf).tfreq = tf := ⟨rfl, rfl, rfl, rfl⟩

/-- fields after a history: the last assignment (else what the object held before) -/
theorem TfObj.run_fields (ops : List (TfOp α)) : ∀ (o : TfObj α),
    (o.run ops).geno = lastGeno o.geno ops ∧ (o.run ops).ploidy = lastPloidy o.ploidy ops ∧
    (o.run ops).mkrwt = lastMkrwt o.mkrwt ops ∧ (o.run ops).tfreq = lastTfreq o.tfreq ops := by
  induction ops with
  | nil => intro o; exact ⟨rfl, rfl, rfl, rfl⟩
  | cons op ops ih =>
    intro o
    have := ih (o.step op)
    cases op <;> simpa [TfObj.run, lastGeno, lastPloidy, lastMkrwt, lastTfreq, TfObj.step] using this

theorem bent_map (tf : List (List α)) (f : α → Bool) (m j : Nat) (hm : m < tf.length)
    (hj : j < (tf.getD m []).length) :
    bent (tf.map fun r => r.map f) m j = f (ent tf m j) := by
  unfold bent ent
  have h1 : (tf.map fun r => r.map f).getD m [] = (tf.getD m []).map f := by
    simp [List.getD, List.getElem?_map, hm]
  rw [h1]
  have hj' : j < (tf[m]?.getD []).length := by simpa [List.getD] using hj
  simp only [List.getD, List.getElem?_map, List.getElem?_eq_getElem hj', Option.map_some, Option.getD_some]

/-- the target-frequency array covers the weight array (numpy would not broadcast otherwise) -/
def TfShape (w tf : List (List α)) : Prop :=
  ∀ m j, m < w.length → j < ncols w → m < tf.length ∧ j < (tf.getD m []).length

theorem mem_range_rsum_congr (n : Nat) (f g : Nat → α) (h : ∀ m, m < n → f m = g m) : rsum n f = rsum n g := by
  unfold rsum
  congr 1
  apply List.map_congr_left
  intro m hm
  exact h m (List.mem_range.mp hm)

theorem TfObj.pauLatent_eq (o : TfObj α) (h : o.Consistent) (hs : TfShape o.mkrwt o.tfreq) (S : List Nat) :
    o.pauLatent S = pauSubset o.geno o.ploidy o.mkrwt o.tfreq S := by
  obtain ⟨h1, h2, h3, _, _, _⟩ := h
  unfold TfObj.pauLatent pauSubset pauWith
  apply List.map_congr_left
  intro j hj
  apply mem_range_rsum_congr
  intro m hm
  obtain ⟨hm', hj'⟩ := hs m j hm (List.mem_range.mp hj)
  rw [h1, h2, h3]
  unfold calcTminor calcThet calcTmajor
  rw [bent_map _ _ m j hm' hj', bent_map _ _ m j hm' hj', bent_map _ _ m j hm' hj']

theorem TfObj.mogsPauLatent_eq (o : TfObj α) (h : o.Consistent) (hs : TfShape o.mkrwt o.tfreq) (S : List Nat) :
    o.mogsPauLatent S = mogsPau o.geno o.ploidy o.mkrwt o.tfreq S := by
  obtain ⟨_, _, _, h4, h5, h6⟩ := h
  unfold TfObj.mogsPauLatent mogsPau
  apply List.map_congr_left
  intro j hj
  apply mem_range_rsum_congr
  intro m hm
  obtain ⟨hm', hj'⟩ := hs m j hm (List.mem_range.mp hj)
  rw [h4, h5, h6]
  unfold calcFixMinor calcFixHeter calcFixMajor
  rw [bent_map _ _ m j hm' hj', bent_map _ _ m j hm' hj', bent_map _ _ m j hm' hj']

end masks

/-! ### family index -/
section family

theorem insertAsc_mem (a : Nat) : ∀ (l : List Nat) (x : Nat), x ∈ insertAsc a l ↔ x = a ∨ x ∈ l
  | [], x => by simp [insertAsc]
  | b :: l, x => by
    unfold insertAsc
    split
    · simp
    · split
      · rename_i _ hab; subst hab; simp
      · simp only [List.mem_cons, insertAsc_mem a l x]
        constructor
        · rintro (h | h | h) <;> simp [h]
        · rintro (h | h | h) <;> simp [h]

theorem insertAsc_sorted (a : Nat) : ∀ (l : List Nat), l.Pairwise (· < ·) → (insertAsc a l).Pairwise (· < ·)
  | [], _ => by simp [insertAsc]
  | b :: l, h => by
    unfold insertAsc
    have hb := List.pairwise_cons.mp h
    split
    · rename_i hab
      refine List.pairwise_cons.mpr ⟨?_, h⟩
      intro x hx
      rcases List.mem_cons.mp hx with rfl | hx
      · exact hab
      · exact lt_trans hab (hb.1 x hx)
    · split
      · exact h
      · rename_i h1 h2
        refine List.pairwise_cons.mpr ⟨?_, insertAsc_sorted a l hb.2⟩
        intro x hx
        rcases (insertAsc_mem a l x).mp hx with rfl | hx
        · omega
        · exact hb.1 x hx

theorem uniqueAsc_mem (ids : List Nat) (x : Nat) : x ∈ uniqueAsc ids ↔ x ∈ ids := by
  induction ids with
  | nil => simp [uniqueAsc]
  | cons a l ih =>
    show x ∈ insertAsc a (uniqueAsc l) ↔ _
    rw [insertAsc_mem, ih]; simp

theorem uniqueAsc_sorted (ids : List Nat) : (uniqueAsc ids).Pairwise (· < ·) := by
  induction ids with
  | nil => simp [uniqueAsc]
  | cons a l ih => exact insertAsc_sorted a _ ih

theorem indexIn_spec (a : Nat) : ∀ (l : List Nat), a ∈ l → indexIn a l < l.length ∧ l.getD (indexIn a l) 0 = a
  | [], h => by simp at h
  | b :: l, h => by
    unfold indexIn
    split
    · rename_i hab; subst hab; simp
    · rename_i hab
      have : a ∈ l := by
        rcases List.mem_cons.mp h with rfl | h
        · exact absurd rfl hab
        · exact h
      obtain ⟨h1, h2⟩ := indexIn_spec a l this
      exact ⟨by simpa using h1, by simpa using h2⟩

/-- what `numpy.unique(ids, return_inverse = True)` promises -/
theorem uniqueInverse_spec (ids : List Nat) :
    (uniqueInverse ids).1.Pairwise (· < ·) ∧ (∀ x, x ∈ (uniqueInverse ids).1 ↔ x ∈ ids) ∧
    (uniqueInverse ids).2.length = ids.length ∧
    ∀ i, i < ids.length → (uniqueInverse ids).2.getD i 0 < (uniqueInverse ids).1.length ∧
      (uniqueInverse ids).1.getD ((uniqueInverse ids).2.getD i 0) 0 = ids.getD i 0 := by
  refine ⟨uniqueAsc_sorted ids, uniqueAsc_mem ids, by simp [uniqueInverse], ?_⟩
  intro i hi
  have hget : (uniqueInverse ids).2.getD i 0 = indexIn (ids.getD i 0) (uniqueAsc ids) := by
    simp [uniqueInverse, List.getD, List.getElem?_map, List.getElem?_eq_getElem hi]
  rw [hget]
  apply indexIn_spec
  rw [uniqueAsc_mem]
  simp [List.getD, List.getElem?_eq_getElem hi]

variable {α : Type}

/-- the stored family list / index describe the stored `familyid` -/
def FamObj.Consistent (o : FamObj α) : Prop :=
  o.family = (uniqueInverse o.familyid).1 ∧ o.familyix = (uniqueInverse o.familyid).2

theorem FamObj.step_consistent (o : FamObj α) (op : FamOp α) (h : o.Consistent) : (o.step op).Consistent := by
  cases op
  · exact h
  · exact ⟨rfl, rfl⟩

theorem FamObj.run_consistent (ops : List (FamOp α)) : ∀ (o : FamObj α), o.Consistent → (o.run ops).Consistent := by
  induction ops with
  | nil => intro o h; exact h
  | cons op ops ih => intro o h; exact ih (o.step op) (FamObj.step_consistent o op h)

theorem FamObj.run_fields (ops : List (FamOp α)) : ∀ (o : FamObj α),
    (o.run ops).ebv = lastEbv o.ebv ops ∧ (o.run ops).familyid = lastIds o.familyid ops := by
  induction ops with
  | nil => intro o; exact ⟨rfl, rfl⟩
  | cons op ops ih =>
    intro o
    have := ih (o.step op)
    cases op <;> simpa [FamObj.run, lastEbv, lastIds, FamObj.step] using this

theorem FamObj.new_consistent (D : List (List α)) (ids : List Nat) : (FamObj.new D ids).Consistent := ⟨rfl, rfl⟩

end family

/-! ### stores of objects -/
section store
variable {α : Type}

theorem modifyAt_length {β : Type} (f : β → β) : ∀ (i : Nat) (l : List β), (modifyAt f i l).length = l.length
  | 0, [] => rfl
  | _ + 1, [] => rfl
  | 0, _ :: _ => rfl
  | i + 1, _ :: l => by simp [modifyAt, modifyAt_length f i l]

theorem modifyAt_get {β : Type} (f : β → β) : ∀ (i j : Nat) (l : List β),
    (modifyAt f i l)[j]? = if i = j then l[j]?.map f else l[j]?
  | 0, _, [] => by simp [modifyAt]
  | _ + 1, _, [] => by simp [modifyAt]
  | 0, 0, _ :: _ => by simp [modifyAt]
  | 0, j + 1, _ :: _ => by simp [modifyAt]
  | i + 1, 0, _ :: _ => by simp [modifyAt]
  | i + 1, j + 1, _ :: l => by
    simp only [modifyAt, List.getElem?_cons_succ, modifyAt_get f i j l]
    by_cases h : i = j <;> simp [h]

variable [Add α] [Mul α] [Sub α] [Div α] [Neg α] [OfNat α 0] [OfNat α 1] [NatCast α] [LT α] [DecidableLT α]

theorem Store.run_get (ops : List (Nat × POp α)) : ∀ (st : List (Problem α)) (i : Nat),
    (Store.run st ops)[i]? = st[i]?.map fun p => p.run (opsFor i ops) := by
  induction ops with
  | nil => intro st i; simp [Store.run, opsFor, Problem.run]
  | cons op ops ih =>
    intro st i
    show (Store.run (Store.step st op) ops)[i]? = _
    rw [ih (Store.step st op) i]
    unfold Store.step
    rw [modifyAt_get]
    by_cases h : op.1 = i
    · subst h
      cases hst : st[op.1]? <;> simp [opsFor, Problem.run]
    · have : (op.1 == i) = false := by simpa using h
      cases hst : st[i]? <;> simp [opsFor, Problem.run, h, this]

/-- the value a field of a problem has after a history: the last assignment that names it -/
def lastOf {β : Type} (sel : POp α → Option β) (init : β) (ops : List (POp α)) : β :=
  ops.foldl (fun cur op => (sel op).getD cur) init

def POp.crit? : POp α → Option (Crit α) | .setCrit c => some c | _ => none
def POp.objWt? : POp α → Option (List α) | .setObjWt w => some w | _ => none
def POp.ineqWt? : POp α → Option (List α) | .setIneqWt w => some w | _ => none
def POp.eqWt? : POp α → Option (List α) | .setEqWt w => some w | _ => none
def POp.tObj? : POp α → Option (Trans α) | .setObjTrans t => some t | _ => none
def POp.tIneq? : POp α → Option (Trans α) | .setIneqTrans t => some t | _ => none
def POp.tEq? : POp α → Option (Trans α) | .setEqTrans t => some t | _ => none

theorem Problem.run_fields (ops : List (POp α)) : ∀ (p : Problem α),
    (p.run ops).crit = lastOf POp.crit? p.crit ops ∧
    (p.run ops).cfg.objWt = lastOf POp.objWt? p.cfg.objWt ops ∧
    (p.run ops).cfg.ineqWt = lastOf POp.ineqWt? p.cfg.ineqWt ops ∧
    (p.run ops).cfg.eqWt = lastOf POp.eqWt? p.cfg.eqWt ops ∧
    (p.run ops).cfg.tObj = lastOf POp.tObj? p.cfg.tObj ops ∧
    (p.run ops).cfg.tIneq = lastOf POp.tIneq? p.cfg.tIneq ops ∧
    (p.run ops).cfg.tEq = lastOf POp.tEq? p.cfg.tEq ops := by
  induction ops with
  | nil => intro p; exact ⟨rfl, rfl, rfl, rfl, rfl, rfl, rfl⟩
  | cons op ops ih =>
    intro p
    have := ih (p.step op)
    cases op <;>
      simpa [Problem.run, lastOf, Problem.step, POp.crit?, POp.objWt?, POp.ineqWt?, POp.eqWt?, POp.tObj?,
        POp.tIneq?, POp.tEq?] using this

theorem Store.run_length (ops : List (Nat × POp α)) : ∀ (st : List (Problem α)), (Store.run st ops).length = st.length := by
  induction ops with
  | nil => intro st; rfl
  | cons op ops ih =>
    intro st
    show (Store.run (Store.step st op) ops).length = _
    rw [ih]; exact modifyAt_length _ _ _

end store

/-! ### the jitter of `apply_jitter`: how far the factor's norm can be from the population's kinship -/
section jitter
variable {α : Type} [Field α] [LinearOrder α] [IsStrictOrderedRing α]

theorem quad_add_diag (n : Nat) (c : Nat → α) (K : Nat → Nat → α) (δ : α) :
    ∑ i ∈ range n, ∑ j ∈ range n, c i * (K i j + if i = j then δ else 0) * c j
      = (∑ i ∈ range n, ∑ j ∈ range n, c i * K i j * c j) + δ * ∑ i ∈ range n, c i * c i := by
  have h : ∀ i ∈ range n, ∑ j ∈ range n, c i * (K i j + if i = j then δ else 0) * c j
      = (∑ j ∈ range n, c i * K i j * c j) + δ * (c i * c i) := by
    intro i hi
    have : ∀ j ∈ range n, c i * (K i j + if i = j then δ else 0) * c j
        = c i * K i j * c j + (if i = j then δ * (c i * c j) else 0) := by
      intro j _
      by_cases hij : i = j <;> simp [hij] <;> ring
    rw [Finset.sum_congr rfl this, Finset.sum_add_distrib, Finset.sum_ite_eq, if_pos hi]
  rw [Finset.sum_congr rfl h, Finset.sum_add_distrib, Finset.mul_sum]

theorem sum_sq_le_one (n : Nat) (c : Nat → α) (h0 : ∀ i, i < n → 0 ≤ c i) (h1 : ∑ i ∈ range n, c i = 1) :
    0 ≤ ∑ i ∈ range n, c i * c i ∧ ∑ i ∈ range n, c i * c i ≤ 1 := by
  constructor
  · exact Finset.sum_nonneg fun i _ => mul_self_nonneg _
  · rw [← h1]
    apply Finset.sum_le_sum
    intro i hi
    have hi' := Finset.mem_range.mp hi
    have hle : c i ≤ 1 := by
      rw [← h1]
      exact Finset.single_le_sum (f := c) (fun j hj => h0 j (Finset.mem_range.mp hj)) hi
    calc c i * c i ≤ c i * 1 := mul_le_mul_of_nonneg_left hle (h0 i hi')
      _ = c i := mul_one _

end jitter

/-! ### evalfn oracle -/
section evalok
variable {α : Type} [Field α] [LinearOrder α] [IsStrictOrderedRing α] [HasSqrt α]

theorem vecClose_self (rel abs_ : α) (h : 0 ≤ abs_) (v : List α) : vecClose rel abs_ v v = true := by
  unfold vecClose
  simp only [beq_self_eq_true, Bool.true_and]
  exact zip_all_self (fun a b => close rel abs_ a b) v (fun a _ => close_self rel abs_ a h)

theorem vecClose_exact_iff (v w : List α) : vecClose 0 0 v w = true ↔ v = w := by
  constructor
  · intro h
    unfold vecClose at h
    simp only [Bool.and_eq_true, beq_iff_eq] at h
    exact zip_all_eq (fun a b => close 0 0 a b) (fun a b hab => (close_exact_iff a b).mp hab) v w h.1 h.2
  · rintro rfl; exact vecClose_self 0 0 (le_refl 0) v

end evalok
end Selection
