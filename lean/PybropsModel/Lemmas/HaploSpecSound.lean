/-
Helper lemmas for C18 (12): soundness of the Spec clauses (`Model/HaploSpec.lean`) on the model's outputs —
part 1, the structural clauses (`apportion`, `partition`, `labels`, `within_chrom`).
-/
import PybropsModel.Model.HaploSpec
import PybropsModel.Lemmas.HaploCount
set_option autoImplicit false
set_option linter.unusedSectionVars false

namespace Haplo

theorem apportion_sound (n nchr : Nat) (nb : List Nat) (h1 : nb.length = nchr) (h2 : nb.sum = n)
    (h3 : ∀ x ∈ nb, 1 ≤ x) : Spec.apportion n nchr nb = true := by
  simp only [Spec.apportion, Bool.and_eq_true, beq_iff_eq, List.all_eq_true, decide_eq_true_eq]
  exact ⟨⟨h1, h3⟩, h2⟩

theorem zip_chain_lt (s : Nat) (B : List Nat) (p : Nat) (h : (s :: (B ++ [p])).Pairwise (· < ·)) :
    ∀ b ∈ List.zip (s :: B) (B ++ [p]), b.1 < b.2 := by
  induction B generalizing s with
  | nil =>
    intro b hb
    simp only [List.nil_append, List.zip_cons_cons, List.zip_nil_right, List.mem_singleton] at hb
    subst hb
    exact (List.pairwise_cons.mp h).1 p (by simp)
  | cons c B ih =>
    intro b hb
    simp only [List.cons_append, List.zip_cons_cons, List.mem_cons] at hb
    rcases hb with rfl | hb
    · exact (List.pairwise_cons.mp h).1 c (by simp)
    · exact ih c (List.pairwise_cons.mp h).2 b hb

/-- the `(hstix, hspix, hlen)` that `haplobin_bounds` returns pass the `partition` clause -/
theorem partition_sound {β : Type} [DecidableEq β] (a : β) (xs : List β) :
    Spec.partition (xs.length + 1) (0 :: breaksFrom a 1 xs) (breaksFrom a 1 xs ++ [xs.length + 1])
      (List.zipWith (fun e s => e - s) (breaksFrom a 1 xs ++ [xs.length + 1]) (0 :: breaksFrom a 1 xs)) = true := by
  have hz := zip_chain_lt 0 (breaksFrom a 1 xs) (xs.length + 1) (starts_chain a xs)
  simp only [Spec.partition, List.head?_cons, List.getLast?_append, List.getLast?_singleton, Option.some_or,
    List.dropLast_concat, List.tail_cons, List.length_append, List.length_cons, List.length_nil,
    Bool.and_eq_true, beq_self_eq_true, List.all_eq_true, decide_eq_true_eq, true_and, and_true]
  exact fun b hb => hz b hb

theorem eq_of_sorted_of_mem_iff (l1 l2 : List Nat) (h1 : l1.Pairwise (· < ·)) (h2 : l2.Pairwise (· < ·))
    (h : ∀ x, x ∈ l1 ↔ x ∈ l2) : l1 = l2 := by
  apply List.Perm.eq_of_pairwise (le := fun x y : Nat => x < y)
  · intro a b _ _ hab hba; exact absurd hab (Nat.lt_asymm hba)
  · exact h1
  · exact h2
  · rw [List.perm_ext_iff_of_nodup (h1.imp (fun h => Nat.ne_of_lt h)) (h2.imp (fun h => Nat.ne_of_lt h))]
    exact h

/-- … and the `labels` clause: the block starts are exactly the label changes -/
theorem labels_sound {β : Type} [DecidableEq β] (a : β) (xs : List β) :
    Spec.labels (xs.length + 1) (a :: xs) (0 :: breaksFrom a 1 xs) = true := by
  simp only [Spec.labels, List.length_cons, beq_self_eq_true, List.tail_cons, Bool.true_and, beq_iff_eq]
  apply eq_of_sorted_of_mem_iff
  · exact breaksFrom_sorted a 1 xs
  · exact List.pairwise_lt_range.sublist List.filter_sublist
  · intro b
    rw [mem_starts_iff]
    simp only [List.mem_filter, List.mem_range, Bool.and_eq_true, decide_eq_true_eq, List.length_cons]
    constructor
    · rintro ⟨h1, h2, hne⟩
      refine ⟨h2, by omega, ?_⟩
      rw [List.getElem?_eq_getElem (by simpa using h2), List.getElem?_eq_getElem (by simp; omega)]
      intro he
      exact hne (Option.some.inj he)
    · rintro ⟨h2, h1, hne⟩
      refine ⟨by omega, by simpa using h2, ?_⟩
      intro he
      apply hne
      rw [List.getElem?_eq_getElem (by simpa using h2), List.getElem?_eq_getElem (by simp; omega), he]

/-! ### chromosome starts are block starts -/

/-- `chrgrp_stix` of a chromosome-grouped layout whose first chromosome starts at `o` -/
def chromStarts {γ : Type} : List (List γ) → Nat → List Nat
  | [], _ => []
  | c :: cs, o => o :: chromStarts cs (o + c.length)

theorem lastOf_mem {β : Type} (y : β) (ys : List β) : lastOf y ys ∈ y :: ys := by
  induction ys generalizing y with
  | nil => simp [lastOf]
  | cons z zs ih => exact List.mem_cons_of_mem _ (ih z)

section
variable {α : Type} [LinearOrder α]

theorem chromStarts_subset_breaks (hbs chroms : List (List α)) (k prev i : Nat)
    (h : List.Forall₂ BoundsOK hbs chroms) (hc : ∀ c ∈ chroms, c ≠ []) (hprev : prev < k) :
    ∀ s ∈ chromStarts chroms i, s ∈ breaksFrom prev i (labelsAll hbs chroms k) := by
  induction h generalizing k prev i with
  | nil => simp [chromStarts]
  | @cons hb pos hbs cs hbc hrest ih =>
    intro s hs
    have hpos := hc pos List.mem_cons_self
    have hne := labelsChrom_ne_nil hb k pos hpos
    simp only [labelsAll]
    cases hL : labelsChrom hb k pos with
    | nil => exact absurd hL hne
    | cons y ys =>
      have hlen : (y :: ys).length = pos.length := by rw [← hL]; simp [labelsChrom]
      have hy : k ≤ y := (labelsChrom_lt hb k pos hbc.two y (by rw [hL]; exact List.mem_cons_self)).1
      have hyp : y ≠ prev := by omega
      simp only [List.cons_append, breaksFrom, hyp, ne_eq, not_false_eq_true, if_true]
      simp only [chromStarts, List.mem_cons] at hs
      rcases hs with rfl | hs
      · exact List.mem_cons_self
      · apply List.mem_cons_of_mem
        rw [breaksFrom_append]
        apply List.mem_append_right
        have hlast : lastOf y ys < k + (hb.length - 1) := by
          have hm : lastOf y ys ∈ labelsChrom hb k pos := by rw [hL]; exact lastOf_mem y ys
          exact (labelsChrom_lt hb k pos hbc.two _ hm).2
        have hi : i + 1 + ys.length = i + pos.length := by
          simp only [List.length_cons] at hlen; omega
        rw [hi]
        exact ih (k + (hb.length - 1)) (lastOf y ys) (i + pos.length)
          (fun c hc' => hc c (List.mem_cons_of_mem _ hc')) hlast s hs

/-- the `within_chrom` clause accepts the model's blocks: every chromosome start is a block start -/
theorem withinChrom_sound (hbs chroms : List (List α)) (h : List.Forall₂ BoundsOK hbs chroms)
    (hne : chroms ≠ []) (hc : ∀ c ∈ chroms, c ≠ []) (a : Nat) (xs : List Nat)
    (hl : labelsAll hbs chroms 0 = a :: xs) :
    Spec.withinChrom (chromStarts chroms 0) (0 :: breaksFrom a 1 xs) = true := by
  simp only [Spec.withinChrom, List.all_eq_true, List.contains_eq_mem, decide_eq_true_eq]
  intro s hs
  cases h with
  | nil => exact absurd rfl hne
  | @cons hb pos hbs cs hbc hrest =>
    simp only [chromStarts, List.mem_cons] at hs
    rcases hs with rfl | hs
    · exact List.mem_cons_self
    · apply List.mem_cons_of_mem
      have hpos := hc pos List.mem_cons_self
      simp only [labelsAll] at hl
      cases hL : labelsChrom hb 0 pos with
      | nil => exact absurd hL (labelsChrom_ne_nil hb 0 pos hpos)
      | cons y ys =>
        rw [hL] at hl
        simp only [List.cons_append, List.cons.injEq] at hl
        obtain ⟨rfl, rfl⟩ := hl
        have hlen : (y :: ys).length = pos.length := by rw [← hL]; simp [labelsChrom]
        rw [breaksFrom_append]
        apply List.mem_append_right
        have hlast : lastOf y ys < 0 + (hb.length - 1) := by
          have hm : lastOf y ys ∈ labelsChrom hb 0 pos := by rw [hL]; exact lastOf_mem y ys
          exact (labelsChrom_lt hb 0 pos hbc.two _ hm).2
        have hi : 1 + ys.length = 0 + pos.length := by
          simp only [List.length_cons] at hlen; omega
        rw [hi]
        exact chromStarts_subset_breaks hbs cs (0 + (hb.length - 1)) (lastOf y ys) (0 + pos.length) hrest
          (fun c hc' => hc c (List.mem_cons_of_mem _ hc')) hlast s hs

end

end Haplo
