/-
Helper lemmas for C18 (15): the label vector of the REPAIRED `haplobin` as total values, and what the repaired
pipeline `blocksOf` returns.
* `relabelChrom` / `relabelAll`: closed form of `chromLabels` / `haplobinHB` (equal-width labels, or the equal-count
  fallback when a label of the chromosome would stay unused although there are enough markers);
* range, order, length, non-emptiness for ALL bin counts; every label used whenever no chromosome is given more
  bins than markers (`relabelAll_good`);
* blocks never straddle chromosomes, every chromosome start is a block start (`nruns_relabelAll`,
  `withinChrom_sound_relabel`);
* the equal-width labels survive wherever every bin holds a marker (`relabelChrom_of_filled`) and wherever a
  chromosome has fewer markers than bins (direct calls outside the property's quantifier);
* `blocksOf_stages`: the successful branch of the pipeline unfolded; `blocksOf_error_iff`: it refuses exactly the
  totals outside [chromosome count, marker count].
-/
import PybropsModel.Lemmas.HaploFixed
import PybropsModel.Lemmas.HaploSpecSound
set_option autoImplicit false
set_option linter.unusedSectionVars false

namespace Haplo

/-! ### the capped greedy loop, for every request (also beyond the marker count) -/
section
variable {α : Type} [Sub α] [NatCast α] [LT α] [DecidableLT α]

theorem pickCap_lt (diff : List α) (nb lens : List Nat) (hd : diff.length = nb.length) (hne : nb ≠ []) :
    pickCap diff nb lens < nb.length := by
  unfold pickCap
  cases h : argminMasked diff (fullMask nb lens) with
  | none =>
    simp only
    have : diff ≠ [] := by
      intro h0; rw [h0] at hd
      exact hne (List.length_eq_zero_iff.mp hd.symm)
    have := argmin_lt diff this
    omega
  | some vi =>
    obtain ⟨v, ix⟩ := vi
    simp only
    have hm := argminMasked_spec diff (fullMask nb lens) v ix h
    have := getElem?_some_lt _ _ _ hm
    simp only [fullMask, List.length_zipWith] at this
    omega

/-- `k` iterations hand out exactly `k` blocks, whatever the marker counts: the total always conforms to the
    request -/
theorem greedyCap_total (ideal : List α) (lens : List Nat) (k : Nat) (nb : List Nat)
    (hlen : ideal.length = nb.length) (hne : nb ≠ []) (hpos : ∀ x ∈ nb, 1 ≤ x) :
    (greedyCap ideal lens k nb).length = nb.length ∧ (greedyCap ideal lens k nb).sum = nb.sum + k ∧
      ∀ x ∈ greedyCap ideal lens k nb, 1 ≤ x := by
  induction k generalizing nb with
  | zero => exact ⟨rfl, by simp [greedyCap], hpos⟩
  | succ k ih =>
    simp only [greedyCap]
    set diff := List.zipWith (fun (a : Nat) b => (a : α) - b) nb ideal with hdiff
    have hd : diff.length = nb.length := by simp [hdiff, hlen]
    have hlt := pickCap_lt diff nb lens hd hne
    have hne' : incrAt (pickCap diff nb lens) nb ≠ [] := by
      intro h0
      have := congrArg List.length h0
      rw [incrAt_length] at this
      exact hne (List.length_eq_zero_iff.mp this)
    obtain ⟨h1, h2, h3⟩ := ih (incrAt (pickCap diff nb lens) nb) (by rw [incrAt_length]; exact hlen) hne'
      (incrAt_pos _ nb hpos)
    refine ⟨by rw [h1, incrAt_length], ?_, h3⟩
    rw [h2, incrAt_sum _ nb hlt]; omega

end

theorem firstFalse_le (mask : List Bool) : firstFalse mask ≤ mask.length := by
  induction mask with
  | nil => simp [firstFalse]
  | cons f fs ih =>
    simp only [firstFalse, List.length_cons]
    split <;> omega

theorem firstRoom_lt (nb lens : List Nat) (hne : nb ≠ []) : firstRoom nb lens < nb.length := by
  unfold firstRoom
  split
  · exact List.length_pos_of_ne_nil hne
  · rename_i h
    have hm := firstFalse_spec _ h
    have := getElem?_some_lt _ _ _ hm
    have hl : (fullMask nb lens).length ≤ nb.length := by simp [fullMask]
    omega

theorem greedyCapNaN_total (lens : List Nat) (k : Nat) (nb : List Nat) (hne : nb ≠ []) (hpos : ∀ x ∈ nb, 1 ≤ x) :
    (greedyCapNaN lens k nb).length = nb.length ∧ (greedyCapNaN lens k nb).sum = nb.sum + k ∧
      ∀ x ∈ greedyCapNaN lens k nb, 1 ≤ x := by
  induction k generalizing nb with
  | zero => exact ⟨rfl, by simp [greedyCapNaN], hpos⟩
  | succ k ih =>
    simp only [greedyCapNaN]
    have hlt := firstRoom_lt nb lens hne
    have hne' : incrAt (firstRoom nb lens) nb ≠ [] := by
      intro h0
      have := congrArg List.length h0
      rw [incrAt_length] at this
      exact hne (List.length_eq_zero_iff.mp this)
    obtain ⟨h1, h2, h3⟩ := ih (incrAt (firstRoom nb lens) nb) hne' (incrAt_pos _ nb hpos)
    refine ⟨by rw [h1, incrAt_length], ?_, h3⟩
    rw [h2, incrAt_sum _ nb hlt]; omega

section
variable {α : Type} [Field α] [LinearOrder α] [IsStrictOrderedRing α]

/-- `nhaploblk_chrom` refuses exactly the requests below the chromosome count -/
theorem nhaploblkChrom_error_iff (n : Nat) (chroms : List (List α)) :
    (∃ e, nhaploblkChrom n chroms = .error e) ↔ n < chroms.length := by
  unfold nhaploblkChrom
  simp only [genlen_length]
  by_cases h : n < chroms.length
  · simp [h]
  · simp only [h, if_false, iff_false, not_exists]
    intro e
    split <;> simp

theorem nhaploblkChrom_error (n : Nat) (chroms : List (List α)) (e : String)
    (h : nhaploblkChrom n chroms = .error e) : e = "value" := by
  unfold nhaploblkChrom at h
  simp only [genlen_length] at h
  by_cases hn : n < chroms.length
  · simp only [hn, if_true, Except.error.injEq] at h
    exact h.symm
  · simp only [hn, if_false] at h
    split at h <;> cases h

/-- whatever is returned: one count per chromosome, every count ≥ 1, the counts sum to the request -/
theorem nhaploblkChrom_total (n : Nat) (chroms : List (List α)) (hne : chroms ≠ []) (nb : List Nat)
    (h : nhaploblkChrom n chroms = .ok nb) :
    nb.length = chroms.length ∧ nb.sum = n ∧ ∀ x ∈ nb, 1 ≤ x := by
  unfold nhaploblkChrom at h
  simp only [genlen_length] at h
  by_cases hn : n < chroms.length
  · simp [hn] at h
  · simp only [hn, if_false] at h
    have hne1 : (List.replicate chroms.length 1 : List Nat) ≠ [] := by
      intro h0
      have := congrArg List.length h0
      simp only [List.length_replicate, List.length_nil] at this
      exact hne (List.length_eq_zero_iff.mp this)
    have hpos : ∀ x ∈ (List.replicate chroms.length 1 : List Nat), 1 ≤ x := by
      intro x hx; rw [List.eq_of_mem_replicate hx]
    have hsum : (List.replicate chroms.length 1 : List Nat).sum = chroms.length := by simp
    split at h
    · simp only [Except.ok.injEq] at h
      subst h
      obtain ⟨h1, h2, h3⟩ := greedyCapNaN_total (chroms.map List.length) (n - chroms.length) _ hne1 hpos
      exact ⟨by rw [h1]; simp, by rw [h2, hsum]; omega, h3⟩
    · simp only [Except.ok.injEq] at h
      subst h
      obtain ⟨h1, h2, h3⟩ := greedyCap_total (ideal n (genlen chroms)) (chroms.map List.length) (n - chroms.length) _
        (by simp [ideal, genlen_length]) hne1 hpos
      exact ⟨by rw [h1]; simp, by rw [h2, hsum]; omega, h3⟩

end

/-! ### the repaired labels as total values -/
section
variable {α : Type} [LinearOrder α]

/-- one chromosome of the repaired `haplobin`, as total values: the equal-count labels `k + (i·nhap) / m` when the
    equal-width labels leave one of the `nhap` labels unused although `nhap ≤ m`, the equal-width labels otherwise -/
def relabelChrom (hb : List α) (k : Nat) (pos : List α) : List Nat :=
  if hb.length - 1 ≤ pos.length ∧ ndistinct (labelsChrom hb k pos) < hb.length - 1
  then equalCount k (hb.length - 1) pos.length else labelsChrom hb k pos

/-- labels of all chromosomes as total values (mirror of `haplobinHB`) -/
def relabelAll : List (List α) → List (List α) → Nat → List Nat
  | hb :: hbs, pos :: cs, k => relabelChrom hb k pos ++ relabelAll hbs cs (k + (hb.length - 1))
  | _, _, _ => []

theorem chromLabels_eq_relabel (hb : List α) (k : Nat) (pos : List α) (h : BoundsOK hb pos) :
    chromLabels hb k pos = (relabelChrom hb k pos).map some := by
  unfold chromLabels relabelChrom
  simp only
  rw [binChrom_eq_labels hb k pos h, ndistinct_map_some]
  split <;> rfl

theorem haplobinHB_eq_relabel (hbs chroms : List (List α)) (k : Nat) (h : List.Forall₂ BoundsOK hbs chroms) :
    haplobinHB hbs chroms k = (relabelAll hbs chroms k).map some := by
  induction h generalizing k with
  | nil => simp [haplobinHB, relabelAll]
  | cons hbc _ ih =>
    simp only [haplobinHB, relabelAll, List.map_append]
    rw [chromLabels_eq_relabel _ _ _ hbc, ih]

theorem relabelChrom_length (hb : List α) (k : Nat) (pos : List α) : (relabelChrom hb k pos).length = pos.length := by
  unfold relabelChrom
  split <;> simp [equalCount, labelsChrom]

theorem relabelChrom_ne_nil (hb : List α) (k : Nat) (pos : List α) (h : pos ≠ []) : relabelChrom hb k pos ≠ [] := by
  intro h0
  have := congrArg List.length h0
  rw [relabelChrom_length] at this
  exact h (List.length_eq_zero_iff.mp this)

theorem relabelChrom_lt (hb : List α) (k : Nat) (pos : List α) (h2 : 2 ≤ hb.length) :
    ∀ l ∈ relabelChrom hb k pos, k ≤ l ∧ l < k + (hb.length - 1) := by
  unfold relabelChrom
  split
  · rename_i hc
    exact (equalCount_good k _ _ (by omega) hc.1).range
  · exact labelsChrom_lt hb k pos h2

theorem relabelChrom_sorted (hb : List α) (k : Nat) (pos : List α) (h2 : 2 ≤ hb.length)
    (hp : pos.Pairwise (· ≤ ·)) : (relabelChrom hb k pos).Pairwise (· ≤ ·) := by
  unfold relabelChrom
  split
  · rename_i hc
    exact (equalCount_good k _ _ (by omega) hc.1).sorted
  · exact labelsChrom_sorted hb k pos hp

/-- the point of the repair: with at least as many markers as bins every label of the chromosome is used -/
theorem relabelChrom_good (hb pos : List α) (k : Nat) (hok : BoundsOK hb pos) (hs : pos.Pairwise (· ≤ ·))
    (hcap : hb.length - 1 ≤ pos.length) : Good k (hb.length - 1) (relabelChrom hb k pos) := by
  obtain ⟨L, hL, hg, _⟩ := chromLabels_good hb pos k hok hs hcap
  rw [chromLabels_eq_relabel hb k pos hok] at hL
  have : relabelChrom hb k pos = L := List.map_injective_iff.mpr (Option.some_injective _) hL
  rw [this]; exact hg

theorem relabelAll_range (hbs chroms : List (List α)) (k : Nat) (h : List.Forall₂ BoundsOK hbs chroms) :
    ∀ l ∈ relabelAll hbs chroms k, k ≤ l ∧ l < k + nbins hbs := by
  induction h generalizing k with
  | nil => simp [relabelAll]
  | @cons hb pos hbs cs hbc _ ih =>
    intro l hl
    simp only [relabelAll, List.mem_append] at hl
    simp only [nbins, List.map_cons, List.sum_cons]
    have h1 : 1 ≤ hb.length - 1 := by have := hbc.two; omega
    rcases hl with hl | hl
    · have := relabelChrom_lt hb k pos hbc.two l hl
      omega
    · have := ih (k + (hb.length - 1)) l hl
      simp only [nbins] at this
      omega

theorem relabelAll_sorted (hbs chroms : List (List α)) (k : Nat)
    (h : List.Forall₂ BoundsOK hbs chroms) (hp : ∀ c ∈ chroms, c.Pairwise (· ≤ ·)) :
    (relabelAll hbs chroms k).Pairwise (· ≤ ·) := by
  induction h generalizing k with
  | nil => simp [relabelAll]
  | @cons hb pos hbs cs hbc hrest ih =>
    simp only [relabelAll]
    rw [List.pairwise_append]
    refine ⟨relabelChrom_sorted hb k pos hbc.two (hp pos List.mem_cons_self),
            ih _ (fun c hc => hp c (List.mem_cons_of_mem _ hc)), ?_⟩
    intro a ha b hb'
    have h1 := relabelChrom_lt hb k pos hbc.two a ha
    have h2 := relabelAll_range hbs cs (k + (hb.length - 1)) hrest b hb'
    omega

theorem relabelAll_length (hbs chroms : List (List α)) (k : Nat) (h : List.Forall₂ BoundsOK hbs chroms) :
    (relabelAll hbs chroms k).length = (chroms.map List.length).sum := by
  induction h generalizing k with
  | nil => simp [relabelAll]
  | cons _ _ ih => simp [relabelAll, relabelChrom_length, ih]

theorem relabelAll_ne_nil (hbs chroms : List (List α)) (k : Nat) (h : List.Forall₂ BoundsOK hbs chroms)
    (hne : chroms ≠ []) (hc : ∀ c ∈ chroms, c ≠ []) : relabelAll hbs chroms k ≠ [] := by
  cases h with
  | nil => exact absurd rfl hne
  | @cons hb pos hbs cs _ _ =>
    simp only [relabelAll, ne_eq, List.append_eq_nil_iff, not_and]
    intro h0
    exact absurd h0 (relabelChrom_ne_nil hb k pos (hc pos List.mem_cons_self))

/-- every label of `[k, k + nbins)` is used when no chromosome has more bins than markers -/
theorem relabelAll_good (hbs chroms : List (List α)) (k : Nat) (h : List.Forall₂ BoundsOK hbs chroms)
    (hs : ∀ c ∈ chroms, c.Pairwise (· ≤ ·))
    (hcap : List.Forall₂ (fun hb (c : List α) => hb.length - 1 ≤ c.length) hbs chroms) :
    Good k (nbins hbs) (relabelAll hbs chroms k) := by
  induction h generalizing k with
  | nil => exact ⟨List.Pairwise.nil, by simp [relabelAll], by simp [nbins]⟩
  | @cons hb pos hbs cs hbc _ ih =>
    cases hcap with
    | cons hc1 hc2 =>
      have g1 := relabelChrom_good hb pos k hbc (hs pos List.mem_cons_self) hc1
      have g2 := ih (k + (hb.length - 1)) (fun c hc => hs c (List.mem_cons_of_mem _ hc)) hc2
      have : nbins (hb :: hbs) = (hb.length - 1) + nbins hbs := by simp [nbins]
      rw [this]
      exact good_append k _ _ _ _ g1 g2

/-- the equal-width labels are kept wherever every bin holds a marker … -/
theorem relabelChrom_of_filled (hb pos : List α) (k : Nat) (hok : BoundsOK hb pos) (hf : BinsFilled hb pos) :
    relabelChrom hb k pos = labelsChrom hb k pos := by
  unfold relabelChrom
  rw [if_neg]
  rintro ⟨_, hlt⟩
  have hl := (binsFilled_iff_labels hb pos k hok).mp hf
  rw [ndistinct_eq_dedup] at hlt
  have hsub : (List.range (hb.length - 1)).map (k + ·) ⊆ (labelsChrom hb k pos).dedup := by
    intro x hx
    obtain ⟨j, hj, rfl⟩ := List.mem_map.mp hx
    exact List.mem_dedup.mpr (hl j (List.mem_range.mp hj))
  have hnd : ((List.range (hb.length - 1)).map (k + ·)).Nodup :=
    List.Nodup.map (fun a b hab => by simpa using hab) List.nodup_range
  have := (List.subperm_of_subset hnd hsub).length_le
  simp only [List.length_map, List.length_range] at this
  omega

/-- … and wherever a chromosome has fewer markers than bins (a direct call outside the property's quantifier) -/
theorem relabelChrom_of_short (hb pos : List α) (k : Nat) (h : pos.length < hb.length - 1) :
    relabelChrom hb k pos = labelsChrom hb k pos := by
  unfold relabelChrom
  rw [if_neg]
  rintro ⟨h1, _⟩
  omega

/-- number of blocks that each chromosome's own labels form -/
def runsPerChromR : List (List α) → List (List α) → Nat → List Nat
  | hb :: hbs, pos :: cs, k => nruns (relabelChrom hb k pos) :: runsPerChromR hbs cs (k + (hb.length - 1))
  | _, _, _ => []

/-- **blocks never straddle chromosomes**: the genome-wide number of blocks is the sum of the numbers of blocks
    found on each chromosome separately; each is at least one and at most the chromosome's allotment, and EQUAL to
    the allotment when the chromosome has at least as many markers -/
theorem nruns_relabelAll (hbs chroms : List (List α)) (k : Nat) (h : List.Forall₂ BoundsOK hbs chroms)
    (hc : ∀ c ∈ chroms, c ≠ [] ∧ c.Pairwise (· ≤ ·)) :
    nruns (relabelAll hbs chroms k) = (runsPerChromR hbs chroms k).sum ∧
      List.Forall₂ (fun r hb => 1 ≤ r ∧ r ≤ hb.length - 1) (runsPerChromR hbs chroms k) hbs ∧
      (List.Forall₂ (fun hb (c : List α) => hb.length - 1 ≤ c.length) hbs chroms →
        runsPerChromR hbs chroms k = hbs.map (fun hb => hb.length - 1)) := by
  induction h generalizing k with
  | nil => simp [relabelAll, runsPerChromR, nruns]
  | @cons hb pos hbs cs hbc hrest ih =>
    have hpos := hc pos List.mem_cons_self
    have hcs : ∀ c ∈ cs, c ≠ [] ∧ c.Pairwise (· ≤ ·) := fun c hc' => hc c (List.mem_cons_of_mem _ hc')
    obtain ⟨ih1, ih2, ih3⟩ := ih (k + (hb.length - 1)) hcs
    have hl1 := relabelChrom_ne_nil hb k pos hpos.1
    have hs := relabelChrom_sorted hb k pos hbc.two hpos.2
    have hr1 : nruns (relabelChrom hb k pos) ≤ hb.length - 1 := by
      rw [nruns_sorted_eq_dedup _ hs]
      have hsub : (relabelChrom hb k pos).dedup ⊆ (List.range (hb.length - 1)).map (k + ·) := by
        intro x hx
        have := relabelChrom_lt hb k pos hbc.two x (List.mem_dedup.mp hx)
        exact List.mem_map.mpr ⟨x - k, List.mem_range.mpr (by omega), by omega⟩
      have := (List.subperm_of_subset (List.nodup_dedup _) hsub).length_le
      simpa using this
    have hfa : List.Forall₂ (fun r hb => 1 ≤ r ∧ r ≤ hb.length - 1)
        (runsPerChromR (hb :: hbs) (pos :: cs) k) (hb :: hbs) := by
      simp only [runsPerChromR]
      exact List.Forall₂.cons ⟨nruns_pos _ hl1, hr1⟩ ih2
    refine ⟨?_, hfa, ?_⟩
    · simp only [relabelAll, runsPerChromR, List.sum_cons]
      by_cases hcsn : cs = []
      · subst hcsn
        cases hrest
        simp [relabelAll, runsPerChromR]
      · have hl2 := relabelAll_ne_nil hbs cs (k + (hb.length - 1)) hrest hcsn (fun c hc' => (hcs c hc').1)
        obtain ⟨a, ha⟩ : ∃ a, (relabelChrom hb k pos).getLast? = some a := by
          cases hg : (relabelChrom hb k pos).getLast? with
          | none => exact absurd (List.getLast?_eq_none_iff.mp hg) hl1
          | some a => exact ⟨a, rfl⟩
        obtain ⟨b, hb'⟩ : ∃ b, (relabelAll hbs cs (k + (hb.length - 1))).head? = some b := by
          cases hg : (relabelAll hbs cs (k + (hb.length - 1))).head? with
          | none => exact absurd (List.head?_eq_none_iff.mp hg) hl2
          | some b => exact ⟨b, rfl⟩
        have hab : a ≠ b := by
          have h1 := relabelChrom_lt hb k pos hbc.two a (List.mem_of_getLast? ha)
          have h2 := relabelAll_range hbs cs (k + (hb.length - 1)) hrest b (List.mem_of_head? hb')
          omega
        rw [nruns_append _ _ a b ha hb' hab, ih1]
    · intro hcap
      cases hcap with
      | cons hc1 hc2 =>
        simp only [runsPerChromR, List.map_cons]
        rw [ih3 hc2]
        congr 1
        have hg := relabelChrom_good hb pos k hbc hpos.2 hc1
        -- shift down by k to use `nruns_eq_of_surj`
        rw [nruns_sorted_eq_dedup _ hs]
        have hsub : (relabelChrom hb k pos).dedup ⊆ (List.range (hb.length - 1)).map (k + ·) := by
          intro x hx
          have := hg.range x (List.mem_dedup.mp hx)
          exact List.mem_map.mpr ⟨x - k, List.mem_range.mpr (by omega), by omega⟩
        have hsup : (List.range (hb.length - 1)).map (k + ·) ⊆ (relabelChrom hb k pos).dedup := by
          intro x hx
          obtain ⟨j, hj, rfl⟩ := List.mem_map.mp hx
          exact List.mem_dedup.mpr (hg.surj j (List.mem_range.mp hj))
        have hnd : ((List.range (hb.length - 1)).map (k + ·)).Nodup :=
          List.Nodup.map (fun a b hab => by simpa using hab) List.nodup_range
        have l1 := (List.subperm_of_subset (List.nodup_dedup _) hsub).length_le
        have l2 := (List.subperm_of_subset hnd hsup).length_le
        simp only [List.length_map, List.length_range] at l1 l2
        omega

theorem chromStarts_subset_breaks_relabel (hbs chroms : List (List α)) (k prev i : Nat)
    (h : List.Forall₂ BoundsOK hbs chroms) (hc : ∀ c ∈ chroms, c ≠ []) (hprev : prev < k) :
    ∀ s ∈ chromStarts chroms i, s ∈ breaksFrom prev i (relabelAll hbs chroms k) := by
  induction h generalizing k prev i with
  | nil => simp [chromStarts]
  | @cons hb pos hbs cs hbc hrest ih =>
    intro s hs
    have hpos := hc pos List.mem_cons_self
    have hne := relabelChrom_ne_nil hb k pos hpos
    simp only [relabelAll]
    cases hL : relabelChrom hb k pos with
    | nil => exact absurd hL hne
    | cons y ys =>
      have hlen : (y :: ys).length = pos.length := by rw [← hL]; exact relabelChrom_length hb k pos
      have hy : k ≤ y := (relabelChrom_lt hb k pos hbc.two y (by rw [hL]; exact List.mem_cons_self)).1
      have hyp : y ≠ prev := by omega
      simp only [List.cons_append, breaksFrom, hyp, ne_eq, not_false_eq_true, if_true]
      simp only [chromStarts, List.mem_cons] at hs
      rcases hs with rfl | hs
      · exact List.mem_cons_self
      · apply List.mem_cons_of_mem
        rw [breaksFrom_append]
        apply List.mem_append_right
        have hlast : lastOf y ys < k + (hb.length - 1) := by
          have hm : lastOf y ys ∈ relabelChrom hb k pos := by rw [hL]; exact lastOf_mem y ys
          exact (relabelChrom_lt hb k pos hbc.two _ hm).2
        have hi : i + 1 + ys.length = i + pos.length := by
          simp only [List.length_cons] at hlen; omega
        rw [hi]
        exact ih (k + (hb.length - 1)) (lastOf y ys) (i + pos.length)
          (fun c hc' => hc c (List.mem_cons_of_mem _ hc')) hlast s hs

/-- the `within_chrom` clause accepts the repaired model's blocks: every chromosome start is a block start -/
theorem withinChrom_sound_relabel (hbs chroms : List (List α)) (h : List.Forall₂ BoundsOK hbs chroms)
    (hne : chroms ≠ []) (hc : ∀ c ∈ chroms, c ≠ []) (a : Nat) (xs : List Nat)
    (hl : relabelAll hbs chroms 0 = a :: xs) :
    Spec.withinChrom (chromStarts chroms 0) (0 :: breaksFrom a 1 xs) = true := by
  simp only [Spec.withinChrom, List.all_eq_true, List.contains_eq_mem, decide_eq_true_eq]
  intro s hs
  cases h with
  | nil => exact absurd rfl hne
  | @cons hb pos hbs cs hbc hrest =>
    simp only [chromStarts, List.mem_cons] at hs
    rcases hs with rfl | hs
    · exact List.mem_cons_self
    · apply List.mem_cons_of_mem
      have hpos := hc pos List.mem_cons_self
      simp only [relabelAll] at hl
      cases hL : relabelChrom hb 0 pos with
      | nil => exact absurd hL (relabelChrom_ne_nil hb 0 pos hpos)
      | cons y ys =>
        rw [hL] at hl
        simp only [List.cons_append, List.cons.injEq] at hl
        obtain ⟨rfl, rfl⟩ := hl
        have hlen : (y :: ys).length = pos.length := by rw [← hL]; exact relabelChrom_length hb 0 pos
        rw [breaksFrom_append]
        apply List.mem_append_right
        have hlast : lastOf y ys < 0 + (hb.length - 1) := by
          have hm : lastOf y ys ∈ relabelChrom hb 0 pos := by rw [hL]; exact lastOf_mem y ys
          exact (relabelChrom_lt hb 0 pos hbc.two _ hm).2
        have hi : 1 + ys.length = 0 + pos.length := by
          simp only [List.length_cons] at hlen; omega
        rw [hi]
        exact chromStarts_subset_breaks_relabel hbs cs (0 + (hb.length - 1)) (lastOf y ys) (0 + pos.length) hrest
          (fun c hc' => hc c (List.mem_cons_of_mem _ hc')) hlast s hs

theorem nruns_relabelAll_le (hbs chroms : List (List α))
    (h : List.Forall₂ BoundsOK hbs chroms) (hp : ∀ c ∈ chroms, c.Pairwise (· ≤ ·)) :
    nruns (relabelAll hbs chroms 0) ≤ nbins hbs := by
  have hs := relabelAll_sorted hbs chroms 0 h hp
  have hr : ∀ x ∈ relabelAll hbs chroms 0, x < nbins hbs := by
    intro x hx; have := (relabelAll_range hbs chroms 0 h x hx).2; omega
  exact nruns_le_of_lt _ _ hs hr

theorem nruns_relabelAll_eq (hbs chroms : List (List α))
    (h : List.Forall₂ BoundsOK hbs chroms) (hp : ∀ c ∈ chroms, c.Pairwise (· ≤ ·))
    (hcap : List.Forall₂ (fun hb (c : List α) => hb.length - 1 ≤ c.length) hbs chroms) :
    nruns (relabelAll hbs chroms 0) = nbins hbs := by
  have hg := relabelAll_good hbs chroms 0 h hp hcap
  exact nruns_eq_of_surj _ _ hg.sorted (fun x hx => by have := (hg.range x hx).2; omega)
    (fun j hj => by have := hg.surj j hj; simpa using this)

end

/-! ### small facts about boundary vectors built chromosome by chromosome -/
section
variable {α : Type}

theorem forall₂_left {γ δ : Type} (R : γ → δ → Prop) (P : γ → Prop) (l1 : List γ) (l2 : List δ)
    (h : List.Forall₂ R l1 l2) (hp : ∀ a b, R a b → P a) : ∀ a ∈ l1, P a := by
  induction h with
  | nil => simp
  | @cons a b l1 l2 hab _ ih =>
    intro x hx
    rcases List.mem_cons.mp hx with rfl | hx
    · exact hp _ b hab
    · exact ih x hx

/-- boundary vectors built by `zipWith f nblk chroms` with `len (f n c) = n + 1`: "no more bins than markers" on the
    counts is "no more bins than markers" on the vectors -/
theorem cap_of_zipWith (f : Nat → List α → List α) (hf : ∀ n c, 1 ≤ n → (f n c).length = n + 1)
    (nblk : List Nat) (chroms : List (List α)) (hpos : ∀ n ∈ nblk, 1 ≤ n)
    (h : List.Forall₂ (fun (n : Nat) (c : List α) => n ≤ c.length) nblk chroms) :
    List.Forall₂ (fun hb (c : List α) => hb.length - 1 ≤ c.length) (List.zipWith f nblk chroms) chroms := by
  induction h with
  | nil => exact List.Forall₂.nil
  | @cons n c ns cs hnc _ ih =>
    simp only [List.zipWith_cons_cons]
    refine List.Forall₂.cons ?_ (ih (fun m hm => hpos m (List.mem_cons_of_mem _ hm)))
    rw [hf n c (hpos n List.mem_cons_self)]
    simpa using hnc

theorem lens_of_zipWith (f : Nat → List α → List α) (hf : ∀ n c, 1 ≤ n → (f n c).length = n + 1)
    (nblk : List Nat) (chroms : List (List α)) (hl : nblk.length = chroms.length) (hpos : ∀ n ∈ nblk, 1 ≤ n) :
    (List.zipWith f nblk chroms).map (fun hb => hb.length - 1) = nblk := by
  induction nblk generalizing chroms with
  | nil => simp
  | cons n ns ih =>
    cases chroms with
    | nil => simp at hl
    | cons c cs =>
      simp only [List.length_cons, Nat.add_right_cancel_iff] at hl
      simp only [List.zipWith_cons_cons, List.map_cons]
      rw [hf n c (hpos n List.mem_cons_self), ih cs hl (fun m hm => hpos m (List.mem_cons_of_mem _ hm))]
      simp

end

/-! ### what the repaired pipeline returns -/
section
variable {α : Type} [Field α] [LinearOrder α] [IsStrictOrderedRing α]

theorem guard_iff_fits (nb : List Nat) (chroms : List (List α)) (hl : nb.length = chroms.length) :
    (List.zipWith (fun n (c : List α) => decide (c.length < n)) nb chroms).any id = false ↔
      Fits nb (chroms.map List.length) := by
  induction chroms generalizing nb with
  | nil =>
    cases nb with
    | nil => simp [Fits]
    | cons n ns => simp at hl
  | cons c cs ih =>
    cases nb with
    | nil => simp at hl
    | cons n ns =>
      simp only [List.length_cons, Nat.add_right_cancel_iff] at hl
      simp only [List.zipWith_cons_cons, List.any_cons, id, Bool.or_eq_false_iff, decide_eq_false_iff_not, not_lt,
        Fits, List.map_cons, List.forall₂_cons]
      rw [ih ns hl]
      rfl

theorem fits_sum_le (nb lens : List Nat) (h : Fits nb lens) : nb.sum ≤ lens.sum := by
  unfold Fits at h
  induction h with
  | nil => simp
  | cons hab _ ih => simp only [List.sum_cons]; omega

/-- the successful branch of the repaired `blocksOf`, unfolded into the facts proved about its stages -/
theorem blocksOf_stages (n : Nat) (chroms : List (List α)) (hv : ValidChroms chroms)
    (nblk hbin : List Nat) (bnds : List (Nat × Nat)) (h : blocksOf n chroms = .ok (nblk, hbin, bnds)) :
    nhaploblkChrom n chroms = .ok nblk ∧
    hbin = relabelAll (hbounds nblk chroms) chroms 0 ∧
    bnds = blockPairs hbin ∧
    List.Forall₂ BoundsOK (hbounds nblk chroms) chroms ∧
    nbins (hbounds nblk chroms) = n ∧
    Fits nblk (chroms.map List.length) ∧
    List.Forall₂ (fun hb (c : List α) => hb.length - 1 ≤ c.length) (hbounds nblk chroms) chroms := by
  unfold blocksOf at h
  cases hnb : nhaploblkChrom n chroms with
  | error e => simp [hnb] at h
  | ok nb =>
    simp only [hnb] at h
    obtain ⟨hl, hsum, hpos⟩ := nhaploblkChrom_total n chroms hv.1 nb hnb
    obtain ⟨hok, hnbins⟩ := hbounds_ok nb chroms hl hpos hv.2
    have hlab : haplobin nb chroms = (relabelAll (hbounds nb chroms) chroms 0).map some :=
      haplobinHB_eq_relabel _ _ 0 hok
    split at h
    · cases h
    · rename_i hg
      have hfit : Fits nb (chroms.map List.length) := (guard_iff_fits nb chroms hl).mp (by simpa using hg)
      rw [hlab, allSome_map_some] at h
      simp only at h
      have hlne := relabelAll_ne_nil (hbounds nb chroms) chroms 0 hok hv.1 (fun c hc => (hv.2 c hc).1)
      rw [blockBounds_eq _ hlne] at h
      simp only at h
      split at h
      · cases h
      · simp only [Except.ok.injEq, Prod.mk.injEq] at h
        obtain ⟨rfl, rfl, rfl⟩ := h
        exact ⟨rfl, rfl, rfl, hok, by rw [hnbins, hsum], hfit, hbounds_cap nb chroms hpos hfit⟩

/-- the repaired pipeline refuses (always with `"value"`) exactly the totals below the chromosome count or
    above the marker count: every total the property quantifies over is accepted, and the internal branches
    "marker never labelled" / "more runs than block columns" are dead code -/
theorem blocksOf_error_iff (n : Nat) (chroms : List (List α)) (hv : ValidChroms chroms) :
    ((∃ e, blocksOf n chroms = .error e) ↔ (n < chroms.length ∨ (chroms.map List.length).sum < n)) ∧
    ∀ e, blocksOf n chroms = .error e → e = "value" := by
  have key : ∀ e, blocksOf n chroms = .error e →
      e = "value" ∧ (n < chroms.length ∨ (chroms.map List.length).sum < n) := by
    intro e h
    unfold blocksOf at h
    cases hnb : nhaploblkChrom n chroms with
    | error e' =>
      simp only [hnb, Except.error.injEq] at h
      subst h
      exact ⟨nhaploblkChrom_error n chroms e' hnb, Or.inl ((nhaploblkChrom_error_iff n chroms).mp ⟨e', hnb⟩)⟩
    | ok nb =>
      simp only [hnb] at h
      obtain ⟨hl, hsum, hpos⟩ := nhaploblkChrom_total n chroms hv.1 nb hnb
      obtain ⟨hok, hnbins⟩ := hbounds_ok nb chroms hl hpos hv.2
      have hlab : haplobin nb chroms = (relabelAll (hbounds nb chroms) chroms 0).map some :=
        haplobinHB_eq_relabel _ _ 0 hok
      split at h
      · rename_i hg
        refine ⟨by simpa using h.symm, ?_⟩
        by_contra hcon
        simp only [not_or, not_lt] at hcon
        obtain ⟨nb', hnb', _, _, _, hfit'⟩ := nhaploblkChrom_ok n chroms (fun c hc => (hv.2 c hc).1) hcon.1 hcon.2
        rw [hnb] at hnb'
        simp only [Except.ok.injEq] at hnb'
        subst hnb'
        have := (guard_iff_fits nb chroms hl).mpr hfit'
        rw [this] at hg
        cases hg
      · rw [hlab, allSome_map_some] at h
        simp only at h
        have hlne := relabelAll_ne_nil (hbounds nb chroms) chroms 0 hok hv.1 (fun c hc => (hv.2 c hc).1)
        rw [blockBounds_eq _ hlne] at h
        simp only at h
        split at h
        · rename_i hgt
          have := nruns_relabelAll_le (hbounds nb chroms) chroms hok (fun c hc => (hv.2 c hc).2)
          rw [blockPairs_length] at hgt
          rw [hnbins, hsum] at this
          omega
        · cases h
  refine ⟨⟨fun ⟨e, he⟩ => (key e he).2, ?_⟩, fun e he => (key e he).1⟩
  intro hor
  cases hres : blocksOf n chroms with
  | error e => exact ⟨e, rfl⟩
  | ok r =>
    obtain ⟨nblk, hbin, bnds⟩ := r
    obtain ⟨hnb, _, _, _, _, hfit, _⟩ := blocksOf_stages n chroms hv nblk hbin bnds hres
    obtain ⟨hl, hsum, _⟩ := nhaploblkChrom_total n chroms hv.1 nblk hnb
    have := fits_sum_le _ _ hfit
    rcases hor with h1 | h2
    · have := (nhaploblkChrom_error_iff n chroms).mpr h1
      obtain ⟨e, he⟩ := this
      rw [hnb] at he; cases he
    · omega

/-- whatever the repaired pipeline returns has exactly the requested number of blocks -/
theorem blocksOf_length (n : Nat) (chroms : List (List α)) (hv : ValidChroms chroms)
    (nblk hbin : List Nat) (bnds : List (Nat × Nat)) (h : blocksOf n chroms = .ok (nblk, hbin, bnds)) :
    bnds.length = n ∧ nruns hbin = n := by
  obtain ⟨_, rfl, rfl, hok, hnb, _, hcap⟩ := blocksOf_stages n chroms hv nblk hbin bnds h
  have := nruns_relabelAll_eq _ chroms hok (fun c hc => (hv.2 c hc).2) hcap
  rw [blockPairs_length, this, hnb]
  exact ⟨rfl, rfl⟩

theorem hbounds_lens (nb : List Nat) (chroms : List (List α)) (hl : nb.length = chroms.length)
    (hpos : ∀ n ∈ nb, 1 ≤ n) : (hbounds nb chroms).map (fun hb => hb.length - 1) = nb :=
  lens_of_zipWith (fun n c => linspace (c.headD 0) (c.getLastD 0) n) (fun n c hn => linspace_length _ _ n hn)
    nb chroms hl hpos

end

end Haplo
