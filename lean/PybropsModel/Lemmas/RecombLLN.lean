/-
Helper lemmas for C02: n independent meioses.  Mean and variance of the proportion of gametes that
show an event, positivity of `E` for probabilities in [0, 1], Chebyshev's inequality.
-/
import PybropsModel.Lemmas.RecombLaw
set_option autoImplicit false
set_option linter.unusedSectionVars false

namespace Recomb

section ring
variable {α : Type} [CommRing α]

theorem E_split_append (xs ys : List α) (G H : List Bool → α) :
    E (xs ++ ys) (fun b => G (b.take xs.length) * H (b.drop xs.length)) = E xs G * E ys H := by
  have := E_split_mul xs.length (xs ++ ys) G H
  rw [List.take_left', List.drop_left'] at this <;> first | exact this | rfl

theorem E_take_append (xs ys : List α) (G : List Bool → α) :
    E (xs ++ ys) (fun b => G (b.take xs.length)) = E xs G := by
  have := E_split_append xs ys G (fun _ => 1)
  simpa [E_const] using this

theorem E_drop_append (xs ys : List α) (H : List Bool → α) :
    E (xs ++ ys) (fun b => H (b.drop xs.length)) = E ys H := by
  have := E_split_append xs ys (fun _ => 1) H
  simpa [E_const] using this

/-- the sum of a centred statistic over n independent gametes has mean 0 -/
theorem E_blockSum_centred (xs : List α) (g : List Bool → α) (hg : E xs g = 0) (n : Nat) :
    E (rep n xs) (blockSum xs.length g n) = 0 := by
  induction n with
  | zero => simp [rep, blockSum, E]
  | succ n ih =>
    simp only [rep]
    have : (blockSum xs.length g (n + 1)) =
        fun b => g (b.take xs.length) + blockSum xs.length g n (b.drop xs.length) := by
      funext b; rfl
    rw [this, E_add, E_take_append, E_drop_append xs (rep n xs) (blockSum xs.length g n), hg, ih]
    ring

/-- … and second moment n times the second moment of one gamete (the cross terms vanish by
    independence of different gametes) -/
theorem E_blockSum_sq (xs : List α) (g : List Bool → α) (hg : E xs g = 0) (n : Nat) :
    E (rep n xs) (fun b => blockSum xs.length g n b ^ 2) = (n : α) * E xs (fun a => g a ^ 2) := by
  induction n with
  | zero => simp [rep, blockSum, E]
  | succ n ih =>
    simp only [rep]
    have : (fun b => blockSum xs.length g (n + 1) b ^ 2) =
        fun b => ((fun a => g a ^ 2) (b.take xs.length)
          + 2 * (g (b.take xs.length) * blockSum xs.length g n (b.drop xs.length)))
          + (fun t => blockSum xs.length g n t ^ 2) (b.drop xs.length) := by
      funext b; simp only [blockSum]; ring
    rw [this, E_add, E_add, E_const_mul,
        E_take_append xs (rep n xs) (fun a => g a ^ 2),
        E_drop_append xs (rep n xs) (fun t => blockSum xs.length g n t ^ 2),
        E_split_append xs (rep n xs) g (blockSum xs.length g n), hg, ih]
    push_cast; ring

theorem blockSum_sub_const (m : Nat) (g : List Bool → α) (c : α) (n : Nat) (b : List Bool) :
    blockSum m (fun a => g a - c) n b = blockSum m g n b - (n : α) * c := by
  induction n generalizing b with
  | zero => simp [blockSum]
  | succ n ih => simp only [blockSum, ih]; push_cast; ring

/-- variance of an indicator -/
theorem E_centred_sq_of_indicator (xs : List α) (g : List Bool → α) (hg : ∀ b, g b = 0 ∨ g b = 1) :
    E xs (fun a => (g a - E xs g) ^ 2) = E xs g * (1 - E xs g) := by
  have : (fun a => (g a - E xs g) ^ 2) = fun a => (1 - 2 * E xs g) * g a + E xs g ^ 2 := by
    funext a
    rcases hg a with h | h <;> rw [h] <;> ring
  rw [this, E_add, E_const_mul, E_const]
  ring

end ring

section ordered
variable {α : Type} [Field α] [LinearOrder α] [IsStrictOrderedRing α]

theorem E_nonneg (xs : List α) (hx : ∀ x ∈ xs, 0 ≤ x ∧ x ≤ 1) (F : List Bool → α) (hF : ∀ b, 0 ≤ F b) :
    0 ≤ E xs F := by
  induction xs generalizing F with
  | nil => exact hF []
  | cons x xs ih =>
    have hx0 := hx x (List.mem_cons_self ..)
    have hxs : ∀ y ∈ xs, 0 ≤ y ∧ y ≤ 1 := fun y hy => hx y (List.mem_cons_of_mem _ hy)
    simp only [E]
    have h1 := ih hxs (fun b => F (false :: b)) (fun b => hF _)
    have h2 := ih hxs (fun b => F (true :: b)) (fun b => hF _)
    have : 0 ≤ 1 - x := by linarith [hx0.2]
    exact add_nonneg (mul_nonneg this h1) (mul_nonneg hx0.1 h2)

theorem E_mono (xs : List α) (hx : ∀ x ∈ xs, 0 ≤ x ∧ x ≤ 1) (F G : List Bool → α) (h : ∀ b, F b ≤ G b) :
    E xs F ≤ E xs G := by
  have := E_nonneg xs hx (fun b => G b - F b) (fun b => by linarith [h b])
  rw [E_sub] at this
  linarith

theorem rep_mem (n : Nat) (xs : List α) (x : α) (h : x ∈ rep n xs) : x ∈ xs := by
  induction n with
  | zero => simp [rep] at h
  | succ n ih =>
    simp only [rep, List.mem_append] at h
    rcases h with h | h
    · exact h
    · exact ih h

theorem rep_map {β : Type} (f : α → β) (n : Nat) (xs : List α) : (rep n xs).map f = rep n (xs.map f) := by
  induction n with
  | zero => rfl
  | succ n ih => simp [rep, ih]

/-- Chebyshev's inequality for `E` -/
theorem chebyshev (ys : List α) (hy : ∀ y ∈ ys, 0 ≤ y ∧ y ≤ 1) (D : List Bool → α) (ε : α) (hε : 0 < ε) :
    E ys (fun b => ind (decide (ε ≤ |D b|))) * ε ^ 2 ≤ E ys (fun b => D b ^ 2) := by
  rw [← E_mul_const]
  apply E_mono ys hy
  intro b
  by_cases h : ε ≤ |D b|
  · simp only [h, decide_true, ind, if_true, one_mul]
    have : ε ^ 2 ≤ |D b| ^ 2 := by
      apply pow_le_pow_left₀ hε.le h
    rwa [sq_abs] at this
  · simp only [h, decide_false, ind, Bool.false_eq_true, if_false, zero_mul]
    exact sq_nonneg _

/-- weak law of large numbers for the proportion of gametes showing an event -/
theorem proportion_chebyshev (xs : List α) (hx : ∀ x ∈ xs, 0 ≤ x ∧ x ≤ 1) (g : List Bool → α)
    (hg : ∀ b, g b = 0 ∨ g b = 1) (n : Nat) (hn : 0 < n) (ε : α) (hε : 0 < ε) :
    E (rep n xs) (fun b => ind (decide (ε ≤ |proportion xs.length g n b - E xs g|))) ≤
      E xs g * (1 - E xs g) / ((n : α) * ε ^ 2) := by
  have hnpos : (0 : α) < (n : α) := by exact_mod_cast hn
  have hrep : ∀ y ∈ rep n xs, 0 ≤ y ∧ y ≤ 1 := fun y hy => hx y (rep_mem n xs y hy)
  have hc : E xs (fun a => g a - E xs g) = 0 := by rw [E_sub, E_const]; ring
  have hD : ∀ b, proportion xs.length g n b - E xs g =
      blockSum xs.length (fun a => g a - E xs g) n b / (n : α) := by
    intro b
    rw [blockSum_sub_const]
    unfold proportion
    field_simp
  have hsq : E (rep n xs) (fun b => (proportion xs.length g n b - E xs g) ^ 2) =
      E xs g * (1 - E xs g) / (n : α) := by
    have : (fun b => (proportion xs.length g n b - E xs g) ^ 2) =
        fun b => (1 / (n : α) ^ 2) * (fun t => blockSum xs.length (fun a => g a - E xs g) n t ^ 2) b := by
      funext b; rw [hD b]; field_simp
    rw [this, E_const_mul, E_blockSum_sq xs _ hc n, E_centred_sq_of_indicator xs g hg]
    field_simp
  have hch := chebyshev (rep n xs) hrep (fun b => proportion xs.length g n b - E xs g) ε hε
  rw [hsq] at hch
  rw [le_div_iff₀ (by positivity)]
  calc E (rep n xs) (fun b => ind (decide (ε ≤ |proportion xs.length g n b - E xs g|))) * ((n : α) * ε ^ 2)
      = (E (rep n xs) (fun b => ind (decide (ε ≤ |proportion xs.length g n b - E xs g|))) * ε ^ 2) * (n : α) := by ring
    _ ≤ (E xs g * (1 - E xs g) / (n : α)) * (n : α) := mul_le_mul_of_nonneg_right hch hnpos.le
    _ = E xs g * (1 - E xs g) := by field_simp

end ordered

end Recomb
