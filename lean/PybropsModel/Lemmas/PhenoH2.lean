/-
Helper lemmas for C14, part 4: heritability algebra (`Pheno.errVar`, `Pheno.setH2`, `Pheno.popVar`).
-/
import Mathlib.Tactic
import PybropsModel.Lemmas.PhenoBV
set_option autoImplicit false
set_option linter.unusedSectionVars false

namespace Pheno

section herit
variable {α : Type} [Field α] [LinearOrder α] [IsStrictOrderedRing α]

theorem errVar_nonneg (h2 varA : α) (h0 : 0 < h2) (h1 : h2 ≤ 1) (hA : 0 ≤ varA) : 0 ≤ errVar h2 varA := by
  unfold errVar
  apply mul_nonneg _ hA
  apply div_nonneg _ h0.le
  linarith

theorem heritability_errVar (h2 varA : α) (h0 : 0 < h2) (hA : 0 < varA) :
    heritability varA (errVar h2 varA) = h2 := by
  unfold heritability errVar
  have : varA + (1 - h2) / h2 * varA = varA / h2 := by field_simp; ring
  rw [this]
  field_simp

theorem npsum_nonneg (l : List α) (h : ∀ x ∈ l, 0 ≤ x) : 0 ≤ Np.sum l := by
  unfold Np.sum
  rw [← List.sum_eq_foldl]
  exact List.sum_nonneg h

theorem mean_nonneg (l : List α) (h : ∀ x ∈ l, 0 ≤ x) : 0 ≤ mean l := by
  unfold mean
  exact div_nonneg (npsum_nonneg l h) (Nat.cast_nonneg _)

theorem popVar_nonneg (l : List α) : 0 ≤ popVar l := by
  unfold popVar
  apply mean_nonneg
  intro x hx
  obtain ⟨y, _, rfl⟩ := List.mem_map.mp hx
  exact mul_self_nonneg _

theorem varCols_nonneg (t : Nat) (gv : List (List α)) : ∀ v ∈ varCols t gv, 0 ≤ v := by
  intro v hv
  unfold varCols at hv
  obtain ⟨j, _, rfl⟩ := List.mem_map.mp hv
  exact popVar_nonneg _

theorem varCols_length (t : Nat) (gv : List (List α)) : (varCols t gv).length = t := by
  simp [varCols]

/-- the setter accepts the computed error variances when the targets are in `(0,1]` -/
theorem setH2_eq (h2 varA : List α) (hh : ∀ h ∈ h2, 0 < h ∧ h ≤ 1) (hA : ∀ v ∈ varA, 0 ≤ v) :
    setH2 h2 varA = some (List.zipWith errVar h2 varA) := by
  unfold setH2
  simp only
  rw [if_pos]
  rw [List.all_eq_true]
  intro x hx
  obtain ⟨i, hi, rfl⟩ := List.mem_iff_getElem.mp hx
  simp only [List.length_zipWith, lt_min_iff] at hi
  simp only [List.getElem_zipWith, Bool.not_eq_eq_eq_not, Bool.not_true, decide_eq_false_iff_not, not_lt]
  exact errVar_nonneg _ _ (hh _ (List.getElem_mem hi.1)).1 (hh _ (List.getElem_mem hi.1)).2
    (hA _ (List.getElem_mem hi.2))

end herit

/-! ### shifts do not change a variance -/
section
variable {α : Type} [Field α] [CharZero α]

theorem mean_translate (c : α) (xs : List α) (hne : xs ≠ []) : mean (xs.map (fun x => c + x)) = c + mean xs := by
  unfold mean
  rw [npsum_eq_sum, npsum_eq_sum, List.length_map]
  have hs : (xs.map (fun x => c + x)).sum = (xs.length : α) * c + xs.sum := by
    clear hne
    induction xs with
    | nil => simp
    | cons a l ih => simp only [List.map_cons, List.sum_cons, ih, List.length_cons, Nat.cast_succ]; ring
  have hn : (xs.length : α) ≠ 0 := by
    simpa using hne
  rw [hs]
  field_simp

/-- the population variance does not see a common shift -/
theorem popVar_translate (c : α) (xs : List α) : popVar (xs.map (fun x => c + x)) = popVar xs := by
  by_cases hne : xs = []
  · subst hne; rfl
  · unfold popVar
    simp only [mean_translate c xs hne, List.map_map]
    congr 1
    apply List.map_congr_left
    intro x _
    simp only [Function.comp]
    ring

end

section
variable {α : Type} [AddZeroClass α]
theorem vadd_getD (a b : List α) (j : Nat) (ha : j < a.length) (hb : j < b.length) :
    (vadd a b).getD j 0 = a.getD j 0 + b.getD j 0 := by
  unfold vadd
  simp [List.getD_eq_getElem?_getD, ha, hb]
theorem vadd_length (a b : List α) : (vadd a b).length = min a.length b.length := by simp [vadd]
end

end Pheno
