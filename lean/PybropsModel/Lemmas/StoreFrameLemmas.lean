/-
Lemmas for the data-frame layouts (C16).
-/
import Mathlib.Tactic
import PybropsModel.Model.StoreFrame

set_option autoImplicit false

namespace StoreFrame
open Store (Err)

variable {α : Type}

theorem put_fresh (f : Frame α) (k : Name) (c : Col α) (h : ∀ e ∈ f, e.1 ≠ k) :
    put f k c = f ++ [(k, c)] := by
  unfold put
  have : f.any (fun e => e.1 == k) = false := by
    rw [List.any_eq_false]
    intro e he
    simpa using h e he
  simp [this]

theorem foldl_put (cols : List (Name × Col α)) :
    ∀ (acc : Frame α), ((acc ++ cols).map Prod.fst).Nodup →
      cols.foldl (fun f kc => put f kc.1 kc.2) acc = acc ++ cols := by
  induction cols with
  | nil => intro acc _; simp
  | cons kc r ih =>
    intro acc hnd
    have hfresh : ∀ e ∈ acc, e.1 ≠ kc.1 := by
      intro e he heq
      rw [List.map_append, List.nodup_append] at hnd
      exact hnd.2.2 e.1 (List.mem_map_of_mem (f := Prod.fst) he) kc.1 (by simp) heq
    rw [List.foldl_cons, put_fresh acc kc.1 kc.2 hfresh]
    have : acc ++ [(kc.1, kc.2)] ++ r = acc ++ kc :: r := by simp
    rw [ih (acc ++ [(kc.1, kc.2)]) (by rw [this]; exact hnd), this]

/-- a dictionary with distinct keys becomes exactly the list of its columns -/
theorem mkFrame_of_nodup (cols : List (Name × Col α)) (h : (cols.map Prod.fst).Nodup) :
    mkFrame cols = cols := by
  unfold mkFrame
  simpa using foldl_put cols [] (by simpa using h)

theorem lookupCol_of_mem (cols : Frame α) (h : (cols.map Prod.fst).Nodup) (k : Name) (c : Col α)
    (hm : (k, c) ∈ cols) : lookupCol cols k = some c := by
  unfold lookupCol
  induction cols with
  | nil => simp at hm
  | cons e r ih =>
    simp only [List.map_cons, List.nodup_cons] at h
    rcases List.mem_cons.mp hm with heq | hr
    · subst heq; simp
    · have hne : e.1 ≠ k := by
        intro heq
        exact h.1 (heq ▸ List.mem_map_of_mem (f := Prod.fst) hr)
      have : (e.1 == k) = false := by simpa using hne
      simp only [List.find?_cons, this]
      exact ih h.2 hr

theorem mapM_valsOf (T : List (Name × Col α)) (g : Name × Col α → List α)
    (h : ∀ e ∈ T, e.2 = Col.vals (g e)) :
    T.mapM (fun e => valsOf e.2) = (Except.ok (T.map g) : Except Err _) := by
  induction T with
  | nil => rfl
  | cons e r ih =>
    rw [List.mapM_cons, h e List.mem_cons_self, ih (fun x hx => h x (List.mem_cons_of_mem _ hx))]
    rfl

section bv
variable [Add α] [Mul α] [Inhabited α]

/-- the trait columns of the wide layout -/
def traitCols (b : BV α) (unsc : Bool) : List (Name × Col α) :=
  (List.range b.ntrait).map (fun j =>
    (traitName b j, Col.vals (column (if unsc then unscale b else b.mat) j)))

theorem bvCols_eq (b : BV α) (tc gc : Option String) (unsc : Bool) :
    bvCols b tc gc unsc =
      (match tc with
       | some c => [(Name.s c, match b.taxa with | some l => Col.strs l | none => Col.nones b.ntaxa)]
       | none => []) ++
      (match gc with
       | some c => [(Name.s c, match b.taxa_grp with | some l => Col.ints l | none => Col.nones b.ntaxa)]
       | none => []) ++ traitCols b unsc := rfl

theorem filter_traitCols (b : BV α) (tc gc : Option String) (unsc : Bool)
    (h : ∀ e ∈ traitCols b unsc, isLabel tc gc e.1 = false) :
    (traitCols b unsc).filter (fun e => !(isLabel tc gc e.1)) = traitCols b unsc := by
  rw [List.filter_eq_self]
  intro e he
  simp [h e he]

end bv

end StoreFrame

namespace StoreFrame
open Store (Err)

section bv2
variable {α : Type} [Add α] [Mul α] [Inhabited α]

def labelCols (b : BV α) (tc gc : Option String) : List (Name × Col α) :=
  (match tc with
   | some c => [(Name.s c, match b.taxa with | some l => Col.strs l | none => Col.nones b.ntaxa)]
   | none => []) ++
  (match gc with
   | some c => [(Name.s c, match b.taxa_grp with | some l => Col.ints l | none => Col.nones b.ntaxa)]
   | none => [])

theorem bvCols_split (b : BV α) (tc gc : Option String) (unsc : Bool) :
    bvCols b tc gc unsc = labelCols b tc gc ++ traitCols b unsc := by
  rw [bvCols_eq]; rfl

theorem labelCols_isLabel (b : BV α) (tc gc : Option String) :
    ∀ e ∈ labelCols b tc gc, isLabel tc gc e.1 = true := by
  intro e he
  unfold labelCols at he
  cases tc <;> cases gc <;> simp at he
  · subst he; simp [isLabel]
  · subst he; simp [isLabel]
  · rcases he with he | he <;> subst he <;> simp [isLabel]

theorem isLabel_mem (b : BV α) (tc gc : Option String) (k : Name) (h : isLabel tc gc k = true) :
    k ∈ (labelCols b tc gc).map Prod.fst := by
  unfold isLabel at h
  unfold labelCols
  cases tc <;> cases gc <;> simp at h ⊢
  · exact h.symm
  · exact h.symm
  · rcases h with h | h
    · exact Or.inl h.symm
    · exact Or.inr h.symm

/-- **wide layout of breeding values**: what `from_pandas` extracts from the frame `to_pandas` built,
    with the same label-column options, is the labels and the (unscaled) value columns written -/
theorem bvFromPandas_toPandas (b : BV α) (tc gc : Option String) (unsc : Bool)
    (hn : ((bvCols b tc gc unsc).map Prod.fst).Nodup)
    (htaxa : tc.isSome = b.taxa.isSome) (hgrp : gc.isSome = b.taxa_grp.isSome) :
    bvFromPandas (bvToPandas b tc gc unsc) tc gc =
      .ok ⟨b.taxa, b.taxa_grp, (List.range b.ntrait).map (traitName b),
           (List.range b.ntrait).map (column (if unsc then unscale b else b.mat))⟩ := by
  unfold bvToPandas
  rw [mkFrame_of_nodup _ hn]
  have hsplit := bvCols_split b tc gc unsc
  -- trait columns are not label columns
  have htl : ∀ e ∈ traitCols b unsc, isLabel tc gc e.1 = false := by
    intro e he
    by_contra hc
    have hc' : isLabel tc gc e.1 = true := by simpa using hc
    have h1 := isLabel_mem b tc gc e.1 hc'
    rw [hsplit, List.map_append, List.nodup_append] at hn
    exact hn.2.2 e.1 h1 e.1 (List.mem_map_of_mem (f := Prod.fst) he) rfl
  have hfilter : (bvCols b tc gc unsc).filter (fun e => !(isLabel tc gc e.1)) = traitCols b unsc := by
    rw [hsplit, List.filter_append, filter_traitCols b tc gc unsc htl]
    have : (labelCols b tc gc).filter (fun e => !(isLabel tc gc e.1)) = [] := by
      rw [List.filter_eq_nil_iff]
      intro e he
      simp [labelCols_isLabel b tc gc e he]
    rw [this]; rfl
  have hvals := mapM_valsOf (traitCols b unsc)
    (fun e => match e.2 with | .vals l => l | _ => []) (by
      intro e he
      unfold traitCols at he
      obtain ⟨j, _, rfl⟩ := List.mem_map.mp he
      rfl)
  have hnames : (traitCols b unsc).map (·.1) = (List.range b.ntrait).map (traitName b) := by
    unfold traitCols; simp
  have hcols : (traitCols b unsc).map (fun e => match e.2 with | .vals l => l | _ => []) =
      (List.range b.ntrait).map (column (if unsc then unscale b else b.mat)) := by
    unfold traitCols; simp
  -- the two label look-ups
  have htx : readStrCol (bvCols b tc gc unsc) tc = .ok b.taxa := by
    cases htc : tc with
    | none =>
      rw [htc] at htaxa
      cases hb : b.taxa with
      | none => rfl
      | some l => rw [hb] at htaxa; simp at htaxa
    | some c =>
      rw [htc] at htaxa
      cases hb : b.taxa with
      | none => rw [hb] at htaxa; simp at htaxa
      | some l =>
        have hm : (Name.s c, Col.strs l) ∈ bvCols b tc gc unsc := by
          rw [hsplit, htc]; unfold labelCols; simp [hb]
        have hl := lookupCol_of_mem _ hn _ _ hm
        rw [htc] at hl
        simp only [readStrCol, hl]
        rfl
  have hgx : readIntCol (bvCols b tc gc unsc) gc = .ok b.taxa_grp := by
    cases hgc : gc with
    | none =>
      rw [hgc] at hgrp
      cases hb : b.taxa_grp with
      | none => rfl
      | some l => rw [hb] at hgrp; simp at hgrp
    | some c =>
      rw [hgc] at hgrp
      cases hb : b.taxa_grp with
      | none => rw [hb] at hgrp; simp at hgrp
      | some l =>
        have hm : (Name.s c, Col.ints l) ∈ bvCols b tc gc unsc := by
          rw [hsplit, hgc]; unfold labelCols; cases tc <;> simp [hb]
        have hl := lookupCol_of_mem _ hn _ _ hm
        rw [hgc] at hl
        simp only [readIntCol, hl]
        rfl
  show (do
    let taxa ← readStrCol (bvCols b tc gc unsc) tc
    let grp ← readIntCol (bvCols b tc gc unsc) gc
    let cols ← ((bvCols b tc gc unsc).filter (fun (e : Name × Col α) => !(isLabel tc gc e.1))).mapM
      (fun (e : Name × Col α) => valsOf e.2)
    pure (⟨taxa, grp, ((bvCols b tc gc unsc).filter (fun (e : Name × Col α) => !(isLabel tc gc e.1))).map
      (fun (e : Name × Col α) => e.1), cols⟩ : BVRead α)) = _
  rw [htx, hgx, hfilter, hvals, hnames, hcols]
  rfl

end bv2

/-! ### genetic map units -/

section gmap
variable {α : Type} [Field α]

theorem units_roundtrip (h100 : (100 : α) ≠ 0) (x : α) : ((1 : α) / 100) * ((100 : α) * x) = x := by
  field_simp

end gmap

end StoreFrame
