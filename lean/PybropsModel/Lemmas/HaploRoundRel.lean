/-
Helper lemmas for C18 (17): the no-overshoot clause of the rounding contract (`ChromRoundOK`) follows from the
standard model of floating-point arithmetic — monotone rounding with relative error at most `e` (no underflow),
representable end points — whenever the number of bins is at most `1/(4e)` (2⁵¹ for binary64).  And: a marker
exactly on an interior boundary belongs to the later bin.
-/
import PybropsModel.Lemmas.HaploRound
set_option autoImplicit false
set_option linter.unusedSectionVars false

namespace Haplo

section
variable {α : Type} [Field α] [LinearOrder α] [IsStrictOrderedRing α]

/-- rounding never exceeds `x (1 + e)` on non-negative numbers (round-to-nearest / any faithful rounding with
    unit round-off `e`, away from underflow) -/
def RelUp (rnd : α → α) (e : α) : Prop := ∀ x, 0 ≤ x → rnd x ≤ x * (1 + e)

theorem cube_le (e : α) (h0 : 0 ≤ e) (h1 : e ≤ 1 / 4) : (1 + e) * (1 + e) * (1 + e) ≤ 1 + 4 * e := by
  have h2 : e * e ≤ e * (1 / 4) := mul_le_mul_of_nonneg_left h1 h0
  have h3 : e * e * e ≤ e * (1 / 4) * (1 / 4) := by
    have := mul_le_mul_of_nonneg_right h2 h0
    have h4 : e * (1 / 4) * e ≤ e * (1 / 4) * (1 / 4) := mul_le_mul_of_nonneg_left h1 (by positivity)
    linarith
  nlinarith

/-- **no overshoot.**  `rnd` monotone with `rnd 0 = 0`, relative error at most `e ≤ 1/4` upwards, the stop `b`
    representable, `4 e n ≤ 1`: the last COMPUTED point `rnd(rnd((n-1)·step) + a)` of `linspace(a, b, n+1)` does
    not exceed `b`. -/
theorem pointR_last_le (rnd : α → α) (hr : RoundOK rnd) (e : α) (h0 : 0 ≤ e) (h1 : e ≤ 1 / 4)
    (hrel : RelUp rnd e) (a b : α) (hab : a ≤ b) (hb : rnd b = b) (n : Nat) (hn : 1 ≤ n)
    (hne : 4 * e * (n : α) ≤ 1) :
    pointR rnd a b n (n - 1) ≤ b := by
  have hnpos : (0 : α) < (n : α) := by exact_mod_cast hn
  have hd : 0 ≤ b - a := sub_nonneg.mpr hab
  -- D = rnd (b - a), s = step, m = rnd ((n-1) s)
  have hD0 : 0 ≤ rnd (b - a) := by have := hr.mono 0 _ hd; rwa [hr.zero] at this
  have hD : rnd (b - a) ≤ (b - a) * (1 + e) := hrel _ hd
  have hq0 : 0 ≤ rnd (b - a) / (n : α) := div_nonneg hD0 hnpos.le
  have hs0 : 0 ≤ stepR rnd a b n := stepR_nonneg rnd hr a b n hab
  have hs : stepR rnd a b n ≤ rnd (b - a) / (n : α) * (1 + e) := hrel _ hq0
  have hj : ((n - 1 : Nat) : α) = (n : α) - 1 := by rw [Nat.cast_sub hn, Nat.cast_one]
  have hj0 : 0 ≤ (n : α) - 1 := by
    have : (1 : α) ≤ (n : α) := by exact_mod_cast hn
    linarith
  have hp0 : 0 ≤ ((n : α) - 1) * stepR rnd a b n := mul_nonneg hj0 hs0
  have hm : rnd (((n : α) - 1) * stepR rnd a b n) ≤ ((n : α) - 1) * stepR rnd a b n * (1 + e) := hrel _ hp0
  have he1 : 0 ≤ 1 + e := by linarith
  -- (n-1) s (1+e) ≤ (n-1)/n · d · (1+e)^3 ≤ d
  have hs2 : stepR rnd a b n ≤ (b - a) * (1 + e) / (n : α) * (1 + e) := by
    refine le_trans hs ?_
    apply mul_le_mul_of_nonneg_right _ he1
    exact div_le_div_of_nonneg_right hD hnpos.le
  have hm2 : ((n : α) - 1) * stepR rnd a b n * (1 + e)
      ≤ ((n : α) - 1) * ((b - a) * (1 + e) / (n : α) * (1 + e)) * (1 + e) := by
    apply mul_le_mul_of_nonneg_right _ he1
    exact mul_le_mul_of_nonneg_left hs2 hj0
  have hfin : ((n : α) - 1) * ((b - a) * (1 + e) / (n : α) * (1 + e)) * (1 + e) ≤ b - a := by
    have hc := cube_le e h0 h1
    have e1 : ((n : α) - 1) * ((b - a) * (1 + e) / (n : α) * (1 + e)) * (1 + e)
        = (b - a) * ((((n : α) - 1) * ((1 + e) * (1 + e) * (1 + e))) / (n : α)) := by
      field_simp
    rw [e1]
    have hk : (((n : α) - 1) * ((1 + e) * (1 + e) * (1 + e))) / (n : α) ≤ 1 := by
      rw [div_le_one hnpos]
      have : ((n : α) - 1) * ((1 + e) * (1 + e) * (1 + e)) ≤ ((n : α) - 1) * (1 + 4 * e) :=
        mul_le_mul_of_nonneg_left hc hj0
      nlinarith
    calc (b - a) * ((((n : α) - 1) * ((1 + e) * (1 + e) * (1 + e))) / (n : α))
        ≤ (b - a) * 1 := mul_le_mul_of_nonneg_left hk hd
      _ = b - a := mul_one _
  have hsum : rnd (((n : α) - 1) * stepR rnd a b n) + a ≤ b := by linarith
  unfold pointR
  rw [hj]
  have := hr.mono _ _ hsum
  rwa [hb] at this

/-- the chromosome-wise contract from the floating-point model: representable first and last position -/
theorem chromRoundOK_of_relUp (rnd : α → α) (hr : RoundOK rnd) (e : α) (h0 : 0 ≤ e) (h1 : e ≤ 1 / 4)
    (hrel : RelUp rnd e) (n : Nat) (hn : 1 ≤ n) (hne : 4 * e * (n : α) ≤ 1) (c : List α)
    (hs : c.headD 0 ≤ c.getLastD 0) (hfirst : rnd (c.headD 0) = c.headD 0)
    (hlast : rnd (c.getLastD 0) = c.getLastD 0) :
    ChromRoundOK rnd n c :=
  ⟨hn, hfirst, pointR_last_le rnd hr e h0 h1 hrel _ _ hs hlast n hn hne⟩

end

/-! ### a marker exactly on an interior boundary goes to the LATER bin -/

section ties
variable {α : Type} [LinearOrder α]

theorem countP_le_take (l : List α) (j : Nat) (hj : j < l.length) (hs : l.Pairwise (· < ·)) :
    l.countP (fun b => decide (b ≤ l[j])) = j + 1 := by
  induction l generalizing j with
  | nil => simp at hj
  | cons a t ih =>
    obtain ⟨h1, h2⟩ := List.pairwise_cons.mp hs
    cases j with
    | zero =>
      simp only [List.getElem_cons_zero, List.countP_cons, le_refl, decide_true, if_true]
      have : t.countP (fun b => decide (b ≤ a)) = 0 := by
        rw [List.countP_eq_zero]
        intro b hb
        simp only [decide_eq_true_eq, not_le]
        exact h1 b hb
      omega
    | succ j =>
      have hj' : j < t.length := by simpa using hj
      simp only [List.getElem_cons_succ, List.countP_cons]
      have ha : a ≤ t[j] := (h1 _ (List.getElem_mem hj')).le
      simp only [ha, decide_true, if_true]
      rw [ih j hj' h2]

/-- with strictly increasing boundaries `hb[0] < … < hb[n]`, the marker sitting exactly on the interior boundary
    `hb[j]` (`1 ≤ j ≤ n-1`) gets label `k + j`: it belongs to bin `j = [hb[j], hb[j+1]]`, the LATER of the two bins
    that contain it (the painting loop overwrites) -/
theorem label_on_boundary (hb : List α) (k j : Nat) (h1 : 1 ≤ j) (h2 : j + 1 < hb.length)
    (hs : hb.Pairwise (· < ·)) :
    labelsChrom hb k [hb[j]'(by omega)] = [k + j] := by
  have hint : (interior hb).Pairwise (· < ·) := by
    unfold interior
    exact (hs.sublist (List.tail_sublist hb)).sublist (List.dropLast_sublist _)
  have hlen : (interior hb).length = hb.length - 2 := interior_length hb
  have hget : (interior hb)[j - 1]'(by rw [hlen]; omega) = hb[j]'(by omega) := by
    unfold interior
    rw [List.getElem_dropLast, List.getElem_tail]
    congr 1
    omega
  have := countP_le_take (interior hb) (j - 1) (by rw [hlen]; omega) hint
  rw [hget] at this
  simp only [labelsChrom, List.map_cons, List.map_nil, List.cons.injEq, and_true]
  show k + (hb.tail.dropLast).countP (fun b => decide (b ≤ hb[j])) = k + j
  have e : hb.tail.dropLast = interior hb := rfl
  rw [e, this]
  omega

end ties

end Haplo
