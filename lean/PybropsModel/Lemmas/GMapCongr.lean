/-
Helper lemmas for C11: the code's own congruence test (`congruence()` / `is_congruent()` on the grouped
map) decides the predicate `Congruent` that the order-preservation theorem assumes.
-/
import PybropsModel.Lemmas.GMapQuery
set_option autoImplicit false
set_option linter.unusedSectionVars false

namespace GMap
section congr
variable {α β : Type} [Field α] [LinearOrder α] [IsStrictOrderedRing α]

theorem rowLe_chr_le {a b : Row α β} (h : rowLe a b = true) : a.chr ≤ b.chr := by
  rcases (rowLe_iff a b).mp h with h | ⟨h, _⟩
  · exact h.le
  · exact h.le

/-- one `congruence()` cell -/
def congrCell (prev : Option (Row α β)) (r : Row α β) : Bool :=
  match prev with
  | none => true
  | some p => if p.chr = r.chr then !decide (r.gen < p.gen) else true

theorem congruenceFrom_cons (prev : Option (Row α β)) (r : Row α β) (t : List (Row α β)) :
    congruenceFrom prev (r :: t) = congrCell prev r :: congruenceFrom (some r) t := by
  cases prev <;> rfl

/-- all cells true ⇒ the head is below every later row of its chromosome -/
theorem head_le_of_congruence : ∀ (t : List (Row α β)) (r : Row α β),
    (r :: t).Pairwise (fun a b => rowLe a b = true) → (congruenceFrom (some r) t).all id = true →
    ∀ b ∈ t, r.chr = b.chr → r.gen ≤ b.gen
  | [], _, _, _, b, hb, _ => by simp at hb
  | s :: t', r, hs, hall, b, hb, hrb => by
    rw [congruenceFrom_cons, List.all_cons, Bool.and_eq_true] at hall
    obtain ⟨hcell, hrest⟩ := hall
    obtain ⟨hr, hs'⟩ := List.pairwise_cons.mp hs
    have hrs : r.chr = s.chr → r.gen ≤ s.gen := by
      intro h
      simp only [congrCell, id, if_pos h] at hcell
      simpa using hcell
    rcases List.mem_cons.mp hb with rfl | hb'
    · exact hrs hrb
    · have h1 : r.chr ≤ s.chr := rowLe_chr_le (hr s (by simp))
      have h2 : s.chr ≤ b.chr := rowLe_chr_le ((List.pairwise_cons.mp hs').1 b hb')
      have hsc : r.chr = s.chr := by omega
      exact le_trans (hrs hsc) (head_le_of_congruence t' s hs' hrest b hb' (by omega))

theorem pairwise_of_congruence : ∀ (l : List (Row α β)) (prev : Option (Row α β)),
    l.Pairwise (fun a b => rowLe a b = true) → (congruenceFrom prev l).all id = true →
    l.Pairwise (fun a b => a.chr = b.chr → a.gen ≤ b.gen)
  | [], _, _, _ => List.Pairwise.nil
  | r :: t, prev, hs, hall => by
    rw [congruenceFrom_cons, List.all_cons, Bool.and_eq_true] at hall
    exact List.pairwise_cons.mpr ⟨head_le_of_congruence t r hs hall.2,
      pairwise_of_congruence t (some r) (List.pairwise_cons.mp hs).2 hall.2⟩

/-- conversely, a sorted list whose later same-chromosome rows never have a smaller genetic position
    passes every cell of the test -/
theorem congruence_of_pairwise : ∀ (l : List (Row α β)) (prev : Option (Row α β)),
    (∀ p, prev = some p → ∀ b ∈ l, p.chr = b.chr → p.gen ≤ b.gen) →
    l.Pairwise (fun a b => a.chr = b.chr → a.gen ≤ b.gen) → (congruenceFrom prev l).all id = true
  | [], _, _, _ => rfl
  | r :: t, prev, hp, hl => by
    rw [congruenceFrom_cons, List.all_cons, Bool.and_eq_true]
    obtain ⟨hr, ht⟩ := List.pairwise_cons.mp hl
    refine ⟨?_, congruence_of_pairwise t (some r) ?_ ht⟩
    · cases prev with
      | none => rfl
      | some p =>
        simp only [congrCell, id]
        split
        · rename_i h
          have := hp p rfl r (by simp) h
          simpa using this
        · rfl
    · intro p hpe b hb hc
      cases hpe
      exact hr b hb hc

/-- **`is_congruent()` of the constructed map decides `Congruent`** -/
theorem is_congruent_iff (rows : List (Row α β)) :
    (congruence (construct rows)).all id = true ↔ Congruent rows := by
  have hs := construct_sorted rows
  have hp := construct_perm rows
  constructor
  · intro hall a ha b hb hab hlt
    have hpw := pairwise_of_congruence _ none hs hall
    have ha' : a ∈ construct rows := hp.symm.subset ha
    have hb' : b ∈ construct rows := hp.symm.subset hb
    obtain ⟨i, hi, rfl⟩ := List.mem_iff_getElem.mp ha'
    obtain ⟨j, hj, rfl⟩ := List.mem_iff_getElem.mp hb'
    rcases lt_trichotomy i j with h | h | h
    · exact List.pairwise_iff_getElem.mp hpw i j hi hj h hab
    · subst h; exact absurd hlt (lt_irrefl _)
    · -- the later row cannot have the smaller physical position
      have := List.pairwise_iff_getElem.mp hs j i hj hi h
      rcases (rowLe_iff _ _).mp this with h1 | ⟨_, h2 | ⟨h2, _⟩⟩
      · rw [hab] at h1; exact absurd h1 (lt_irrefl _)
      · exact absurd (lt_trans h2 hlt) (lt_irrefl _)
      · rw [h2] at hlt; exact absurd hlt (lt_irrefl _)
  · intro hc
    refine congruence_of_pairwise _ none (by intro p hp; cases hp) ?_
    refine hs.imp_of_mem ?_
    intro a b ha hb hab hchr
    rcases (rowLe_iff _ _).mp hab with h1 | ⟨_, h2 | ⟨_, h3⟩⟩
    · rw [hchr] at h1; exact absurd h1 (lt_irrefl _)
    · exact hc a (hp.subset ha) b (hp.subset hb) hchr h2
    · exact h3

end congr
end GMap
