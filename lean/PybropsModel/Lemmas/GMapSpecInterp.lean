/-
Helper lemmas for C11: the Bool oracle `GMap.Spec.specInterp` (evaluated by the driver on the
implementation's output) versus the interpolation theorems:
  * it accepts the model's own output on every valid map, at every tolerance with a non-negative absolute part;
  * an output it accepts at zero tolerance satisfies the conclusions of the theorems (own markers,
    flanking markers, missing chromosomes, independence of the row order).
-/
import PybropsModel.Model.GMapSpec
import PybropsModel.Lemmas.GMapQuery
set_option autoImplicit false
set_option linter.unusedSectionVars false

namespace GMap.Spec
open GMap

/-! ### tolerant comparison -/

theorem absR_eq_abs (a : ℚ) : absR a = |a| := by
  unfold absR
  split
  · rename_i h; rw [abs_of_neg h]
  · rename_i h; rw [abs_of_nonneg (not_lt.mp h)]

theorem closeR_self (t : Tol) (ht : 0 ≤ t.abs_) (a : ℚ) : closeR t a a = true := by
  simp [closeR, absR_eq_abs, ht]

theorem closeR_zero_iff (a b : ℚ) : closeR Tol.zero a b = true ↔ a = b := by
  simp only [closeR, Tol.zero, absR_eq_abs, zero_mul, Bool.or_self, decide_eq_true_eq]
  constructor
  · intro h
    have : |a - b| = 0 := le_antisymm h (abs_nonneg _)
    exact sub_eq_zero.mp (abs_eq_zero.mp this)
  · rintro rfl; simp

theorem closeP_self (t : Tol) (ht : 0 ≤ t.abs_) (a : Option ℚ) : closeP t a a = true := by
  cases a <;> simp [closeP, closeR_self t ht]

theorem closeP_zero_iff (a b : Option ℚ) : closeP Tol.zero a b = true ↔ a = b := by
  cases a <;> cases b <;> simp [closeP, closeR_zero_iff]

theorem checks_fst (l : List (String × Bool)) : (checks l).1 = true ↔ ∀ p ∈ l, p.2 = true := by
  simp only [checks, List.isEmpty_iff, List.filter_eq_nil_iff, Bool.not_eq_true', Bool.not_eq_false]

theorem std_abs_nonneg : (0 : ℚ) ≤ Tol.std.abs_ := by
  show (0 : ℚ) ≤ 1 / 1000000000000
  norm_num

/-! ### the queries -/

theorem mem_onChr {rows : List (Row ℚ Int)} {c : Int} {r : Row ℚ Int} :
    r ∈ onChr rows c ↔ r ∈ rows ∧ r.chr = c := by
  simp [onChr]

/-- each query of the model's output carries the model's answer -/
theorem mem_queries_map {δ : Type} (F : Int × ℚ → δ) : ∀ (qchr : List Int) (qphy : List ℚ) (p : Int × ℚ × δ),
    p ∈ qchr.zip (qphy.zip ((qchr.zip qphy).map F)) → p.2.2 = F (p.1, p.2.1)
  | [], _, p, h => by simp at h
  | _ :: _, [], p, h => by simp at h
  | c :: qc, x :: qp, p, h => by
    simp only [List.zip_cons_cons, List.map_cons, List.mem_cons] at h
    rcases h with rfl | h
    · rfl
    · exact mem_queries_map F qc qp p h

theorem mem_queries_interp {rows : List (Row ℚ Int)} {qchr : List Int} {qphy : List ℚ} {p : Query}
    (h : p ∈ queries qchr qphy (interpGenpos rows qchr qphy)) : p.2.2 = interpOne rows p.1 p.2.1 :=
  mem_queries_map (fun q => interpOne rows q.1 q.2) qchr qphy p h

/-! ### the oracle accepts the model -/

theorem ownOk_model (t : Tol) (ht : 0 ≤ t.abs_) {rows : List (Row ℚ Int)} (hv : ValidMap rows) (c : Int) (x : ℚ) :
    ownOk t rows (c, x, interpOne rows c x) = true := by
  simp only [ownOk, List.all_eq_true, Bool.or_eq_true, Bool.not_eq_true', beq_eq_false_iff_ne, ne_eq]
  intro r hr
  obtain ⟨hr1, hr2⟩ := mem_onChr.mp hr
  by_cases hx : r.phy = x
  · right
    subst hx; subst hr2
    rw [interpOne_at_marker hv.1 hr1 (hv.2 r hr1)]
    exact closeP_self t ht _
  · left; exact hx

theorem flanks_iff {rows : List (Row ℚ Int)} {c : Int} {a b : Row ℚ Int} {x : ℚ} :
    flanks rows c a b x = true ↔
      a.phy < x ∧ x < b.phy ∧ ∀ m ∈ rows, m.chr = c → ¬ (a.phy < m.phy ∧ m.phy < b.phy) := by
  simp only [flanks, Bool.and_eq_true, decide_eq_true_eq, List.all_eq_true, Bool.not_eq_true',
    Bool.and_eq_false_iff, decide_eq_false_iff_not, and_assoc]
  constructor
  · rintro ⟨h1, h2, h3⟩
    refine ⟨h1, h2, ?_⟩
    intro m hm hc hcon
    rcases h3 m (mem_onChr.mpr ⟨hm, hc⟩) with h | h
    · exact h hcon.1
    · exact h hcon.2
  · rintro ⟨h1, h2, h3⟩
    refine ⟨h1, h2, ?_⟩
    intro m hm
    obtain ⟨hm1, hm2⟩ := mem_onChr.mp hm
    by_cases hlt : a.phy < m.phy
    · right; exact fun h => h3 m hm1 hm2 ⟨hlt, h⟩
    · left; exact hlt

theorem flankOk_model (t : Tol) (ht : 0 ≤ t.abs_) {rows : List (Row ℚ Int)} (hv : ValidMap rows) (c : Int) (x : ℚ) :
    flankOk t rows (c, x, interpOne rows c x) = true := by
  simp only [flankOk, List.all_eq_true, Bool.or_eq_true, Bool.not_eq_true']
  intro a ha b hb
  obtain ⟨ha1, ha2⟩ := mem_onChr.mp ha
  obtain ⟨hb1, hb2⟩ := mem_onChr.mp hb
  by_cases hf : flanks rows c a b x = true
  · right
    obtain ⟨h0, h1, h2⟩ := flanks_iff.mp hf
    subst ha2
    rw [interpOne_between hv.1 ha1 hb1 hb2.symm h0 h1.le h2]
    exact closeP_self t ht _
  · left; simpa using hf

theorem missingOk_model {rows : List (Row ℚ Int)} (hv : ValidMap rows) (c : Int) (x : ℚ) :
    missingOk rows (c, x, interpOne rows c x) = true := by
  simp only [missingOk, beq_iff_eq]
  by_cases h : ∃ r ∈ rows, r.chr = c
  · obtain ⟨r, hr, hc⟩ := h
    have h1 : (onChr rows c).isEmpty = false := by
      rw [List.isEmpty_eq_false_iff_exists_mem]
      exact ⟨r, mem_onChr.mpr ⟨hr, hc⟩⟩
    have h2 := interpOne_isSome hv.1 (hc ▸ hv.2 r hr) x
    rw [h1]
    cases hio : interpOne rows c x with
    | none => rw [hio] at h2; simp at h2
    | some _ => rfl
  · have h1 : (onChr rows c).isEmpty = true := by
      rw [List.isEmpty_iff]
      apply List.filter_eq_nil_iff.mpr
      intro r hr hc
      exact h ⟨r, hr, by simpa using hc⟩
    have h2 := interpOne_absent (rows := rows) (c := c) (fun r hr hc => h ⟨r, hr, hc⟩) x
    rw [h1, h2]; rfl

theorem congruentB_iff (rows : List (Row ℚ Int)) : congruentB rows = true ↔ Congruent rows := by
  simp only [congruentB, List.all_eq_true, Bool.or_eq_true, Bool.not_eq_true', Bool.and_eq_false_iff,
    beq_eq_false_iff_ne, ne_eq, decide_eq_false_iff_not, decide_eq_true_eq, Congruent]
  constructor
  · intro h a ha b hb hc hlt
    rcases h a ha b hb with (h1 | h1) | h1
    · exact absurd hc h1
    · exact absurd hlt h1
    · exact h1
  · intro h a ha b hb
    by_cases hc : a.chr = b.chr
    · by_cases hlt : a.phy < b.phy
      · right; exact h a ha b hb hc hlt
      · left; right; exact hlt
    · left; left; exact hc

theorem inRange_present {rows : List (Row ℚ Int)} {c : Int} {x : ℚ} (h : inRange rows c x = true) :
    ∃ r ∈ rows, r.chr = c := by
  simp only [inRange, Bool.and_eq_true, List.any_eq_true] at h
  obtain ⟨⟨r, hr, _⟩, _⟩ := h
  exact ⟨r, (mem_onChr.mp hr).1, (mem_onChr.mp hr).2⟩

theorem monoOk_model (t : Tol) (ht : 0 ≤ t.abs_) {rows : List (Row ℚ Int)} (hv : ValidMap rows)
    (hc : Congruent rows) (c c' : Int) (x x' : ℚ) :
    monoOk t rows (c, x, interpOne rows c x) (c', x', interpOne rows c' x') = true := by
  simp only [monoOk, Bool.or_eq_true, Bool.not_eq_true']
  by_cases hcond : (c == c' && decide (x ≤ x') && inRange rows c x && inRange rows c x') = true
  · right
    simp only [Bool.and_eq_true, beq_iff_eq, decide_eq_true_eq] at hcond
    obtain ⟨⟨⟨hcc, hx⟩, hr⟩, _⟩ := hcond
    subst hcc
    obtain ⟨r, hr1, hr2⟩ := inRange_present hr
    obtain ⟨y, y', hy, hy', hyy⟩ := interpOne_mono hv.1 hc (hr2 ▸ hv.2 r hr1) hx
    rw [hy, hy']
    simp only [decide_eq_true_eq]
    linarith
  · left; simpa using hcond

theorem interpGenpos_length' (rows : List (Row ℚ Int)) (qchr : List Int) (qphy : List ℚ)
    (hl : qphy.length = qchr.length) : (interpGenpos rows qchr qphy).length = qchr.length := by
  simp [interpGenpos, hl]

/-- **the oracle accepts the model's output** on every valid map, for every query array and every
    other supplied row order, at every tolerance with non-negative absolute part (in particular at the
    tolerance used on floats, and at zero tolerance) -/
theorem specInterp_accepts_model (t : Tol) (ht : 0 ≤ t.abs_) (rows rows' : List (Row ℚ Int))
    (hp : rows.Perm rows') (hv : ValidMap rows) (qchr : List Int) (qphy : List ℚ)
    (hl : qphy.length = qchr.length) :
    (specInterp rows qchr qphy (interpGenpos rows qchr qphy) (interpGenpos rows' qchr qphy) t).1 = true := by
  have hperm : interpGenpos rows' qchr qphy = interpGenpos rows qchr qphy :=
    (interpGenpos_perm hp hv.1 qchr qphy).symm
  unfold specInterp
  simp only [hperm, interpGenpos_length' rows qchr qphy hl, hl, bne_self_eq_false, Bool.or_self,
    Bool.false_eq_true, if_false]
  rw [checks_fst]
  intro p hp
  simp only [List.mem_cons, List.not_mem_nil, or_false] at hp
  rcases hp with rfl | rfl | rfl | rfl | rfl
  · simp only [List.all_eq_true]
    intro q hq
    have := mem_queries_interp hq
    obtain ⟨c, x, o⟩ := q
    simp only at this; subst this
    exact ownOk_model t ht hv c x
  · simp only [List.all_eq_true]
    intro q hq
    have := mem_queries_interp hq
    obtain ⟨c, x, o⟩ := q
    simp only at this; subst this
    exact flankOk_model t ht hv c x
  · simp only [Bool.or_eq_true, Bool.not_eq_true', List.all_eq_true]
    by_cases hc : congruentB rows = true
    · right
      intro q hq q' hq'
      have h1 := mem_queries_interp hq
      have h2 := mem_queries_interp hq'
      obtain ⟨c, x, o⟩ := q
      obtain ⟨c', x', o'⟩ := q'
      simp only at h1 h2; subst h1; subst h2
      exact monoOk_model t ht hv ((congruentB_iff rows).mp hc) c c' x x'
    · left; simpa using hc
  · simp only [List.all_eq_true]
    intro q hq
    have := mem_queries_interp hq
    obtain ⟨c, x, o⟩ := q
    simp only at this; subst this
    exact missingOk_model hv c x
  · simp only [List.all_eq_true]
    intro ab hab
    have : ab.1 = ab.2 := by
      obtain ⟨i, hi, rfl⟩ := List.mem_iff_getElem.mp hab
      simp
    rw [this]
    exact closeP_self t ht _

/-- the oracle used for the other spline kinds (step kinds, quadratic, cubic) asks a subset of what `specInterp`
    asks: whatever `specInterp` accepts, it accepts (in both modes: `oneSided` only weakens one check) -/
theorem specInterpAnyKind_of_specInterp (rows : List (Row ℚ Int)) (qchr : List Int) (qphy : List ℚ)
    (out out2 : List (Option ℚ)) (oneSided : Bool) (t : Tol)
    (h : (specInterp rows qchr qphy out out2 t).1 = true) :
    (specInterpAnyKind rows qchr qphy out out2 oneSided t).1 = true := by
  unfold specInterp at h
  unfold specInterpAnyKind
  by_cases hs : (qphy.length != qchr.length || out.length != qchr.length || out2.length != qchr.length) = true
  · simp only [hs, if_true] at h
    exact absurd h (by simp)
  · simp only [hs, Bool.false_eq_true, if_false] at h ⊢
    rw [checks_fst] at h ⊢
    intro p hp
    simp only [List.mem_cons, List.not_mem_nil, or_false] at hp
    rcases hp with rfl | rfl | rfl
    · exact h _ (by simp)
    · have hm := h ("absent chromosome <-> missing", (queries qchr qphy out).all (missingOk rows)) (by simp)
      simp only [List.all_eq_true] at hm ⊢
      intro q hq
      have := hm q hq
      cases oneSided with
      | false => simpa using this
      | true =>
        simp only [if_true, Bool.or_eq_true, Bool.not_eq_true']
        unfold missingOk at this
        by_cases he : (onChr rows q.1).isEmpty = true
        · right
          rw [he] at this
          simpa using this.symm
        · left; simpa using he
    · exact h _ (by simp)

/-! ### an output accepted at zero tolerance satisfies the theorems' conclusions -/

/-- what the interpolation clause of the property says about one reported position -/
def QueryLaw (rows : List (Row ℚ Int)) (p : Query) : Prop :=
  (∀ r ∈ rows, r.chr = p.1 → r.phy = p.2.1 → p.2.2 = some r.gen) ∧
  (∀ a ∈ rows, ∀ b ∈ rows, a.chr = p.1 → b.chr = p.1 → a.phy < p.2.1 → p.2.1 < b.phy →
      (∀ m ∈ rows, m.chr = p.1 → ¬ (a.phy < m.phy ∧ m.phy < b.phy)) →
      p.2.2 = some (a.gen + (b.gen - a.gen) * (p.2.1 - a.phy) / (b.phy - a.phy))) ∧
  (p.2.2 = none ↔ ∀ r ∈ rows, r.chr ≠ p.1)

theorem specInterp_exact_sound (rows : List (Row ℚ Int)) (qchr : List Int) (qphy : List ℚ)
    (out out2 : List (Option ℚ))
    (h : (specInterp rows qchr qphy out out2 Tol.zero).1 = true) :
    out.length = qchr.length ∧ out = out2 ∧ ∀ p ∈ queries qchr qphy out, QueryLaw rows p := by
  unfold specInterp at h
  simp only at h
  split at h
  · simp at h
  · rename_i hshape
    simp only [Bool.or_eq_true, bne_iff_ne, ne_eq, not_or, Decidable.not_not] at hshape
    obtain ⟨⟨h1, h2⟩, h3⟩ := hshape
    rw [checks_fst] at h
    have hown := h ("own markers return stored positions", (queries qchr qphy out).all (ownOk Tol.zero rows))
      (by simp)
    have hflank := h ("linear between flanking markers", (queries qchr qphy out).all (flankOk Tol.zero rows))
      (by simp)
    have hmiss := h ("absent chromosome <-> missing", (queries qchr qphy out).all (missingOk rows)) (by simp)
    have hord := h ("independent of row order", (out.zip out2).all fun ab => closeP Tol.zero ab.1 ab.2)
      (by simp)
    simp only [List.all_eq_true] at hown hflank hmiss hord
    refine ⟨h2, ?_, ?_⟩
    · apply List.ext_getElem (by rw [h2, h3])
      intro i hi hi'
      have := hord (out[i], out2[i]) (by
        rw [List.mem_iff_getElem]
        exact ⟨i, by simp [hi, hi'], by simp⟩)
      exact (closeP_zero_iff _ _).mp this
    · intro p hp
      refine ⟨?_, ?_, ?_⟩
      · intro r hr hc hx
        have := hown p hp
        simp only [ownOk, List.all_eq_true, Bool.or_eq_true, Bool.not_eq_true', beq_eq_false_iff_ne, ne_eq] at this
        rcases this r (mem_onChr.mpr ⟨hr, hc⟩) with h' | h'
        · exact absurd hx h'
        · exact (closeP_zero_iff _ _).mp h'
      · intro a ha b hb hac hbc h0 h1' hfl
        have := hflank p hp
        simp only [flankOk, List.all_eq_true, Bool.or_eq_true, Bool.not_eq_true'] at this
        rcases this a (mem_onChr.mpr ⟨ha, hac⟩) b (mem_onChr.mpr ⟨hb, hbc⟩) with h' | h'
        · have : flanks rows p.1 a b p.2.1 = true := flanks_iff.mpr ⟨h0, h1', hfl⟩
          rw [this] at h'; cases h'
        · exact (closeP_zero_iff _ _).mp h'
      · have := hmiss p hp
        simp only [missingOk, beq_iff_eq] at this
        constructor
        · intro hn r hr hc
          rw [hn] at this
          have : (onChr rows p.1).isEmpty = true := by simpa using this
          rw [List.isEmpty_iff] at this
          have hm := mem_onChr.mpr ⟨hr, hc⟩
          rw [this] at hm; simp at hm
        · intro hall
          have he : (onChr rows p.1).isEmpty = true := by
            rw [List.isEmpty_iff]
            apply List.filter_eq_nil_iff.mpr
            intro r hr hc
            exact hall r hr (by simpa using hc)
          rw [he] at this
          cases hp2 : p.2.2 with
          | none => rfl
          | some _ => rw [hp2] at this; simp at this

/-- so, on a valid map, an output accepted at zero tolerance coincides with the model wherever the
    property determines it: at own markers, strictly between flanking markers, on absent chromosomes -/
theorem specInterp_exact_agrees_with_model (rows : List (Row ℚ Int)) (hv : ValidMap rows) (p : Query)
    (hlaw : QueryLaw rows p) :
    ((∃ r ∈ rows, r.chr = p.1 ∧ r.phy = p.2.1) → p.2.2 = interpOne rows p.1 p.2.1) ∧
    ((∃ a ∈ rows, ∃ b ∈ rows, a.chr = p.1 ∧ b.chr = p.1 ∧ a.phy < p.2.1 ∧ p.2.1 < b.phy ∧
        ∀ m ∈ rows, m.chr = p.1 → ¬ (a.phy < m.phy ∧ m.phy < b.phy)) → p.2.2 = interpOne rows p.1 p.2.1) ∧
    ((∀ r ∈ rows, r.chr ≠ p.1) → p.2.2 = interpOne rows p.1 p.2.1) := by
  obtain ⟨l1, l2, l3⟩ := hlaw
  refine ⟨?_, ?_, ?_⟩
  · rintro ⟨r, hr, hc, hx⟩
    rw [l1 r hr hc hx, ← hc, ← hx, interpOne_at_marker hv.1 hr (hv.2 r hr)]
  · rintro ⟨a, ha, b, hb, hac, hbc, h0, h1, hfl⟩
    rw [l2 a ha b hb hac hbc h0 h1 hfl, ← hac]
    exact (interpOne_between hv.1 ha hb (hac.trans hbc.symm) h0 h1.le (by rw [hac]; exact hfl)).symm
  · intro hall
    rw [l3.mpr hall, interpOne_absent hall]

end GMap.Spec
