/-
Helper lemmas for C18 (10): the exact number of blocks of the as-is code.
#blocks = number of equal-width bins `[hb[j], hb[j+1])` (last one closed) that hold a marker, summed over
chromosomes; the cells of a fibre of the haplotype matrix: the first #blocks are written, the rest never.
-/
import PybropsModel.Lemmas.HaploPipeline
set_option autoImplicit false
set_option linter.unusedSectionVars false

namespace Haplo

/-- a sorted label list with values in `[k, k+n)` has as many runs as labels of that range that occur -/
theorem nruns_eq_count_used (l : List Nat) (k n : Nat) (hs : l.Pairwise (· ≤ ·))
    (hr : ∀ x ∈ l, k ≤ x ∧ x < k + n) :
    nruns l = (List.range n).countP (fun j => decide (k + j ∈ l)) := by
  rw [nruns_sorted_eq_dedup l hs, List.countP_eq_length_filter]
  have hperm : l.dedup.Perm (((List.range n).filter (fun j => decide (k + j ∈ l))).map (k + ·)) := by
    rw [List.perm_ext_iff_of_nodup (List.nodup_dedup l)]
    · intro x
      simp only [List.mem_dedup, List.mem_map, List.mem_filter, List.mem_range, decide_eq_true_eq]
      constructor
      · intro hx
        have := hr x hx
        exact ⟨x - k, ⟨by omega, by rwa [show k + (x - k) = x by omega]⟩, by omega⟩
      · rintro ⟨j, ⟨_, hj⟩, rfl⟩; exact hj
    · exact (List.nodup_range.filter _).map (fun a b h => by simpa using h)
  simpa using hperm.length_eq

section
variable {α : Type} [LinearOrder α]

/-- bin `j` of a chromosome holds a marker: some `x` with `hb[j] ≤ x` and (`x < hb[j+1]` or `j` is the
    last bin) -/
def binHit (hb pos : List α) (j : Nat) : Bool :=
  match hb[j]?, hb[j + 1]? with
  | some lo, some hi => pos.any (fun x => decide (lo ≤ x) && (decide (x < hi) || decide (j + 2 = hb.length)))
  | _, _ => false

/-- number of non-empty equal-width bins of a chromosome -/
def filledBins (hb pos : List α) : Nat := (List.range (hb.length - 1)).countP (binHit hb pos)

/-- … of the genome -/
def filledAll : List (List α) → List (List α) → Nat
  | hb :: hbs, pos :: cs => filledBins hb pos + filledAll hbs cs
  | _, _ => 0

theorem binHit_iff_label (hb pos : List α) (k : Nat) (hok : BoundsOK hb pos) (j : Nat) (hj : j < hb.length - 1) :
    binHit hb pos j = true ↔ k + j ∈ labelsChrom hb k pos := by
  have h1 : j < hb.length := by omega
  have h2 : j + 1 < hb.length := by omega
  simp only [binHit, List.getElem?_eq_getElem h1, List.getElem?_eq_getElem h2, List.any_eq_true, Bool.and_eq_true,
    Bool.or_eq_true, decide_eq_true_eq, labelsChrom, List.mem_map]
  constructor
  · rintro ⟨x, hx, hlo, hhi⟩
    refine ⟨x, hx, ?_⟩
    rw [(count_eq_iff_in_bin hb pos hok x hx j h2).mpr ⟨hlo, fun h' => by
      rcases hhi with h | h
      · exact h
      · omega⟩]
  · rintro ⟨x, hx, he⟩
    have he' : (interior hb).countP (fun b => decide (b ≤ x)) = j := by omega
    obtain ⟨hlo, hhi⟩ := (count_eq_iff_in_bin hb pos hok x hx j h2).mp he'
    refine ⟨x, hx, hlo, ?_⟩
    by_cases h' : j + 2 < hb.length
    · exact Or.inl (hhi h')
    · exact Or.inr (by omega)

theorem nruns_labelsChrom (hb pos : List α) (k : Nat) (hok : BoundsOK hb pos) (hs : pos.Pairwise (· ≤ ·)) :
    nruns (labelsChrom hb k pos) = filledBins hb pos := by
  rw [nruns_eq_count_used _ k (hb.length - 1) (labelsChrom_sorted hb k pos hs) (labelsChrom_lt hb k pos hok.two)]
  unfold filledBins
  apply List.countP_congr
  intro j hj
  have hj' := List.mem_range.mp hj
  rw [binHit_iff_label hb pos k hok j hj']
  simp

theorem runsPerChrom_sum (hbs chroms : List (List α)) (k : Nat) (h : List.Forall₂ BoundsOK hbs chroms)
    (hs : ∀ c ∈ chroms, c.Pairwise (· ≤ ·)) :
    (runsPerChrom hbs chroms k).sum = filledAll hbs chroms := by
  induction h generalizing k with
  | nil => simp [runsPerChrom, filledAll]
  | @cons hb pos hbs cs hbc _ ih =>
    simp only [runsPerChrom, filledAll, List.sum_cons]
    rw [nruns_labelsChrom hb pos k hbc (hs pos List.mem_cons_self),
      ih _ (fun c hc => hs c (List.mem_cons_of_mem _ hc))]

/-- **exact block count of the as-is code** -/
theorem nruns_eq_filledAll (hbs chroms : List (List α)) (h : List.Forall₂ BoundsOK hbs chroms)
    (hc : ∀ c ∈ chroms, c ≠ [] ∧ c.Pairwise (· ≤ ·)) :
    nruns (labelsAll hbs chroms 0) = filledAll hbs chroms := by
  rw [(nruns_labelsAll hbs chroms 0 h hc).1, runsPerChrom_sum hbs chroms 0 h (fun c hcm => (hc c hcm).2)]

end

section
variable {α : Type} [Field α]

/-- cell `j` of a fibre of the haplotype matrix: written with the value of the `j`-th block for
    `j < #blocks`, uninitialised for `#blocks ≤ j < nhaploblk` -/
theorem hmatFibre_cell (n : Nat) (bnds : List (Nat × Nat)) (g u : List α) (h : bnds.length ≤ n) (j : Nat) :
    (hmatFibre n bnds g u)[j]? =
      if hj : j < bnds.length then some (some (blockVal g u bnds[j]))
      else if j < n then some none else none := by
  unfold hmatFibre
  simp only [List.length_map]
  by_cases hj : j < bnds.length
  · rw [dif_pos hj, List.getElem?_append_left (by simpa using hj)]
    simp [hj]
  · rw [dif_neg hj, List.getElem?_append_right (by simpa using hj)]
    simp only [List.length_map, List.getElem?_replicate]
    by_cases hn : j < n
    · rw [if_pos hn, if_pos (by omega)]
    · rw [if_neg hn, if_neg (by omega)]

theorem hmatFibre_length (n : Nat) (bnds : List (Nat × Nat)) (g u : List α) (h : bnds.length ≤ n) :
    (hmatFibre n bnds g u).length = n := by
  simp [hmatFibre]; omega

end

end Haplo
