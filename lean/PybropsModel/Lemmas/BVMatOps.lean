/-
Helper lemmas for C15 at the matrix level: the round trip on a column, the numpy primitives against
`List.map`, one taxa operation against the same edit on raw data, and `DenseScaledMatrix.rescale`
as `from_numpy ∘ unscale`.
-/
import PybropsModel.Lemmas.BVMatCol
set_option autoImplicit false
set_option linter.unusedSectionVars false
set_option linter.unusedVariables false

namespace BVMat

/-! ### numpy primitives commute with an entrywise map -/
section np
variable {β γ : Type}

theorem take_map (f : β → γ) (idx : List Nat) (l : List β) :
    Np.take idx (l.map f) = (Np.take idx l).map f := by
  unfold Np.take
  induction idx with
  | nil => rfl
  | cons i idx ih =>
    simp only [List.filterMap_cons, List.getElem?_map]
    cases l[i]? with
    | none => simpa using ih
    | some b => simpa using ih

theorem delete_map (f : β → γ) (idx : List Nat) (l : List β) :
    Np.delete idx (l.map f) = (Np.delete idx l).map f := by
  unfold Np.delete
  rw [List.zipIdx_map, List.filter_map, List.map_map, List.map_map]
  congr 1

theorem insert_map (f : β → γ) (k : Nat) (v l : List β) :
    Np.insert k (v.map f) (l.map f) = (Np.insert k v l).map f := by
  unfold Np.insert
  simp [List.map_take, List.map_drop]

/-- `numpy.take` with in-range indices: position `k` of the result is position `idx[k]` of the source -/
theorem take_getElem? (idx : List Nat) (l : List β) (h : ∀ i ∈ idx, i < l.length) (k : Nat)
    (hk : k < idx.length) : (Np.take idx l)[k]? = l[idx[k]]? := by
  unfold Np.take
  induction idx generalizing k with
  | nil => cases hk
  | cons i idx ih =>
    have hi : i < l.length := h i List.mem_cons_self
    simp only [List.filterMap_cons, List.getElem?_eq_getElem hi]
    cases k with
    | zero => simp [List.getElem?_eq_getElem hi]
    | succ k =>
      simp only [List.getElem?_cons_succ, List.getElem_cons_succ]
      exact ih (fun j hj => h j (List.mem_cons_of_mem _ hj)) k (by simpa using hk)

end np

section field
variable {α : Type} [Field α] [LinearOrder α] [IsStrictOrderedRing α]

/-! ### the round trip on one column -/

/-- `unscale(from_numpy(raw)) = raw`, entry by entry, NaN included — for every `sq` -/
theorem unscaleCol_fromNumpyCol (sq : α → α) (c : Col α) : unscaleCol (fromNumpyCol sq c) = c := by
  by_cases h : present c = []
  · rw [fromNumpyCol_of_nil sq h]
    unfold unscaleCol
    exact map_none_of_present_nil h _ (unscaleEntry_none _ _)
  · rw [fromNumpyCol_of_ne sq h]
    unfold unscaleCol
    simp only [List.map_map]
    have hs := scaleOf_ne_zero sq (present c)
    conv_rhs => rw [← List.map_id c]
    apply List.map_congr_left
    intro x _
    cases x with
    | none => simp [Function.comp, standardise_none, unscaleEntry_none]
    | some x =>
      simp only [Function.comp, standardise_some, unscaleEntry_some, id]
      rw [unscale_stdFn hs]

theorem unscale_fromNumpy (sq : α → α) (cols : List (Col α)) (taxa : List Nat) :
    unscale (fromNumpy sq cols taxa) = cols := by
  unfold unscale fromNumpy
  simp only [List.map_map]
  conv_rhs => rw [← List.map_id cols]
  apply List.map_congr_left
  intro c _
  exact unscaleCol_fromNumpyCol sq c

theorem fromNumpy_taxa (sq : α → α) (cols : List (Col α)) (taxa : List Nat) :
    (fromNumpy sq cols taxa).taxa = taxa := rfl

theorem fromNumpy_traits_length (sq : α → α) (cols : List (Col α)) (taxa : List Nat) :
    (fromNumpy sq cols taxa).traits.length = cols.length := by
  simp [fromNumpy]

theorem unscale_length (b : BV α) : (unscale b).length = b.traits.length := by
  simp [unscale]

/-- raw content of a matrix: what `unscale()` returns, with the taxon identities -/
abbrev rawOf (b : BV α) : Raw α := (unscale b, b.taxa)

/-! ### one operation against the same edit on the raw data -/

/-- the copy-on-manipulation methods: the result is `from_numpy` of the edited raw data -/
theorem applyOp_restandardises (sq : α → α) (needs : Bool) (op : Op α) (h : op.restandardises = true)
    (b : BV α) :
    applyOp sq needs op b = (applyRaw op (rawOf b)).map (fun r => fromNumpy sq r.1 r.2) := by
  cases op with
  | select idx =>
    dsimp only [applyOp, applyRaw, rawOf]
    by_cases hc : (idx.all fun x => decide (x < b.taxa.length)) = true
    · rw [if_pos hc, if_pos hc]; rfl
    · rw [if_neg hc, if_neg hc]; rfl
  | delete idx =>
    dsimp only [applyOp, applyRaw, rawOf]
    by_cases hc : (idx.all fun x => decide (x < b.taxa.length)) = true
    · rw [if_pos hc, if_pos hc]; rfl
    · rw [if_neg hc, if_neg hc]; rfl
  | insert k v =>
    dsimp only [applyOp, applyRaw, rawOf]
    rw [unscale_length]
    by_cases h1 : v.values.length ≠ b.traits.length
    · rw [if_pos h1, if_pos h1]; rfl
    · rw [if_neg h1, if_neg h1]
      by_cases h2 : b.taxa.length < k
      · rw [if_pos h2, if_pos h2]; rfl
      · rw [if_neg h2, if_neg h2]; rfl
  | insertMany ks v =>
    dsimp only [applyOp, applyRaw, rawOf]
    rw [unscale_length]
    by_cases h1 : v.values.length ≠ b.traits.length
    · rw [if_pos h1, if_pos h1]; rfl
    · rw [if_neg h1, if_neg h1]
      by_cases h2 : (!ks.all fun x => decide (x ≤ b.taxa.length)) = true
      · rw [if_pos h2, if_pos h2]; rfl
      · rw [if_neg h2, if_neg h2]
        by_cases h3 : ks.length ≠ v.taxa.length
        · rw [if_pos h3, if_pos h3]; rfl
        · rw [if_neg h3, if_neg h3]
          by_cases h4 : (!LabelMat.isSorted ks) = true
          · rw [if_pos h4, if_pos h4]; rfl
          · rw [if_neg h4, if_neg h4]; rfl
  | adjoin v =>
    dsimp only [applyOp, applyRaw, rawOf]
    rw [unscale_length]
    by_cases h1 : v.values.length ≠ b.traits.length
    · rw [if_pos h1, if_pos h1]; rfl
    · rw [if_neg h1, if_neg h1]; rfl
  | reorder idx => cases h
  | remove idx => cases h
  | append v => cases h
  | incorp k v => cases h
  | concat vs => cases h

theorem unscaleCol_with_mat (tr : Trait α) (m : Col α) :
    unscaleCol { tr with mat := m } = m.map (unscaleEntry tr.loc tr.scale) := rfl

/-- operations that keep every retained taxon's raw values (the four above, in-place reorder and
    in-place remove) -/
theorem applyOp_keepsRaw (sq : α → α) (needs : Bool) (op : Op α) (h : op.keepsRaw = true) (b : BV α) :
    (applyOp sq needs op b).map rawOf = applyRaw op (rawOf b) := by
  cases op with
  | select idx =>
    rw [applyOp_restandardises sq needs _ rfl]
    cases hr : applyRaw (Op.select idx) (rawOf b) with
    | error e => rfl
    | ok r => simp [Except.map, rawOf, unscale_fromNumpy, fromNumpy_taxa]
  | delete idx =>
    rw [applyOp_restandardises sq needs _ rfl]
    cases hr : applyRaw (Op.delete idx) (rawOf b) with
    | error e => rfl
    | ok r => simp [Except.map, rawOf, unscale_fromNumpy, fromNumpy_taxa]
  | insert k v =>
    rw [applyOp_restandardises sq needs _ rfl]
    cases hr : applyRaw (Op.insert k v) (rawOf b) with
    | error e => rfl
    | ok r => simp [Except.map, rawOf, unscale_fromNumpy, fromNumpy_taxa]
  | insertMany ks v =>
    rw [applyOp_restandardises sq needs _ rfl]
    cases hr : applyRaw (Op.insertMany ks v) (rawOf b) with
    | error e => rfl
    | ok r => simp [Except.map, rawOf, unscale_fromNumpy, fromNumpy_taxa]
  | adjoin v =>
    rw [applyOp_restandardises sq needs _ rfl]
    cases hr : applyRaw (Op.adjoin v) (rawOf b) with
    | error e => rfl
    | ok r => simp [Except.map, rawOf, unscale_fromNumpy, fromNumpy_taxa]
  | reorder idx =>
    dsimp only [applyOp, applyRaw, rawOf]
    by_cases hc : (idx.all fun x => decide (x < b.taxa.length)) = true
    · rw [if_pos hc, if_pos hc]
      simp only [Except.map, rawOf, unscale, List.map_map]
      congr 2
      apply List.map_congr_left
      intro tr _
      simp only [Function.comp, unscaleCol_with_mat]
      exact (take_map _ _ _).symm
    · rw [if_neg hc, if_neg hc]; rfl
  | remove idx =>
    dsimp only [applyOp, applyRaw, rawOf]
    by_cases hc : (idx.all fun x => decide (x < b.taxa.length)) = true
    · rw [if_pos hc, if_pos hc]
      simp only [Except.map, rawOf, unscale, List.map_map]
      congr 2
      apply List.map_congr_left
      intro tr _
      simp only [Function.comp, unscaleCol_with_mat]
      exact (delete_map _ _ _).symm
    · rw [if_neg hc, if_neg hc]; rfl
  | append v => cases h
  | incorp k v => cases h
  | concat vs => cases h

/-! ### DenseScaledMatrix -/

theorem transformEntry_eq_standardise (loc scale x : Option α) :
    transformEntry loc scale x = standardise loc scale x := by
  cases loc <;> cases scale <;> cases x <;> simp [transformEntry, standardise, omul, osub, orecip, lift2, mul_comm]

theorem untransformEntry_eq_unscaleEntry (loc scale x : Option α) :
    untransformEntry loc scale x = unscaleEntry loc scale x := by
  cases loc <;> cases scale <;> cases x <;> simp [untransformEntry, unscaleEntry, omul, oadd, lift2, mul_comm]

theorem scaledUnscaleCol_eq (t : Trait α) : scaledUnscaleCol t = unscaleCol t := by
  unfold scaledUnscaleCol untransformCol unscaleCol
  apply List.map_congr_left
  intro x _
  exact untransformEntry_eq_unscaleEntry _ _ _

/-- `rescale` is `from_numpy` applied to the unscaled values -/
theorem rescaleCol_eq (sq : α → α) (t : Trait α) : rescaleCol sq t = fromNumpyCol sq (unscaleCol t) := by
  unfold rescaleCol fromNumpyCol
  rw [scaledUnscaleCol_eq]
  dsimp only
  congr 1
  apply List.map_congr_left
  intro x _
  exact transformEntry_eq_standardise _ _ _

end field
end BVMat
