/-
C01, finding D70: `nmating * nprogeny` in a narrow count dtype.  When no per-cross product reaches the
dtype's limit the wrapped product is the exact one (so every theorem of Props/C01 section 2, which the model
states over ℕ, speaks about the real code); otherwise it is not.
-/
import Mathlib.Tactic
import PybropsModel.Model.Mating
set_option autoImplicit false

namespace Mating

theorem wrapMul_exact (bits : Nat) (signed : Bool) (a b : Nat)
    (h : a * b < 2 ^ (bits - (if signed then 1 else 0))) : wrapMul bits signed a b = ((a * b : Nat) : Int) := by
  unfold wrapMul
  have hle : 2 ^ (bits - (if signed then 1 else 0)) ≤ 2 ^ bits := Nat.pow_le_pow_right (by norm_num) (Nat.sub_le _ _)
  have hm : a * b % 2 ^ bits = a * b := Nat.mod_eq_of_lt (lt_of_lt_of_le h hle)
  simp only [hm]
  cases signed with
  | false => simp
  | true =>
    simp only [if_true] at h
    have : ¬ (2 ^ (bits - 1) ≤ a * b) := by omega
    simp [this]

theorem countProductAsIs_exact (bits : Nat) (signed : Bool) : ∀ (nm np : List Nat),
    (∀ p ∈ List.zip nm np, p.1 * p.2 < 2 ^ (bits - (if signed then 1 else 0))) →
    countProductAsIs bits signed nm np = (List.zipWith (fun (x y : Nat) => x * y) nm np).map (fun (n : Nat) => (n : Int))
  | [], _, _ => by simp [countProductAsIs]
  | _ :: _, [], _ => by simp [countProductAsIs]
  | a :: nm, b :: np, h => by
    have h0 := h (a, b) (by simp)
    have ih := countProductAsIs_exact bits signed nm np (fun p hp => h p (by simp [hp]))
    simp only [countProductAsIs, List.zipWith_cons_cons, List.map_cons] at ih ⊢
    rw [wrapMul_exact bits signed a b h0, ih]

end Mating
