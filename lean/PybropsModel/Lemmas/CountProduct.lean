/-
C01, defect D70 (repaired): `nmating * nprogeny`.  Before the repair the three protocols that form the per-cross
product formed it in the dtype of the count arrays (`countProductPrerepair`); the repaired code forms it in int64
(`countProduct`).  The int64 product is the exact one for counts of every narrower dtype, so every theorem of
Props/C01 section 2 (the model states them over ℕ) speaks about the real code.
-/
import Mathlib.Tactic
import PybropsModel.Model.Mating
set_option autoImplicit false

namespace Mating

theorem wrapMul_exact (bits : Nat) (signed : Bool) (a b : Nat)
    (h : a * b < 2 ^ (bits - (if signed then 1 else 0))) : wrapMul bits signed a b = ((a * b : Nat) : Int) := by
  unfold wrapMul
  have hle : 2 ^ (bits - (if signed then 1 else 0)) ≤ 2 ^ bits := Nat.pow_le_pow_right (by norm_num) (Nat.sub_le _ _)
  have hm : a * b % 2 ^ bits = a * b := Nat.mod_eq_of_lt (lt_of_lt_of_le h hle)
  simp only [hm]
  cases signed with
  | false => simp
  | true =>
    simp only [if_true] at h
    have : ¬ (2 ^ (bits - 1) ≤ a * b) := by omega
    simp [this]

theorem countProductPrerepair_exact (bits : Nat) (signed : Bool) : ∀ (nm np : List Nat),
    (∀ p ∈ List.zip nm np, p.1 * p.2 < 2 ^ (bits - (if signed then 1 else 0))) →
    countProductPrerepair bits signed nm np
      = (List.zipWith (fun (x y : Nat) => x * y) nm np).map (fun (n : Nat) => (n : Int))
  | [], _, _ => by simp [countProductPrerepair]
  | _ :: _, [], _ => by simp [countProductPrerepair]
  | a :: nm, b :: np, h => by
    have h0 := h (a, b) (by simp)
    have ih := countProductPrerepair_exact bits signed nm np (fun p hp => h p (by simp [hp]))
    simp only [countProductPrerepair, List.zipWith_cons_cons, List.map_cons] at ih ⊢
    rw [wrapMul_exact bits signed a b h0, ih]

theorem countProduct_eq_prerepair64 (nm np : List Nat) : countProduct nm np = countProductPrerepair 64 true nm np := rfl

/-- the int64 product is exact while every per-cross product is below `2^63` -/
theorem countProduct_exact_of_lt (nm np : List Nat) (h : ∀ p ∈ List.zip nm np, p.1 * p.2 < 2 ^ 63) :
    countProduct nm np = (List.zipWith (fun (x y : Nat) => x * y) nm np).map (fun (n : Nat) => (n : Int)) := by
  rw [countProduct_eq_prerepair64]
  exact countProductPrerepair_exact 64 true nm np (by simpa using h)

theorem zip_bounds {nm np : List Nat} {A B : Nat} (hnm : ∀ a ∈ nm, a < A) (hnp : ∀ b ∈ np, b < B) :
    ∀ p ∈ List.zip nm np, p.1 * p.2 < A * B := by
  intro p hp
  obtain ⟨a, b⟩ := p
  have ha := hnm a (List.of_mem_zip hp).1
  have hb := hnp b (List.of_mem_zip hp).2
  exact Nat.mul_lt_mul'' ha hb

/-- … in particular for counts of every integer dtype of at most 32 bits (`int8 … int32`, `uint8`, `uint16`: every
    count `< 2^31`; one of the two arrays may even be `uint32`) -/
theorem countProduct_exact_narrow (nm np : List Nat) (hnm : ∀ a ∈ nm, a < 2 ^ 31) (hnp : ∀ b ∈ np, b < 2 ^ 32) :
    countProduct nm np = (List.zipWith (fun (x y : Nat) => x * y) nm np).map (fun (n : Nat) => (n : Int)) := by
  apply countProduct_exact_of_lt
  intro p hp
  have := zip_bounds hnm hnp p hp
  calc p.1 * p.2 < 2 ^ 31 * 2 ^ 32 := this
    _ = 2 ^ 63 := by norm_num

/-- the repair changes nothing where the old code was right: whenever no product reached the limit of the count
    dtype (any dtype up to int64 / uint32… : `bits - sign bit ≤ 63`), the old product and the int64 product coincide -/
theorem countProduct_agrees_prerepair (bits : Nat) (signed : Bool) (hb : bits - (if signed then 1 else 0) ≤ 63)
    (nm np : List Nat) (h : ∀ p ∈ List.zip nm np, p.1 * p.2 < 2 ^ (bits - (if signed then 1 else 0))) :
    countProductPrerepair bits signed nm np = countProduct nm np := by
  rw [countProductPrerepair_exact bits signed nm np h, countProduct_exact_of_lt]
  intro p hp
  exact lt_of_lt_of_le (h p hp) (Nat.pow_le_pow_right (by norm_num) hb)

end Mating
