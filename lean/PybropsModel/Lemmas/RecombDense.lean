/-
Helper lemmas for C02 (round 3): the second copy of the meiosis code (pybrops/core/util/mate.py:
dense_meiosis / dense_dh / dense_cross) is the same function as the first (breed/prot/mate/util.py), and the
doubled haploids that DenseExpectedMaximumBreedingValueMatrix.from_gmod generates are single meioses of the
taxon in turn, each on its own draw matrix.
-/
import PybropsModel.Lemmas.RecombLoop
set_option autoImplicit false
set_option linter.unusedSectionVars false

namespace Recomb

section twin
variable {α : Type} {β : Type} [LT β] [DecidableLT β]

/-- the integer `phase` variable of the Python loop (`phase = 0`, `phase = 1 - phase`) is the Boolean of
    `segLoop` -/
theorem denseSegLoop_eq_segLoop (h0 h1 : List α) : ∀ (xs : List Nat) (stix : Nat) (ph : Bool),
    denseSegLoop h0 h1 stix (if ph then 1 else 0) xs = segLoop h0 h1 stix ph xs
  | [], stix, ph => by cases ph <;> simp [denseSegLoop, segLoop]
  | sp :: rest, stix, ph => by
    have ih := denseSegLoop_eq_segLoop h0 h1 rest sp (!ph)
    cases ph
    · simp only [denseSegLoop, segLoop, Bool.false_eq_true, if_false, Bool.not_false, if_true] at ih ⊢
      rw [show (1 - 0 : Nat) = 1 from rfl, ih]
      simp
    · simp only [denseSegLoop, segLoop, if_true, Bool.not_true, Bool.false_eq_true, if_false] at ih ⊢
      rw [show (1 - 1 : Nat) = 0 from rfl, ih]

theorem denseRow_eq_meiosisRow (h0 h1 : List α) (r xo : List β) :
    denseRow h0 h1 r xo = meiosisRow h0 h1 r xo :=
  denseSegLoop_eq_segLoop h0 h1 _ 0 false

theorem denseMeiosis_eq_matMeiosis (geno : List (List (List α))) (sel : List Nat) (xo : List β)
    (rnd : List (List β)) : denseMeiosis geno sel xo rnd = matMeiosis geno sel xo rnd := by
  unfold denseMeiosis matMeiosis
  simp only [denseRow_eq_meiosisRow]

theorem denseDH_eq_matDH (geno : List (List (List α))) (sel : List Nat) (xo : List β)
    (rnd : List (List β)) : denseDH geno sel xo rnd = matDH geno sel xo rnd := by
  unfold denseDH matDH
  rw [denseMeiosis_eq_matMeiosis]

theorem denseCross_eq_matMate (fgeno mgeno : List (List (List α))) (fsel msel : List Nat) (xo : List β)
    (rf rm : List (List β)) : denseCross fgeno mgeno fsel msel xo rf rm = matMate fgeno mgeno fsel msel xo rf rm := by
  unfold denseCross matMate
  rw [denseMeiosis_eq_matMeiosis, denseMeiosis_eq_matMeiosis]

end twin

section embv
variable {α : Type} {β : Type} [LT β] [DecidableLT β]

/-- the `sel` arguments of the successive `dense_dh` calls of `from_gmod`, in call order:
    `numpy.repeat(i, nprogeny[i])`, `nrep[i]` times, for i = start, start + 1, … -/
def embvSels : Nat → List Nat → List Nat → List (List Nat)
  | i, p :: ps, r :: rs => List.replicate r (List.replicate p i) ++ embvSels (i + 1) ps rs
  | _, _, _ => []

/-- "matrix `m` is the doubled haploid family of the meiosis of `sel` on draw matrix `d`" -/
def IsDH (geno : List (List (List α))) (xo : List β) (sd : List Nat × List (List β))
    (m : List (List (List α))) : Prop :=
  ∃ g, matMeiosis geno sd.1 xo sd.2 = .ok g ∧ m = [g, g]

theorem embvTaxon_spec (geno : List (List (List α))) (xo : List β) (i np : Nat) :
    ∀ (k : Nat) (d : List (List (List β))) (ms : List (List (List (List α)))) (d' : List (List (List β))),
    embvTaxon geno xo i np k d = .ok (ms, d') →
    k ≤ d.length ∧ d' = d.drop k ∧
    List.Forall₂ (IsDH geno xo) (List.zip (List.replicate k (List.replicate np i)) (d.take k)) ms
  | 0, d, ms, d', h => by
    simp only [embvTaxon, Except.ok.injEq, Prod.mk.injEq] at h
    obtain ⟨rfl, rfl⟩ := h
    simp
  | k + 1, [], ms, d', h => by simp [embvTaxon] at h
  | k + 1, r :: d, ms, d', h => by
    simp only [embvTaxon, bind, Except.bind] at h
    cases hm : denseDH geno (List.replicate np i) xo r with
    | error e => simp [hm] at h
    | ok m =>
      simp only [hm] at h
      cases ht : embvTaxon geno xo i np k d with
      | error e => simp [ht] at h
      | ok res =>
        obtain ⟨ms1, d1⟩ := res
        simp only [ht, pure, Except.pure, Except.ok.injEq, Prod.mk.injEq] at h
        obtain ⟨rfl, rfl⟩ := h
        obtain ⟨i1, i2, i3⟩ := embvTaxon_spec geno xo i np k d ms1 d1 ht
        refine ⟨by simp only [List.length_cons]; omega, by simpa using i2, ?_⟩
        simp only [List.replicate_succ, List.take_succ_cons, List.zip_cons_cons]
        refine List.Forall₂.cons ?_ i3
        rw [denseDH_eq_matDH] at hm
        unfold matDH at hm
        cases hg : matMeiosis geno (List.replicate np i) xo r with
        | error e => simp [hg, bind, Except.bind] at hm
        | ok g =>
          simp only [hg, bind, Except.bind, pure, Except.pure, Except.ok.injEq] at hm
          exact ⟨g, hg, hm.symm⟩

theorem embvSels_length : ∀ (i : Nat) (nps nrs : List Nat), nps.length = nrs.length →
    (embvSels i nps nrs).length = (embvCalls nps nrs).length
  | _, [], [], _ => rfl
  | _, [], _ :: _, h => by simp at h
  | _, _ :: _, [], h => by simp at h
  | i, p :: ps, r :: rs, h => by
    simp only [embvSels, embvCalls, List.length_append, List.length_replicate]
    rw [embvSels_length (i + 1) ps rs (by simpa using h)]

theorem embvFrom_spec (geno : List (List (List α))) (xo : List β) :
    ∀ (nps nrs : List Nat) (i : Nat) (d : List (List (List β))) (ms : List (List (List (List α))))
      (d' : List (List (List β))),
    embvFrom geno xo i nps nrs d = .ok (ms, d') →
    nps.length = nrs.length ∧ (embvSels i nps nrs).length ≤ d.length ∧
    d' = d.drop (embvSels i nps nrs).length ∧
    List.Forall₂ (IsDH geno xo) (List.zip (embvSels i nps nrs) d) ms
  | [], [], i, d, ms, d', h => by
    simp only [embvFrom, Except.ok.injEq, Prod.mk.injEq] at h
    obtain ⟨rfl, rfl⟩ := h
    simp [embvSels]
  | [], _ :: _, i, d, ms, d', h => by simp [embvFrom] at h
  | _ :: _, [], i, d, ms, d', h => by simp [embvFrom] at h
  | p :: ps, r :: rs, i, d, ms, d', h => by
    simp only [embvFrom, bind, Except.bind] at h
    cases ht : embvTaxon geno xo i p r d with
    | error e => simp [ht] at h
    | ok res =>
      obtain ⟨ms1, d1⟩ := res
      simp only [ht] at h
      cases hf : embvFrom geno xo (i + 1) ps rs d1 with
      | error e => simp [hf] at h
      | ok res2 =>
        obtain ⟨ms2, d2⟩ := res2
        simp only [hf, pure, Except.pure, Except.ok.injEq, Prod.mk.injEq] at h
        obtain ⟨rfl, rfl⟩ := h
        obtain ⟨t1, t2, t3⟩ := embvTaxon_spec geno xo i p r d ms1 d1 ht
        obtain ⟨f1, f2, f3, f4⟩ := embvFrom_spec geno xo ps rs (i + 1) d1 ms2 d2 hf
        subst t2
        have hlen : (embvSels i (p :: ps) (r :: rs)).length = r + (embvSels (i + 1) ps rs).length := by
          simp [embvSels]
        rw [List.length_drop] at f2
        refine ⟨by simp [f1], by rw [hlen]; omega, ?_, ?_⟩
        · rw [f3, hlen, List.drop_drop]
        · simp only [embvSels]
          have hz : List.zip (List.replicate r (List.replicate p i) ++ embvSels (i + 1) ps rs) d =
              List.zip (List.replicate r (List.replicate p i)) (d.take r) ++
              List.zip (embvSels (i + 1) ps rs) (d.drop r) := by
            conv_lhs => rw [← List.take_append_drop r d]
            rw [List.zip_append (by simp [List.length_take]; omega)]
          rw [hz]
          exact List.rel_append t3 f4

end embv

end Recomb
