/-
Helper lemmas for C13: per-axis summaries (`axis = 0 / 1`): `mapM` over `Option`, rows and columns of
a rectangular nested list.
-/
import PybropsModel.Lemmas.CoancestryGJ
import PybropsModel.Lemmas.CoancestryEst
set_option autoImplicit false
set_option linter.unusedSectionVars false

namespace Coancestry
open Finset

theorem mapM_option_some {β γ : Type} (f : β → Option γ) (l : List β) (l' : List γ)
    (h : l.mapM f = some l') :
    l'.length = l.length ∧ ∀ i (hi : i < l.length) (hi' : i < l'.length), f l[i] = some l'[i] := by
  induction l generalizing l' with
  | nil =>
    simp at h
    subst h
    exact ⟨rfl, fun i hi => absurd hi (Nat.not_lt_zero i)⟩
  | cons a as ih =>
    rw [List.mapM_cons] at h
    cases hfa : f a with
    | none => rw [hfa] at h; simp at h
    | some b =>
      rw [hfa] at h
      cases hrest : as.mapM f with
      | none => rw [hrest] at h; simp at h
      | some bs =>
        rw [hrest] at h
        simp at h
        subst h
        obtain ⟨hl, hi⟩ := ih bs hrest
        refine ⟨by simp [hl], ?_⟩
        intro i h1 h2
        cases i with
        | zero => simpa using hfa
        | succ i => simpa using hi i (by simpa using h1) (by simpa using h2)

section rows
variable {α : Type} [Zero α]

theorem mem_row_iff (G : List (List α)) (n m i : Nat) (hG : Rect n m G) (hi : i < n) (x : α) :
    x ∈ G.getD i [] ↔ ∃ j < m, entry G i j = x := by
  have hlen := hG.row hi
  constructor
  · intro hx
    obtain ⟨j, hj, rfl⟩ := List.mem_iff_getElem.mp hx
    refine ⟨j, hlen ▸ hj, ?_⟩
    unfold entry
    exact getD_eq_getElem' _ j hj 0
  · rintro ⟨j, hj, rfl⟩
    have hj' : j < (G.getD i []).length := hlen ▸ hj
    have : entry G i j = (G.getD i [])[j] := by
      unfold entry
      exact getD_eq_getElem' _ j hj' 0
    rw [this]
    exact List.getElem_mem hj'

/-- column `k` of a matrix as a list -/
theorem mem_col_iff (G : List (List α)) (n m k : Nat) (hG : Rect n m G) (x : α) :
    x ∈ G.map (fun r => r.getD k 0) ↔ ∃ i < n, entry G i k = x := by
  rw [List.mem_map]
  constructor
  · rintro ⟨r, hr, rfl⟩
    obtain ⟨i, hi, rfl⟩ := List.mem_iff_getElem.mp hr
    refine ⟨i, hG.1 ▸ hi, ?_⟩
    unfold entry
    rw [getD_eq_getElem' G i hi []]
  · rintro ⟨i, hi, rfl⟩
    have hi' : i < G.length := hG.1 ▸ hi
    refine ⟨G[i], List.getElem_mem hi', ?_⟩
    unfold entry
    rw [getD_eq_getElem' G i hi' []]

end rows

end Coancestry

namespace Coancestry

theorem mapM_map_option {β γ : Type} (f : β → Option γ) (g : β → β) (h : γ → γ)
    (hfg : ∀ a, f (g a) = (f a).map h) (l : List β) :
    (l.map g).mapM f = (l.mapM f).map (List.map h) := by
  induction l with
  | nil => simp
  | cons a as ih =>
    rw [List.map_cons, List.mapM_cons, List.mapM_cons, hfg, ih]
    cases f a <;> cases as.mapM f <;> simp

section kinshipAxis
variable {α : Type} [Field α] [LinearOrder α] [IsStrictOrderedRing α]

theorem cols_mapMat_half (G : List (List α)) :
    cols (mapMat (fun x => half * x) G) = (cols G).map (fun c => c.map (fun x => half * x)) := by
  unfold cols mapMat
  simp only [List.length_map, List.map_map]
  apply List.map_congr_left
  intro k _
  simp only [Function.comp]
  rw [List.map_map]
  apply List.map_congr_left
  intro r _
  simp only [Function.comp]
  by_cases hk : k < r.length
  · rw [getD_map' _ r k 0 0 hk]
  · simp [List.getD_eq_getElem?_getD, List.getElem?_eq_none (Nat.le_of_not_lt hk)]

theorem npsum_map_half (r : List α) : Np.sum (r.map (fun x => half * x)) = half * Np.sum r := by
  rw [npsum_eq_sum, npsum_eq_sum, List.sum_map_mul_left]
  simp

end kinshipAxis

end Coancestry
