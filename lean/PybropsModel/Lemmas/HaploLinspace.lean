/-
Helper lemmas for C18 (5): exact `linspace` over an ordered field is a legal boundary vector for a
sorted non-empty chromosome (`BoundsOK`), so everything proved for arbitrary boundaries applies to
`haplobinPrerepair` as the code computes it (in exact arithmetic).
-/
import PybropsModel.Lemmas.HaploBin
set_option autoImplicit false
set_option linter.unusedSectionVars false

namespace Haplo

section
variable {α : Type} [Field α] [LinearOrder α] [IsStrictOrderedRing α]

theorem linspace_boundsOK (a b : α) (n : Nat) (hn : 1 ≤ n) (hab : a ≤ b) (pos : List α)
    (h : ∀ x ∈ pos, a ≤ x ∧ x ≤ b) : BoundsOK (linspace a b n) pos := by
  have hn0 : n ≠ 0 := by omega
  have hnpos : (0 : α) < (n : α) := by exact_mod_cast Nat.pos_of_ne_zero hn0
  have hs : (0 : α) ≤ (b - a) / (n : α) := div_nonneg (sub_nonneg.mpr hab) hnpos.le
  have hfull : (n : α) * ((b - a) / (n : α)) = b - a := mul_div_cancel₀ _ (ne_of_gt hnpos)
  unfold linspace
  rw [if_neg hn0]
  refine ⟨by simp; omega, ?_, ?_, ?_⟩
  · rw [List.pairwise_append]
    refine ⟨?_, List.pairwise_singleton _ _, ?_⟩
    · rw [List.pairwise_map]
      refine List.pairwise_lt_range.imp ?_
      intro i j hij
      have : (i : α) ≤ (j : α) := by exact_mod_cast hij.le
      have := mul_le_mul_of_nonneg_right this hs
      linarith
    · intro x hx y hy
      simp only [List.mem_map, List.mem_range] at hx
      obtain ⟨i, hi, rfl⟩ := hx
      simp only [List.mem_singleton] at hy
      subst hy
      have h1 : (i : α) ≤ (n : α) := by exact_mod_cast hi.le
      have h2 := mul_le_mul_of_nonneg_right h1 hs
      rw [hfull] at h2
      linarith
  · intro a' ha' x hx
    obtain ⟨m, rfl⟩ : ∃ m, n = m + 1 := ⟨n - 1, by omega⟩
    rw [List.range_succ_eq_map] at ha'
    simp only [List.map_cons, List.cons_append, List.head?_cons, Option.mem_def, Option.some.injEq] at ha'
    subst ha'
    simpa using (h x hx).1
  · intro b' hb' x hx
    simp only [List.getLast?_append, List.getLast?_singleton, Option.mem_def] at hb'
    simp only [Option.some_or, Option.some.injEq] at hb'
    subst hb'
    exact (h x hx).2

theorem linspace_length (a b : α) (n : Nat) (hn : 1 ≤ n) : (linspace a b n).length = n + 1 := by
  unfold linspace
  rw [if_neg (by omega)]
  simp

end

section
variable {α : Type} [LinearOrder α]

theorem sorted_le_getLastD (a : α) (t : List α) (d : α) (hs : (a :: t).Pairwise (· ≤ ·)) :
    ∀ x ∈ a :: t, x ≤ (a :: t).getLastD d := by
  induction t generalizing a d with
  | nil => intro x hx; simp at hx; subst hx; simp
  | cons b t ih =>
    intro x hx
    have hs' := (List.pairwise_cons.mp hs).2
    have hab : a ≤ b := (List.pairwise_cons.mp hs).1 b List.mem_cons_self
    have hlast : (a :: b :: t).getLastD d = (b :: t).getLastD a := rfl
    rw [hlast]
    rcases List.mem_cons.mp hx with rfl | hx
    · exact le_trans hab (ih b x hs' b List.mem_cons_self)
    · exact ih b a hs' x hx

/-- marker layouts the property quantifies over: at least one chromosome, every chromosome has a
    marker and its positions are sorted -/
def ValidChroms (chroms : List (List α)) : Prop :=
  chroms ≠ [] ∧ ∀ c ∈ chroms, c ≠ [] ∧ c.Pairwise (· ≤ ·)

end

section
variable {α : Type} [Field α] [LinearOrder α] [IsStrictOrderedRing α]

theorem chrom_linspace_ok (c : List α) (n : Nat) (hn : 1 ≤ n) (hne : c ≠ []) (hs : c.Pairwise (· ≤ ·)) :
    BoundsOK (linspace (c.headD 0) (c.getLastD 0) n) c := by
  cases c with
  | nil => exact absurd rfl hne
  | cons a t =>
    have hlast := sorted_le_getLastD a t 0 hs
    have hhead : ∀ x ∈ a :: t, a ≤ x := by
      intro x hx
      rcases List.mem_cons.mp hx with rfl | hx
      · exact le_refl _
      · exact (List.pairwise_cons.mp hs).1 x hx
    apply linspace_boundsOK _ _ n hn
    · simpa using hlast a List.mem_cons_self
    · intro x hx
      exact ⟨by simpa using hhead x hx, hlast x hx⟩

theorem hbounds_ok (nblk : List Nat) (chroms : List (List α)) (hlen : nblk.length = chroms.length)
    (hpos : ∀ n ∈ nblk, 1 ≤ n) (hv : ∀ c ∈ chroms, c ≠ [] ∧ c.Pairwise (· ≤ ·)) :
    List.Forall₂ BoundsOK (hbounds nblk chroms) chroms ∧ nbins (hbounds nblk chroms) = nblk.sum := by
  induction chroms generalizing nblk with
  | nil =>
    cases nblk with
    | nil => simp [hbounds, nbins]
    | cons n ns => simp at hlen
  | cons c cs ih =>
    cases nblk with
    | nil => simp at hlen
    | cons n ns =>
      have hn : 1 ≤ n := hpos n List.mem_cons_self
      obtain ⟨h1, h2⟩ := ih ns (by simpa using hlen) (fun m hm => hpos m (List.mem_cons_of_mem _ hm))
        (fun c' hc' => hv c' (List.mem_cons_of_mem _ hc'))
      have hc := hv c List.mem_cons_self
      refine ⟨?_, ?_⟩
      · simp only [hbounds, List.zipWith_cons_cons]
        exact List.Forall₂.cons (chrom_linspace_ok c n hn hc.1 hc.2) h1
      · simp only [hbounds, List.zipWith_cons_cons, nbins, List.map_cons, List.sum_cons]
        rw [linspace_length _ _ n hn]
        simp only [nbins, hbounds] at h2
        rw [h2]; omega

end

end Haplo
