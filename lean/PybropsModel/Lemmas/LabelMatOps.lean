/-
Lemmas/LabelMatOps.lean — what each modelled operation does to the data, the label columns and the
group metadata (inversion lemmas), and the attachment statement for every operation.
-/
import PybropsModel.Lemmas.LabelMatAttach

set_option autoImplicit false
set_option linter.unusedVariables false

namespace LabelMat

variable {α lab : Type}

/-! ### generalities -/

theorem checkCtor_ok {sch : Schema} {s s' : St α lab} (h : s.checkCtor sch = .ok s') : s' = s := by
  unfold St.checkCtor at h
  split at h
  · cases h; rfl
  · cases h

/-- labelled cells only depend on the data and on the label columns (not on group metadata) -/
theorem lcellAt_congr (sch : Schema) (s t : St α lab) (hm : s.mat = t.mat)
    (hc : ∀ kk, (s.bundle kk).cols = (t.bundle kk).cols) (i j k : Nat) :
    lcellAt sch s i j k = lcellAt sch t i j k := by
  unfold lcellAt
  rw [hm]
  have : ∀ b x, axInfo sch s b x = axInfo sch t b x := by
    intro b x
    apply axInfo_congr
    · intro kk _
      unfold labelsAt
      rw [hc kk]
    · intro _; rfl
  simp only [this]

theorem isLCell_congr (sch : Schema) (s t : St α lab) (hm : s.mat = t.mat)
    (hc : ∀ kk, (s.bundle kk).cols = (t.bundle kk).cols) (c : LCell α lab) :
    IsLCell sch s c ↔ IsLCell sch t c := by
  unfold IsLCell
  simp only [lcellAt_congr sch s t hm hc]

@[simp] theorem freshK_mat (k : Kind) (s : St α lab) : (freshK k s).mat = s.mat := by
  simp [freshK]

theorem freshK_cols (k kk : Kind) (s : St α lab) : ((freshK k s).bundle kk).cols = (s.bundle kk).cols := by
  unfold freshK
  by_cases h : kk = k
  · subst h; simp [Bundle.ungrouped]
  · rw [bundle_setBundle_ne _ _ _ _ h]

theorem freshK_grp_same (k : Kind) (s : St α lab) : ((freshK k s).bundle k).grp = none := by
  simp [freshK, Bundle.ungrouped]

theorem freshK_bundle_ne (k kk : Kind) (s : St α lab) (h : kk ≠ k) : (freshK k s).bundle kk = s.bundle kk := by
  unfold freshK
  rw [bundle_setBundle_ne _ _ _ _ h]

theorem newObj_eq (sch : Schema) (hd : sch.pureDropsOther = false) (k : Kind) (s : St α lab) :
    newObj sch k s = freshK k s := by
  simp [newObj, hd]

/-! ### consistency gives the lengths the attachment lemmas need -/

theorem axisLen_of_rect (a : Nat) (m : Mat3 α) (h : rect m = true) : AxisLen a m (axLen a m) := by
  unfold rect at h
  simp only [List.all_eq_true, Bool.and_eq_true, beq_iff_eq] at h
  match a with
  | 0 => rfl
  | 1 => intro pl hpl; exact (h pl hpl).1
  | a + 2 => intro pl hpl r hr; exact (h pl hpl).2 r hr

theorem consistent_rect {sch : Schema} {s : St α lab} (h : consistentOK sch s = true) : rect s.mat = true := by
  unfold consistentOK at h
  simp only [Bool.and_eq_true] at h
  exact h.1.1

theorem colsLen_of_consistent {sch : Schema} {s : St α lab} (h : consistentOK sch s = true)
    (k : Kind) (a : Nat) (ha : a ∈ sch.axes k) : ColsLen (s.bundle k) (axLen a s.mat) := by
  unfold consistentOK at h
  simp only [Bool.and_eq_true, List.all_eq_true] at h
  have h2 := h.1.2 k (by cases k <;> simp) a ha
  intro l hl
  have := h2 (some l) hl
  simpa using this

theorem len_eq {sch : Schema} {k : Kind} {a : Nat} (hax : sch.axes k = [a]) (s : St α lab) :
    s.len sch k = axLen a s.mat := by
  simp [St.len, hax]

/-! ### unary operations -/

/-- `s'` carries the data and label columns of `applyK sch k f s` for some natural `f` -/
def UnaryForm (sch : Schema) (k : Kind) (s s' : St α lab) : Prop :=
  ∃ f : ListOp, Natural f ∧ s'.mat = (applyK sch k f s).mat ∧
    ∀ kk, (s'.bundle kk).cols = ((applyK sch k f s).bundle kk).cols

theorem unaryForm_attached (sch : Schema) (hwf : sch.WF) (k : Kind) (a : Nat) (hax : sch.axes k = [a])
    (ha : a < 3) (s s' : St α lab) (hcons : consistentOK sch s = true) (hu : UnaryForm sch k s s')
    (c : LCell α lab) (h : IsLCell sch s' c) : IsLCell sch s c := by
  obtain ⟨f, hf, hm, hc⟩ := hu
  rw [isLCell_congr sch s' _ hm hc] at h
  exact applyK_lcell sch hwf k a hax ha hf s (axLen a s.mat)
    (axisLen_of_rect a s.mat (consistent_rect hcons))
    (colsLen_of_consistent hcons k a (by rw [hax]; simp)) c h

theorem unaryForm_of_fresh (sch : Schema) (k : Kind) (f : ListOp) (hf : Natural f) (s : St α lab) :
    UnaryForm sch k s (freshK k (applyK sch k f s)) :=
  ⟨f, hf, by simp, fun kk => freshK_cols k kk _⟩

theorem applyK_fresh_mat (sch : Schema) (k : Kind) (f : ListOp) (s : St α lab) :
    (applyK sch k f (freshK k s)).mat = (applyK sch k f s).mat := by
  simp [applyK]

theorem applyK_fresh_cols (sch : Schema) (k kk : Kind) (f : ListOp) (s : St α lab) :
    ((applyK sch k f (freshK k s)).bundle kk).cols = ((applyK sch k f s).bundle kk).cols := by
  by_cases h : kk = k
  · subst h
    simp [applyK, freshK, Bundle.mapCols, Bundle.ungrouped]
  · simp [applyK, bundle_setBundle_ne _ _ _ _ h, freshK]

theorem selectK_form {sch : Schema} (hd : sch.pureDropsOther = false) {k : Kind} {is : List Int}
    {s s' : St α lab} (h : selectK sch k is s = .ok s') : UnaryForm sch k s s' := by
  unfold selectK at h
  simp only [bind, Except.bind, pure, Except.pure] at h
  split at h
  · cases h
  · split at h
    · cases h
    · rename_i ix _
      rw [newObj_eq sch hd] at h
      rw [checkCtor_ok h]
      exact unaryForm_of_fresh sch k _ (natural_take ix) s

theorem deleteK_form {sch : Schema} (hd : sch.pureDropsOther = false) {k : Kind} {obj : DelIdx}
    {s s' : St α lab} (h : deleteK sch k obj s = .ok s') : UnaryForm sch k s s' := by
  unfold deleteK at h
  simp only [bind, Except.bind, pure, Except.pure] at h
  split at h
  · cases h
  · split at h
    · cases h
    · rename_i ix _
      rw [newObj_eq sch hd] at h
      rw [checkCtor_ok h]
      exact unaryForm_of_fresh sch k _ (natural_delete ix) s

theorem removeK_form {sch : Schema} {k : Kind} {obj : DelIdx}
    {s s' : St α lab} (h : removeK sch k obj s = .ok s') : UnaryForm sch k s s' := by
  unfold removeK at h
  simp only [bind, Except.bind, pure, Except.pure] at h
  split at h
  · cases h
  · split at h
    · cases h
    · rename_i ix _
      cases h
      exact unaryForm_of_fresh sch k _ (natural_delete ix) s

theorem reorderKPre_eq {sch : Schema} {k : Kind} {is : List Int} {s s' : St α lab}
    (h : reorderKPre sch k is s = .ok s') : ∃ ix, s' = applyK sch k (fun _ => Np.take ix) s := by
  unfold reorderKPre at h
  simp only [bind, Except.bind, pure, Except.pure] at h
  split at h
  · cases h
  · split at h
    · cases h
    · rename_i ix _
      cases h
      exact ⟨ix, rfl⟩

theorem reorderKPre_form {sch : Schema} {k : Kind} {is : List Int}
    {s s' : St α lab} (h : reorderKPre sch k is s = .ok s') : UnaryForm sch k s s' := by
  obtain ⟨ix, rfl⟩ := reorderKPre_eq h
  exact ⟨_, natural_take ix, rfl, fun _ => rfl⟩

theorem reorderK_eq {sch : Schema} {k : Kind} {is : List Int} {s s' : St α lab}
    (h : reorderK sch k is s = .ok s') : ∃ ix, s' = freshK k (applyK sch k (fun _ => Np.take ix) s) := by
  unfold reorderK at h
  simp only [bind, Except.bind, pure, Except.pure] at h
  split at h
  · cases h
  · rename_i s1 h1
    cases h
    obtain ⟨ix, rfl⟩ := reorderKPre_eq h1
    exact ⟨ix, rfl⟩

theorem reorderK_form {sch : Schema} {k : Kind} {is : List Int}
    {s s' : St α lab} (h : reorderK sch k is s = .ok s') : UnaryForm sch k s s' := by
  obtain ⟨ix, rfl⟩ := reorderK_eq h
  exact unaryForm_of_fresh sch k _ (natural_take ix) s

theorem sortK_eq {le : lab → lab → Bool} {sch : Schema} {k : Kind}
    {keys : Option (List (Option (List lab)))} {s s' : St α lab}
    (h : sortK le sch k keys s = .ok s') :
    ∃ ix, lexsortK le sch k keys (freshK k s) = .ok ix ∧
      s' = applyK sch k (fun _ => Np.take ix) (freshK k s) := by
  unfold sortK at h
  simp only [bind, Except.bind, pure, Except.pure] at h
  split at h
  · cases h
  · rename_i ix hix
    cases h
    exact ⟨ix, hix, rfl⟩

theorem sortK_form {le : lab → lab → Bool} {sch : Schema} {k : Kind}
    {keys : Option (List (Option (List lab)))} {s s' : St α lab}
    (h : sortK le sch k keys s = .ok s') : UnaryForm sch k s s' := by
  obtain ⟨ix, _, rfl⟩ := sortK_eq h
  exact ⟨_, natural_take ix, applyK_fresh_mat sch k _ s, fun kk => applyK_fresh_cols sch k kk _ s⟩

theorem groupK_form [BEq lab] {le : lab → lab → Bool} {sch : Schema} {k : Kind} {s s' : St α lab}
    (h : groupK le sch k s = .ok s') : UnaryForm sch k s s' := by
  unfold groupK at h
  split at h
  · cases h
  · simp only [bind, Except.bind, pure, Except.pure] at h
    split at h
    · cases h
    · rename_i s1 hs1
      obtain ⟨f, hf, hm, hc⟩ := sortK_form hs1
      split at h
      · cases h; exact ⟨f, hf, hm, hc⟩
      · cases h
        refine ⟨f, hf, by simpa using hm, ?_⟩
        intro kk
        by_cases hk : kk = k
        · subst hk; simpa using hc kk
        · rw [bundle_setBundle_ne _ _ _ _ hk]; exact hc kk

theorem ungroupK_eq {sch : Schema} {k : Kind} {s s' : St α lab} (h : ungroupK sch k s = .ok s') :
    s' = freshK k s := by
  unfold ungroupK at h
  split at h
  · cases h
  · split at h
    · cases h
    · cases h; rfl

end LabelMat
