/-
Helper lemmas for C12 (4): first and second moments of gamete alleles after one meiosis, after
`n` generations of selfing by single-seed descent (`ssdE`), and for the two-, three- and four-way
schemes; linear functionals and the expansion of the covariance of two doubled-haploid values.
-/
import PybropsModel.Lemmas.VarExpect
set_option autoImplicit false
set_option linter.unusedSectionVars false

namespace Variance
variable {α : Type} [Field α] [CharZero α]

/-! ### one meiosis -/

theorem gameteAt_eq (mask : List Bool) (h0 h1 : Nat → α) (j : Nat) :
    gameteAt mask h0 h1 j = (h0 j + h1 j) / 2 + sgnAt mask j * ((h0 j - h1 j) / 2) := by
  unfold gameteAt sgnAt sgn
  cases phaseAt mask j <;> simp <;> ring

/-- every chromosome list we enumerate over starts with an unlinked position (`xoprob[0] = 0.5`):
    then each marker carries either parental phase with probability 1/2 -/
def HalfStart (xs : List α) : Prop := ∀ j, prodTo xs j = 0

theorem halfStart_cons (xs : List α) : HalfStart ((1 / 2 : α) :: xs) := by
  intro j
  cases j <;> simp [prodTo]

theorem E_gamete (xs : List α) (h0 h1 : Nat → α) (i : Nat) :
    E xs (fun m => gameteAt m h0 h1 i) = (h0 i + h1 i) / 2 + prodTo xs i * ((h0 i - h1 i) / 2) := by
  simp only [gameteAt_eq, E_add, E_const, E_mul_const, E_sgnAt]

theorem E_gamete_mul (xs : List α) (h0 h1 : Nat → α) (i j : Nat) :
    E xs (fun m => gameteAt m h0 h1 i * gameteAt m h0 h1 j) =
      ((h0 i + h1 i) * (h0 j + h1 j) + prodTo xs i * ((h0 i - h1 i) * (h0 j + h1 j))
        + prodTo xs j * ((h0 i + h1 i) * (h0 j - h1 j))
        + rho xs i j * ((h0 i - h1 i) * (h0 j - h1 j))) / 4 := by
  have h : ∀ m : List Bool, gameteAt m h0 h1 i * gameteAt m h0 h1 j =
      (h0 i + h1 i) * (h0 j + h1 j) / 4
      + sgnAt m i * ((h0 i - h1 i) * (h0 j + h1 j) / 4)
      + sgnAt m j * ((h0 i + h1 i) * (h0 j - h1 j) / 4)
      + sgnAt m i * sgnAt m j * ((h0 i - h1 i) * (h0 j - h1 j) / 4) := by
    intro m
    rw [gameteAt_eq, gameteAt_eq]
    ring
  rw [E_congr xs _ _ h]
  simp only [E_add, E_const, E_mul_const, E_sgnAt, E_sgnAt_mul]
  ring

theorem E_gamete_half (xs : List α) (hx : HalfStart xs) (h0 h1 : Nat → α) (i : Nat) :
    E xs (fun m => gameteAt m h0 h1 i) = (h0 i + h1 i) / 2 := by
  rw [E_gamete, hx i]; ring

theorem E_gamete_mul_half (xs : List α) (hx : HalfStart xs) (h0 h1 : Nat → α) (i j : Nat) :
    E xs (fun m => gameteAt m h0 h1 i * gameteAt m h0 h1 j) =
      ((1 + rho xs i j) * (h0 i * h0 j + h1 i * h1 j) + (1 - rho xs i j) * (h0 i * h1 j + h1 i * h0 j)) / 4 := by
  rw [E_gamete_mul, hx i, hx j]; ring

/-! ### selfing by single-seed descent -/

/-- linkage-disequilibrium decay after `n` selfing generations: `δ₀ = c`, `δₙ₊₁ = c/2 · (1 + δₙ)`
    (`c = 1 - 2r`) -/
def delta (c : α) : Nat → α
  | 0 => c
  | n+1 => c / 2 * (1 + delta c n)

theorem ssd_first (xs : List α) (hx : HalfStart xs) (i : Nat) :
    ∀ (n : Nat) (h0 h1 : Nat → α), ssdE xs n h0 h1 (fun g => g i) = (h0 i + h1 i) / 2 := by
  intro n
  induction n with
  | zero => intro h0 h1; simp only [ssdE]; exact E_gamete_half xs hx h0 h1 i
  | succ n ih =>
    intro h0 h1
    have h : ∀ m1 m2 : List Bool, (gameteAt m1 h0 h1 i + gameteAt m2 h0 h1 i) / 2
        = (1 / 2) * gameteAt m1 h0 h1 i + (1 / 2) * gameteAt m2 h0 h1 i := by
      intro m1 m2; ring
    simp only [ssdE, ih, h, E_add, E_const, E_const_mul, E_gamete_half xs hx]
    ring

theorem ssd_second (xs : List α) (hx : HalfStart xs) (i j : Nat) :
    ∀ (n : Nat) (h0 h1 : Nat → α), ssdE xs n h0 h1 (fun g => g i * g j) =
      ((1 + delta (rho xs i j) n) * (h0 i * h0 j + h1 i * h1 j)
        + (1 - delta (rho xs i j) n) * (h0 i * h1 j + h1 i * h0 j)) / 4 := by
  intro n
  induction n with
  | zero => intro h0 h1; simp only [ssdE, delta]; exact E_gamete_mul_half xs hx h0 h1 i j
  | succ n ih =>
    intro h0 h1
    simp only [ssdE, ih]
    have h : ∀ m1 m2 : List Bool,
        ((1 + delta (rho xs i j) n) * (gameteAt m1 h0 h1 i * gameteAt m1 h0 h1 j + gameteAt m2 h0 h1 i * gameteAt m2 h0 h1 j)
          + (1 - delta (rho xs i j) n) * (gameteAt m1 h0 h1 i * gameteAt m2 h0 h1 j + gameteAt m2 h0 h1 i * gameteAt m1 h0 h1 j)) / 4
        = (1 + delta (rho xs i j) n) / 4 * (gameteAt m1 h0 h1 i * gameteAt m1 h0 h1 j)
          + (1 + delta (rho xs i j) n) / 4 * (gameteAt m2 h0 h1 i * gameteAt m2 h0 h1 j)
          + (1 - delta (rho xs i j) n) / 4 * (gameteAt m1 h0 h1 i * gameteAt m2 h0 h1 j)
          + (1 - delta (rho xs i j) n) / 4 * (gameteAt m1 h0 h1 j * gameteAt m2 h0 h1 i) := by
      intro m1 m2; ring
    simp only [h, E_add, E_const_mul, E_mul_const, E_const, E_gamete_mul_half xs hx, E_gamete_half xs hx]
    simp only [delta]
    ring

/-! ### linear functionals on functions of the final gamete -/

structure Lin (L : ((Nat → α) → α) → α) : Prop where
  add : ∀ F G, L (fun g => F g + G g) = L F + L G
  smul : ∀ (c : α) F, L (fun g => c * F g) = c * L F

theorem Lin.zero {L : ((Nat → α) → α) → α} (h : Lin L) : L (fun _ => 0) = 0 := by
  have := h.smul 0 (fun _ => 0)
  simpa using this

theorem Lin.sub {L : ((Nat → α) → α) → α} (h : Lin L) (F G : (Nat → α) → α) :
    L (fun g => F g - G g) = L F - L G := by
  have h1 : (fun g => F g - G g) = (fun g => F g + (-1) * G g) := by funext g; ring
  rw [h1, h.add, h.smul]; ring

theorem Lin.finsum {L : ((Nat → α) → α) → α} (h : Lin L) (s : Finset Nat) (F : Nat → (Nat → α) → α) :
    L (fun g => ∑ k ∈ s, F k g) = ∑ k ∈ s, L (F k) := by
  classical
  induction s using Finset.induction_on with
  | empty => simpa using h.zero
  | insert a s ha ih =>
    simp only [Finset.sum_insert ha]
    rw [h.add, ih]

theorem Lin.sumRange {L : ((Nat → α) → α) → α} (h : Lin L) (a b : Nat) (F : Nat → (Nat → α) → α) :
    L (fun g => sumRange a b (fun k => F k g)) = sumRange a b (fun k => L (F k)) := by
  simp only [sumRange_eq_finset]
  exact h.finsum _ F

theorem lin_E (xs : List α) (L : List Bool → ((Nat → α) → α) → α) (h : ∀ m, Lin (L m)) :
    Lin (fun F => E xs (fun m => L m F)) := by
  constructor
  · intro F G
    simp only [(h _).add, E_add]
  · intro c F
    simp only [(h _).smul, E_const_mul]

theorem lin_eval (g0 : Nat → α) : Lin (fun F : (Nat → α) → α => F g0) := ⟨fun _ _ => rfl, fun _ _ => rfl⟩

theorem lin_ssd (xs : List α) : ∀ (n : Nat) (h0 h1 : Nat → α), Lin (ssdE xs n h0 h1) := by
  intro n
  induction n with
  | zero =>
    intro h0 h1
    exact lin_E xs (fun m F => F (gameteAt m h0 h1)) (fun m => lin_eval _)
  | succ n ih =>
    intro h0 h1
    exact lin_E xs _ (fun m1 => lin_E xs _ (fun m2 => ih (gameteAt m1 h0 h1) (gameteAt m2 h0 h1)))

theorem lin_twoWay (xs : List α) (n : Nat) (a b : Nat → α) : Lin (twoWayE xs n a b) := lin_ssd xs n a b

theorem lin_threeWay (xs : List α) (n : Nat) (p1 p2 p3 : Nat → α) : Lin (threeWayE xs n p1 p2 p3) :=
  lin_E xs _ (fun mB => lin_ssd xs n p1 (gameteAt mB p2 p3))

theorem lin_fourWay (xs : List α) (n : Nat) (p1 p2 p3 p4 : Nat → α) : Lin (fourWayE xs n p1 p2 p3 p4) :=
  lin_E xs _ (fun mA => lin_E xs _ (fun mB => lin_ssd xs n (gameteAt mA p1 p2) (gameteAt mB p3 p4)))

/-- covariance of the alleles at markers `i`, `j` of the final gamete -/
def coordCov (L : ((Nat → α) → α) → α) (i j : Nat) : α :=
  L (fun g => g i * g j) - L (fun g => g i) * L (fun g => g j)

/-- **covariance of two doubled-haploid values = quadratic form of the allele covariances** -/
theorem cov_expand {L : ((Nat → α) → α) → α} (h : Lin L) (p : Nat) (u w : Nat → α) :
    covOf L (dhValue p u) (dhValue p w) =
      sumRange 0 p (fun i => sumRange 0 p (fun j => u i * (4 * coordCov L i j) * w j)) := by
  unfold covOf dhValue coordCov
  have h1 : ∀ g : Nat → α,
      sumRange 0 p (fun j => u j * (g j + g j)) * sumRange 0 p (fun j => w j * (g j + g j))
      = sumRange 0 p (fun i => sumRange 0 p (fun j => (4 * u i * w j) * (g i * g j))) := by
    intro g
    simp only [sumRange_eq_finset, Finset.sum_mul_sum]
    apply Finset.sum_congr rfl; intro i _
    apply Finset.sum_congr rfl; intro j _
    ring
  have h2 : ∀ v : Nat → α, L (fun g => sumRange 0 p (fun j => v j * (g j + g j)))
      = sumRange 0 p (fun j => (2 * v j) * L (fun g => g j)) := by
    intro v
    rw [h.sumRange]
    apply sumRange_congr; intro j _ _
    rw [← h.smul]
    congr 1; funext g; ring
  rw [funext h1, h.sumRange, h2 u, h2 w]
  simp only [sumRange_eq_finset, Finset.sum_mul_sum, ← Finset.sum_sub_distrib]
  apply Finset.sum_congr rfl; intro i _
  rw [h.finsum]
  rw [← Finset.sum_sub_distrib]
  apply Finset.sum_congr rfl; intro j _
  rw [h.smul]
  ring

end Variance
