/-
Helper lemmas for C12 (11): the Bool Spec oracle of the driver (`specClose`) characterised; boundary cases of the chunk
iterator (one-marker linkage groups, chunk size dividing the group size exactly, chunk size beyond the group size).
-/
import PybropsModel.Lemmas.VarBlocks
set_option autoImplicit false
set_option linter.unusedSectionVars false

namespace Variance

/-! ### `specClose` -/
section spec
variable {α : Type} [Field α] [LinearOrder α] [IsStrictOrderedRing α]

theorem absV_eq_abs (x : α) : absV x = |x| := by
  unfold absV
  split_ifs with h
  · exact (abs_of_neg h).symm
  · exact (abs_of_nonneg (not_lt.mp h)).symm

/-- the oracle accepts exactly when `|impl - want| ≤ tol · max(1, |want|)` -/
theorem specClose_iff (impl want tol : α) :
    specClose impl want tol = true ↔ |impl - want| ≤ tol * max 1 |want| := by
  unfold specClose
  simp only [absV_eq_abs, decide_eq_true_eq, not_lt]
  have : (if |want| < 1 then (1 : α) else |want|) = max 1 |want| := by
    split_ifs with h
    · exact (max_eq_left (le_of_lt h)).symm
    · exact (max_eq_right (not_lt.mp h)).symm
  rw [this]

/-- with tolerance 0 the oracle is equality -/
theorem specClose_zero_iff (impl want : α) : specClose impl want 0 = true ↔ impl = want := by
  rw [specClose_iff, zero_mul]
  constructor
  · intro h
    have := abs_nonneg (impl - want)
    have h0 : |impl - want| = 0 := le_antisymm h this
    exact sub_eq_zero.mp (abs_eq_zero.mp h0)
  · rintro rfl; simp

/-- a value equal to the reference is accepted at every tolerance ≥ 0 -/
theorem specClose_of_eq (x y tol : α) (h : x = y) (ht : 0 ≤ tol) : specClose x y tol = true := by
  rw [specClose_iff, h, sub_self, abs_zero]
  exact mul_nonneg ht (le_trans zero_le_one (le_max_left _ _))

end spec

/-! ### boundary cases of `chunks` -/

theorem chunks_cons (a b step : Nat) (hs : 0 < step) (h : a + step < b) :
    chunks a b step = (a, a + step) :: chunks (a + step) b step := by
  have hlt : a < b := by omega
  unfold chunks srange
  rw [pyRange_unfold a b step hs hlt, pyRange_unfold (a + step) b step hs h]
  simp only [List.cons_append, List.zip_cons_cons]

theorem chunks_last (a b step : Nat) (hs : 0 < step) (h1 : a < b) (h2 : b ≤ a + step) :
    chunks a b step = [(a, b)] := by
  unfold chunks srange
  rw [pyRange_unfold a b step hs h1, pyRange_nil (a + step) b step h2]
  simp only [List.nil_append, List.zip_cons_cons, List.zip_nil_left]

/-- a linkage group with ONE marker is one block, whatever the chunk size -/
theorem chunks_one_marker (a step : Nat) (hs : 0 < step) : chunks a (a + 1) step = [(a, a + 1)] :=
  chunks_last a (a + 1) step hs (by omega) (by omega)

/-- a chunk size at least the group size gives one block (more chunk room than markers) -/
theorem chunks_big_step (a b step : Nat) (h1 : a < b) (h2 : b - a ≤ step) : chunks a b step = [(a, b)] :=
  chunks_last a b step (by omega) h1 (by omega)

/-- **the chunk size divides the group size exactly**: `q + 1` full blocks and no empty block at the end
    (`srange` yields `stop` once more although `range` already stopped there; `zip` drops the surplus) -/
theorem chunks_exact (step : Nat) (hs : 0 < step) (q : Nat) :
    ∀ a, chunks a (a + (q + 1) * step) step
      = (List.range (q + 1)).map (fun i => (a + i * step, a + (i + 1) * step)) := by
  induction q with
  | zero =>
    intro a
    rw [chunks_last a _ step hs (by simp; omega) (by simp)]
    simp
  | succ q ih =>
    intro a
    have hstep : 0 < (q + 1) * step := Nat.mul_pos (by omega) hs
    rw [chunks_cons a _ step hs (by rw [Nat.add_mul (q + 1) 1 step]; omega)]
    have e : a + (q + 1 + 1) * step = (a + step) + (q + 1) * step := by ring
    rw [e, ih (a + step), List.range_succ_eq_map (n := q + 1), List.map_cons, List.map_map]
    congr 1
    · simp
    · apply List.map_congr_left
      intro i _
      simp only [Function.comp, Prod.mk.injEq, Nat.succ_eq_add_one]
      constructor <;> ring

section onemarker
variable {α : Type} [Field α] [CharZero α]

/-- the double sum over a one-marker block is the single diagonal term -/
theorem blockQuad_one (D : Nat → Nat → α) (a b : Nat → α) (i : Nat) :
    blockQuad D a b i (i + 1) i (i + 1) = a i * D i i * b i := by
  simp [blockQuad, sumRange]

/-- the accumulation over a one-marker linkage group visits exactly one block, for every chunk size ≥ 1 and `None` -/
theorem accum_one_marker (mem : Option Nat) (hm : MemOK mem) (i : Nat) (part : Nat → Nat → Nat → Nat → α) :
    accum mem [(i, i + 1)] part = part i (i + 1) i (i + 1) := by
  have hs : 0 < mem.getD ((i, i + 1).2 - (i, i + 1).1) := by
    cases mem with
    | none => simp
    | some k => simpa using hm k rfl
  unfold accum
  simp only [List.map_cons, List.map_nil, List.sum_cons, List.sum_nil, add_zero]
  rw [chunks_one_marker i _ hs]
  simp

end onemarker
end Variance
