/-
Helper lemmas for C07 (5): the common tail `arrange` (reshape → outcross_shuffle → axis_shuffle),
the option list of the integer/binary encodings, and the share arithmetic.
-/
import PybropsModel.Lemmas.XConfigAxis
set_option autoImplicit false

namespace XConfig

/-- what a genuine generator may hand to `arrange`: permutations of the exchange list (one per
    `while` iteration) and one permutation per cross -/
structure ValidArrange (nc np : Nat) (orders rowperms : List (List Nat)) : Prop where
  np_pos : 0 < np
  orders_ok : ValidPerms (exchPairs (nc * np)).length orders
  rows_ok : ValidRowPerms nc np rowperms

theorem arrange_facts {nc np : Nat} {flat : List Nat} {orders rowperms : List (List Nat)} {rows : Rows}
    (hl : flat.length = nc * np) (v : ValidArrange nc np orders rowperms)
    (h : arrange flat nc np orders rowperms = .ok rows) :
    Rect nc np rows ∧ rows.flatten.Perm flat ∧ ExchangeOptimal nc np rows ∧
      selfPairs rows ≤ selfPairs (reshape nc np flat) := by
  unfold arrange at h
  cases ho : outcross (ordersOf np (nc * np) orders) (reshape nc np flat) with
  | none => rw [ho] at h; cases h
  | some y =>
    rw [ho] at h
    cases h
    have hr := rect_reshape nc np flat hl
    have hvc := ordersOf_valid_complete nc np v.np_pos orders v.orders_ok
    obtain ⟨ry, py, sy⟩ := outcross_invariant _ _ y hr (fun o ho => (hvc o ho).1) ho
    have oy := outcross_exchangeOptimal _ _ y hr (fun o ho => (hvc o ho).1) (fun o ho => (hvc o ho).2) ho
    refine ⟨rect_axisShuffle ry v.rows_ok, ?_, exchangeOptimal_axisShuffle ry v.rows_ok oy, ?_⟩
    · have := (perm_flatten_axisShuffle ry v.rows_ok).trans py
      rwa [flatten_reshape nc np flat hl] at this
    · rw [selfPairs_axisShuffle ry v.rows_ok]; exact sy

theorem dupCount_le_length (l : List Nat) : dupCount l ≤ l.length := by
  have := dupCount_add_dedup l; omega

theorem selfPairs_le_length (rows : Rows) : selfPairs rows ≤ rows.flatten.length := by
  unfold selfPairs
  induction rows with
  | nil => simp
  | cons r rs ih =>
    simp only [List.map_cons, List.sum_cons, List.flatten_cons, List.length_append]
    have := dupCount_le_length r
    omega

/-- the sampler terminates: one more supplied order than there are slots always suffices -/
theorem arrange_ok {nc np : Nat} {flat : List Nat} {orders rowperms : List (List Nat)}
    (hl : flat.length = nc * np) (hn : nc * np < orders.length) :
    ∃ rows, arrange flat nc np orders rowperms = .ok rows := by
  unfold arrange
  have hs : selfPairs (reshape nc np flat) < (ordersOf np (nc * np) orders).length := by
    rw [length_ordersOf]
    have := selfPairs_le_length (reshape nc np flat)
    rw [flatten_reshape nc np flat hl, hl] at this
    omega
  have := outcross_isSome _ _ hs
  cases ho : outcross (ordersOf np (nc * np) orders) (reshape nc np flat) with
  | none => rw [ho] at this; cases this
  | some y => exact ⟨_, rfl⟩

theorem shapeOk_iff (nc np : Nat) (rows : Rows) : shapeOk nc np rows = true ↔ Rect nc np rows := by
  simp [shapeOk, Rect]

theorem evenOn_iff (members flat : List Nat) :
    evenOn members flat = true ↔ ∀ a ∈ members, ∀ b ∈ members, flat.count a ≤ flat.count b + 1 := by
  simp [evenOn]

/-! ### options of the integer / binary encodings -/

theorem count_repeatEach_range' (ns : List Nat) (s i : Nat) :
    (Np.repeatEach ns (List.range' s ns.length)).count i =
      if s ≤ i ∧ i < s + ns.length then ns.getD (i - s) 0 else 0 := by
  induction ns generalizing s with
  | nil => simp [Np.repeatEach]
  | cons n t ih =>
    simp only [List.length_cons, List.range'_succ, Np.repeatEach, List.count_append, List.count_replicate, ih]
    by_cases h1 : s = i
    · subst h1
      simp
    · by_cases h2 : s + 1 ≤ i ∧ i < s + 1 + t.length
      · have h3 : s ≤ i ∧ i < s + (t.length + 1) := by omega
        have e : i - s = (i - (s + 1)) + 1 := by omega
        simp [h1, h2, h3, e]
      · have h3 : ¬ (s ≤ i ∧ i < s + (t.length + 1)) := by omega
        simp only [h2, h3, if_false]
        simp
        intro e; exact absurd e h1

/-- individual `i` occurs `decn[i]` times among the options -/
theorem count_options (decn : List Nat) (i : Nat) : (options decn).count i = decn.getD i 0 := by
  unfold options
  rw [List.range_eq_range', count_repeatEach_range']
  by_cases h : i < decn.length
  · simp [h]
  · simp [h, List.getD_eq_getElem?_getD]

theorem length_repeatEach_range' (ns : List Nat) (s : Nat) :
    (Np.repeatEach ns (List.range' s ns.length)).length = ns.sum := by
  induction ns generalizing s with
  | nil => simp [Np.repeatEach]
  | cons n t ih => simp [List.range'_succ, Np.repeatEach, ih]

theorem length_options (decn : List Nat) : (options decn).length = decn.sum := by
  unfold options
  rw [List.range_eq_range', length_repeatEach_range']

/-! ### sums and the share test -/

theorem np_sum_cast (l : List Nat) : Np.sum (l.map (fun (d : Nat) => (d : Rat))) = ((l.sum : Nat) : Rat) := by
  unfold Np.sum
  have gen : ∀ (acc : Rat), List.foldl (· + ·) acc (l.map (fun (d : Nat) => (d : Rat))) = acc + ((l.sum : Nat) : Rat) := by
    induction l with
    | nil => intro acc; simp
    | cons a t ih =>
      intro acc
      simp only [List.map_cons, List.foldl_cons, List.sum_cons, ih]
      push_cast
      ring
  rw [gen 0]; simp

theorem share_arith (c S N d : Nat) :
    (((c : Rat) * S - (N : Rat) * d ≤ S) ∧ (-(S : Rat) ≤ (c : Rat) * S - (N : Rat) * d)) ↔
      (c * S ≤ S + N * d ∧ N * d ≤ S + c * S) := by
  constructor
  · rintro ⟨a, b⟩
    constructor
    · have : (c : Rat) * S ≤ S + (N : Rat) * d := by linarith
      exact_mod_cast this
    · have : (N : Rat) * d ≤ S + (c : Rat) * S := by linarith
      exact_mod_cast this
  · rintro ⟨a, b⟩
    have a' : (c : Rat) * S ≤ S + (N : Rat) * d := by exact_mod_cast a
    have b' : (N : Rat) * d ≤ S + (c : Rat) * S := by exact_mod_cast b
    constructor <;> linarith

/-- the share test of the Spec for an integer contribution vector, in natural-number arithmetic:
    |count_i · S − N · d_i| ≤ S -/
theorem withinOne_cast_iff (decn : List Nat) (N : Nat) (flat : List Nat) :
    withinOne (decn.map (fun (d : Nat) => (d : Rat))) N flat = true ↔
      ∀ i, i < decn.length →
        flat.count i * decn.sum ≤ decn.sum + N * decn.getD i 0 ∧
        N * decn.getD i 0 ≤ decn.sum + flat.count i * decn.sum := by
  simp only [withinOne, np_sum_cast, List.all_eq_true, List.mem_range, List.length_map, Bool.and_eq_true,
    decide_eq_true_eq]
  have e : ∀ i, i < decn.length →
      (List.map (fun (d : Nat) => (d : Rat)) decn).getD i 0 = ((decn.getD i 0 : Nat) : Rat) := by
    intro i hi
    simp [List.getD_eq_getElem?_getD, List.getElem?_map, List.getElem?_eq_getElem hi]
  constructor
  · intro h i hi
    have := h i hi
    rw [e i hi] at this
    exact (share_arith _ _ _ _).mp this
  · intro h i hi
    rw [e i hi]
    exact (share_arith _ _ _ _).mpr (h i hi)

theorem supportOk_cast_iff (decn : List Nat) (flat : List Nat) :
    supportOk (decn.map (fun (d : Nat) => (d : Rat))) flat = true ↔ ∀ i ∈ flat, i < decn.length ∧ 0 < decn.getD i 0 := by
  simp only [supportOk, List.all_eq_true, Bool.and_eq_true, decide_eq_true_eq, List.length_map]
  constructor
  · intro h i hi
    obtain ⟨a, b⟩ := h i hi
    refine ⟨a, ?_⟩
    have e : (List.map (fun (d : Nat) => (d : Rat)) decn).getD i 0 = ((decn.getD i 0 : Nat) : Rat) := by
      simp [List.getD_eq_getElem?_getD, List.getElem?_map, List.getElem?_eq_getElem a]
    rw [e] at b
    exact_mod_cast b
  · intro h i hi
    obtain ⟨a, b⟩ := h i hi
    refine ⟨a, ?_⟩
    have e : (List.map (fun (d : Nat) => (d : Rat)) decn).getD i 0 = ((decn.getD i 0 : Nat) : Rat) := by
      simp [List.getD_eq_getElem?_getD, List.getElem?_map, List.getElem?_eq_getElem a]
    rw [e]
    exact_mod_cast b

end XConfig

namespace XConfig

theorem sampleSubset_split {decn : List Nat} {nc np : Nat} {rem perm : List Nat} {orders rowperms : List (List Nat)}
    {rows : Rows} (h : sampleSubset decn nc np rem perm orders rowperms = .ok rows) :
    ∃ flat, tiledChoice decn (nc * np) rem perm = .ok flat ∧ arrange flat nc np orders rowperms = .ok rows := by
  unfold sampleSubset at h
  cases ht : tiledChoice decn (nc * np) rem perm with
  | error e => rw [ht] at h; cases h
  | ok flat => rw [ht] at h; exact ⟨flat, rfl, h⟩

theorem sampleMate_split {decn : List Nat} {xmap : Rows} {nc : Nat} {rem perm perm2 : List Nat} {rows : Rows}
    (h : sampleMate decn xmap nc rem perm perm2 = .ok rows) :
    ∃ out, tiledChoice decn nc rem perm = .ok out ∧ lookup xmap (Np.take perm2 out) = .ok rows := by
  unfold sampleMate at h
  cases ht : tiledChoice decn nc rem perm with
  | error e => rw [ht] at h; cases h
  | ok out => rw [ht] at h; exact ⟨out, rfl, h⟩

/-- everything the samplers guarantee about a table built from a valid tiled draw -/
theorem sampleSubset_facts {a : List Nat} {nc np : Nat} {rem perm : List Nat} {orders rowperms : List (List Nat)}
    {rows : Rows} (vt : ValidTiled a (nc * np) rem perm) (va : ValidArrange nc np orders rowperms)
    (h : sampleSubset a nc np rem perm orders rowperms = .ok rows) :
    Rect nc np rows ∧ ExchangeOptimal nc np rows ∧
      ∀ e, rows.flatten.count e = (nc * np / a.length) * a.count e + rem.count e ∧ rem.count e ≤ a.count e := by
  obtain ⟨flat, ht, harr⟩ := sampleSubset_split h
  obtain ⟨_, ht', _, hlen⟩ := tiledChoice_ok a (nc * np) rem perm vt
  rw [ht] at ht'
  cases ht'
  obtain ⟨hr, hp, ho, _⟩ := arrange_facts hlen va harr
  refine ⟨hr, ho, ?_⟩
  intro e
  rw [hp.count_eq]
  exact tiledChoice_count a (nc * np) rem perm flat vt ht e

theorem length_repeatN {α : Type} (n : Nat) (l : List α) : (Np.repeatN n l).length = n * l.length := by
  unfold Np.repeatN
  induction l with
  | nil => simp
  | cons a t ih =>
    simp only [List.flatMap_cons, List.length_append, List.length_replicate, List.length_cons, ih]
    ring

theorem foldl_max_ge (ms : List Nat) (m : Nat) : m ≤ ms.foldl max m ∧ ∀ x ∈ ms, x ≤ ms.foldl max m := by
  induction ms generalizing m with
  | nil => simp
  | cons a t ih =>
    obtain ⟨h1, h2⟩ := ih (max m a)
    simp only [List.foldl_cons, List.mem_cons]
    refine ⟨le_trans (le_max_left m a) h1, ?_⟩
    rintro x (rfl | hx)
    · exact le_trans (le_max_right m x) h1
    · exact h2 x hx

end XConfig
