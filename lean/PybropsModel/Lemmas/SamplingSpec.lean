/-
Helper lemmas for C17: the Spec oracle's "count within one of the expected count" test is the
floor-or-ceiling statement of the theorems.
-/
import PybropsModel.Lemmas.SamplingFloor
import PybropsModel.Model.Sampling
set_option autoImplicit false
set_option linter.unusedSectionVars false

namespace Sampling
section
variable {α : Type} [Field α] [LinearOrder α] [IsStrictOrderedRing α] [FloorRing α]

/-- for an integer count `c`: `|c - e| < 1` iff `c` is the floor or the ceiling of `e` -/
theorem within1_iff (c : Nat) (e : α) :
    within1 c e = true ↔ ((c : ℤ) = ⌊e⌋ ∨ (c : ℤ) = ⌈e⌉) := by
  unfold within1
  simp only [Bool.and_eq_true, decide_eq_true_eq]
  have hc : ((c : ℤ) : α) = (c : α) := by simp
  constructor
  · rintro ⟨h1, h2⟩
    -- c - 1 < e < c + 1
    by_cases hle : (c : α) ≤ e
    · left
      symm
      rw [Int.floor_eq_iff]
      exact ⟨by rw [hc]; exact hle, by rw [hc]; exact h2⟩
    · right
      symm
      rw [Int.ceil_eq_iff]
      rw [not_le] at hle
      exact ⟨by rw [hc]; linarith, by rw [hc]; exact hle.le⟩
  · rintro (h | h)
    · have h1 := Int.floor_le e
      have h2 := Int.lt_floor_add_one e
      rw [← h, hc] at h1 h2
      exact ⟨by linarith, h2⟩
    · have h1 := Int.le_ceil e
      have h2 := Int.ceil_lt_add_one e
      rw [← h, hc] at h1 h2
      exact ⟨h2, by linarith⟩

end
/-- counts agree on the members of both lists and lengths agree ⇔ rearrangement -/
theorem perm_iff_count_mem {β : Type} [DecidableEq β] (b c : List β) :
    (b.length = c.length ∧ (∀ v ∈ b, b.count v = c.count v) ∧ (∀ v ∈ c, b.count v = c.count v)) ↔ c.Perm b := by
  constructor
  · rintro ⟨_, h1, h2⟩
    rw [List.perm_iff_count]
    intro v
    by_cases hb : v ∈ b
    · exact (h1 v hb).symm
    · by_cases hc : v ∈ c
      · exact (h2 v hc).symm
      · rw [List.count_eq_zero_of_not_mem hb, List.count_eq_zero_of_not_mem hc]
  · intro h
    exact ⟨h.length_eq.symm, fun v _ => (h.count_eq v).symm, fun v _ => (h.count_eq v).symm⟩

section sus
variable {α : Type} [Field α] [LinearOrder α] [IsStrictOrderedRing α] [FloorRing α]

/-- the statement of the SUS clause of the property on a returned flat array `out` -/
def SusSpec {β : Type} [DecidableEq β] (p : List α) (k : Nat) (a out : List β) : Prop :=
  out.length = k ∧ (∀ v ∈ out, v ∈ a) ∧
  ∀ i (_ : i < p.length), ∃ ha : i < a.length,
    ((out.count a[i] : ℤ) = ⌊(k : α) * p.getD i 0 / Np.sum p⌋ ∨
     (out.count a[i] : ℤ) = ⌈(k : α) * p.getD i 0 / Np.sum p⌉) ∧
    (p.getD i 0 = 0 → out.count a[i] = 0)

/-- **the Bool oracle `specSus` decides exactly `SusSpec`** -/
theorem specSus_iff {β : Type} [DecidableEq β] (p : List α) (k : Nat) (a out : List β) :
    (specSus p k a out).ok = true ↔ SusSpec p k a out := by
  unfold SusVerdict.ok specSus SusSpec
  simp only [Bool.and_eq_true, beq_iff_eq, List.all_eq_true, decide_eq_true_eq, List.isEmpty_iff,
    List.filter_eq_nil_iff, List.mem_range]
  constructor
  · rintro ⟨⟨⟨hl, hm⟩, ho⟩, hz⟩
    refine ⟨hl, hm, fun i hi => ?_⟩
    have ho' := ho i hi
    have hz' := hz i hi
    cases hai : a[i]? with
    | none => rw [hai] at ho'; simp at ho'
    | some v =>
      obtain ⟨ha, hv⟩ := List.getElem?_eq_some_iff.mp hai
      rw [hai] at ho' hz'
      simp only [Bool.not_eq_true', Bool.not_eq_false] at ho'
      simp only [Bool.and_eq_true, decide_eq_true_eq, not_and, not_not] at hz'
      refine ⟨ha, ?_, ?_⟩
      · rw [hv]; exact (within1_iff _ _).mp ho'
      · rw [hv]; exact hz'
  · rintro ⟨hl, hm, h⟩
    refine ⟨⟨⟨hl, hm⟩, fun i hi => ?_⟩, fun i hi => ?_⟩
    · obtain ⟨ha, h1, _⟩ := h i hi
      rw [List.getElem?_eq_getElem ha]
      simp only [Bool.not_eq_true', Bool.not_eq_false]
      exact (within1_iff _ _).mpr h1
    · obtain ⟨ha, _, h2⟩ := h i hi
      rw [List.getElem?_eq_getElem ha]
      simp only [Bool.and_eq_true, decide_eq_true_eq, not_and, not_not]
      exact h2

end sus

/-- the statement of the tiled-choice clause -/
def TiledSpec {β : Type} [DecidableEq β] (a out : List β) (nsample : Nat) : Prop :=
  out.length = nsample ∧ (∀ v ∈ out, v ∈ a) ∧
  (∀ u ∈ a, out.count u = nsample / a.length ∨ out.count u = nsample / a.length + 1) ∧
  (∀ u ∈ a, ∀ v ∈ a, out.count u ≤ out.count v + 1)

theorem specTiled_iff {β : Type} [DecidableEq β] (a out : List β) (nsample : Nat) :
    specTiled a out nsample = true ↔ TiledSpec a out nsample := by
  unfold specTiled TiledSpec
  simp only [Bool.and_eq_true, beq_iff_eq, List.all_eq_true, decide_eq_true_eq]
  tauto

/-- the statement of the axis-shuffle clause: every requested slice holds a rearrangement of what it held -/
def AxisSpec {β : Type} (shape axis : List Nat) (before after : List β) : Prop :=
  after.length = before.length ∧
  ∀ key ∈ sliceKeys shape axis, (sliceVals shape axis after key).Perm (sliceVals shape axis before key)

theorem specAxis_iff {β : Type} [DecidableEq β] (shape axis : List Nat) (before after : List β) :
    specAxis shape axis before after = true ↔ AxisSpec shape axis before after := by
  unfold specAxis specAxisBad AxisSpec
  simp only [Bool.and_eq_true, beq_iff_eq, List.isEmpty_iff, List.filter_eq_nil_iff, Bool.not_eq_true',
    Bool.not_eq_false, List.all_eq_true, decide_eq_true_eq]
  constructor
  · rintro ⟨hl, h⟩
    refine ⟨hl, fun key hk => ?_⟩
    obtain ⟨⟨h1, h2⟩, h3⟩ := h key hk
    exact (perm_iff_count_mem _ _).mp ⟨h1, h2, h3⟩
  · rintro ⟨hl, h⟩
    refine ⟨hl, fun key hk => ?_⟩
    obtain ⟨h1, h2, h3⟩ := (perm_iff_count_mem _ _).mpr (h key hk)
    exact ⟨⟨h1, h2⟩, h3⟩

/-- the statement of the outcross-shuffle clause -/
def OutcrossSpec {β : Type} [DecidableEq β] (nrow ncol : Nat) (before after : List β) : Prop :=
  after.Perm before ∧
  (∀ r < nrow, dupCount (row ncol after r) ≤ dupCount (row ncol before r)) ∧
  (∀ i j, i < j → j < after.length → score nrow ncol after ≤ score nrow ncol (swap after i j)) ∧
  score nrow ncol after ≤ score nrow ncol before

theorem mem_allPairs' (n : Nat) (ij : Nat × Nat) : ij ∈ allPairs n ↔ ij.1 < ij.2 ∧ ij.2 < n := by
  obtain ⟨i, j⟩ := ij
  unfold allPairs
  simp only [List.mem_flatMap, List.mem_range, List.mem_map, List.mem_filter, decide_eq_true_eq, Prod.mk.injEq]
  constructor
  · rintro ⟨a, _, b, ⟨hb, hab⟩, rfl, rfl⟩; exact ⟨hab, hb⟩
  · rintro ⟨h1, h2⟩; exact ⟨i, by omega, j, ⟨h2, h1⟩, rfl, rfl⟩

theorem specOutcross_iff {β : Type} [DecidableEq β] (nrow ncol : Nat) (before after : List β) :
    (specOutcross nrow ncol before after).ok = true ↔ OutcrossSpec nrow ncol before after := by
  unfold OutcrossVerdict.ok specOutcross OutcrossSpec
  simp only [Bool.and_eq_true, beq_iff_eq, List.all_eq_true, decide_eq_true_eq, List.isEmpty_iff,
    List.filter_eq_nil_iff, not_lt, List.mem_range]
  constructor
  · rintro ⟨⟨⟨⟨⟨hl, h1⟩, h2⟩, hr⟩, hi⟩, hs⟩
    refine ⟨(perm_iff_count_mem before after).mp ⟨hl.symm, h1, h2⟩, hr, ?_, hs⟩
    intro i j hij hj
    exact hi (i, j) ((mem_allPairs' _ _).mpr ⟨hij, hj⟩)
  · rintro ⟨hp, hr, hi, hs⟩
    obtain ⟨hl, h1, h2⟩ := (perm_iff_count_mem before after).mpr hp
    refine ⟨⟨⟨⟨⟨hl.symm, h1⟩, h2⟩, hr⟩, ?_⟩, hs⟩
    intro ij hij
    obtain ⟨h1', h2'⟩ := (mem_allPairs' _ _).mp hij
    exact hi ij.1 ij.2 h1' h2'

end Sampling
