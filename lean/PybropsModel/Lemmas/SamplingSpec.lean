/-
Helper lemmas for C17: the Spec oracle's "count within one of the expected count" test is the
floor-or-ceiling statement of the theorems.
-/
import PybropsModel.Lemmas.SamplingFloor
import PybropsModel.Model.Sampling
set_option autoImplicit false

namespace Sampling
section
variable {α : Type} [Field α] [LinearOrder α] [IsStrictOrderedRing α] [FloorRing α]

/-- for an integer count `c`: `|c - e| < 1` iff `c` is the floor or the ceiling of `e` -/
theorem within1_iff (c : Nat) (e : α) :
    within1 c e = true ↔ ((c : ℤ) = ⌊e⌋ ∨ (c : ℤ) = ⌈e⌉) := by
  unfold within1
  simp only [Bool.and_eq_true, decide_eq_true_eq]
  have hc : ((c : ℤ) : α) = (c : α) := by simp
  constructor
  · rintro ⟨h1, h2⟩
    -- c - 1 < e < c + 1
    by_cases hle : (c : α) ≤ e
    · left
      symm
      rw [Int.floor_eq_iff]
      exact ⟨by rw [hc]; exact hle, by rw [hc]; exact h2⟩
    · right
      symm
      rw [Int.ceil_eq_iff]
      rw [not_le] at hle
      exact ⟨by rw [hc]; linarith, by rw [hc]; exact hle.le⟩
  · rintro (h | h)
    · have h1 := Int.floor_le e
      have h2 := Int.lt_floor_add_one e
      rw [← h, hc] at h1 h2
      exact ⟨by linarith, h2⟩
    · have h1 := Int.le_ceil e
      have h2 := Int.ceil_lt_add_one e
      rw [← h, hc] at h1 h2
      exact ⟨h2, by linarith⟩

end
end Sampling
