/-
Helper lemmas for C14, part 1: the literal double loop of `G_E_Phenotyping.phenotype` over the flat stream of
draws (`Pheno.envLoop` / `Pheno.repLoop`) equals the closed form over structured draws
(`Pheno.envBlocks` / `Pheno.repBlocks`), and what the closed form looks like cell by cell.
-/
import Mathlib.Tactic
import PybropsModel.Model.Pheno
set_option autoImplicit false
set_option linter.unusedSectionVars false

namespace Pheno

/-! ### concatenation of consecutively tagged pieces -/

/-- `f k₀ b₀ ++ f (k₀+1) b₁ ++ …` -/
def tagCat {β ρ : Type} (f : Nat → β → List ρ) : Nat → List β → List ρ
  | _, [] => []
  | k, b :: bs => f k b ++ tagCat f (k+1) bs

theorem tagCat_length {β ρ : Type} (f : Nat → β → List ρ) (k : Nat) (l : List β) :
    (tagCat f k l).length = ((l.zipIdx k).map (fun bi => (f bi.2 bi.1).length)).sum := by
  induction l generalizing k with
  | nil => simp [tagCat]
  | cons b bs ih => simp [tagCat, ih, List.zipIdx_cons]

/-- if every element of piece `k` carries tag `k`, filtering on a tag selects exactly that piece -/
theorem tagCat_filter {β ρ : Type} (f : Nat → β → List ρ) (tag : ρ → Nat)
    (htag : ∀ k b, ∀ x ∈ f k b, tag x = k) (k₀ : Nat) (l : List β) (i : Nat) (hi : i < l.length) :
    (tagCat f k₀ l).filter (fun x => tag x = k₀ + i) = f (k₀ + i) l[i] := by
  induction l generalizing k₀ i with
  | nil => simp at hi
  | cons b bs ih =>
    simp only [tagCat, List.filter_append]
    cases i with
    | zero =>
      have h1 : (f k₀ b).filter (fun x => tag x = k₀ + 0) = f k₀ b := by
        rw [List.filter_eq_self]
        intro x hx
        simp [htag k₀ b x hx]
      have h2 : ∀ (k : Nat) (l' : List β), k₀ < k → (tagCat f k l').filter (fun x => tag x = k₀ + 0) = [] := by
        intro k l'
        induction l' generalizing k with
        | nil => intro _; simp [tagCat]
        | cons c cs ihc =>
          intro hk
          simp only [tagCat, List.filter_append, List.append_eq_nil_iff]
          refine ⟨?_, ihc (k+1) (by omega)⟩
          rw [List.filter_eq_nil_iff]
          intro x hx
          have := htag k c x hx
          simp only [decide_eq_true_eq]
          omega
      rw [h1, h2 (k₀+1) bs (by omega)]
      simp
    | succ j =>
      have h1 : (f k₀ b).filter (fun x => tag x = k₀ + (j+1)) = [] := by
        rw [List.filter_eq_nil_iff]
        intro x hx
        have := htag k₀ b x hx
        simp only [decide_eq_true_eq]
        omega
      rw [h1]
      have := ih (k₀+1) j (by simpa using hi)
      have e : k₀ + 1 + j = k₀ + (j+1) := by omega
      rw [e] at this
      simpa using this

theorem tagCat_mem {β ρ : Type} (f : Nat → β → List ρ) (k₀ : Nat) (l : List β) (x : ρ) :
    x ∈ tagCat f k₀ l ↔ ∃ i, ∃ (h : i < l.length), x ∈ f (k₀ + i) l[i] := by
  induction l generalizing k₀ with
  | nil => simp [tagCat]
  | cons b bs ih =>
    simp only [tagCat, List.mem_append, ih]
    constructor
    · rintro (h | ⟨i, hi, hx⟩)
      · exact ⟨0, by simp, by simpa using h⟩
      · exact ⟨i+1, by simpa using hi, by
          have e : k₀ + 1 + i = k₀ + (i+1) := by omega
          simpa [e] using hx⟩
    · rintro ⟨i, hi, hx⟩
      cases i with
      | zero => left; simpa using hx
      | succ j =>
        right
        refine ⟨j, by simpa using hi, ?_⟩
        have e : k₀ + 1 + j = k₀ + (j+1) := by omega
        simpa [e] using hx

section loops
variable {L G α : Type} [Add α]

/-! ### literal loops = closed forms -/

theorem repLoop_flatten {ρ : Type} (mk : Nat → List α → List (List α) → List ρ) (rds : List (RepDraw α))
    (r : Nat) (s : List (Draw α)) :
    repLoop mk r rds.length (flattenReps rds ++ s) = some (repBlocks mk r rds, s) := by
  induction rds generalizing r with
  | nil => simp [repLoop, flattenReps, repBlocks]
  | cons rd rds ih =>
    simp only [List.length_cons, flattenReps, List.cons_append, repLoop, ih, repBlocks]

theorem envLoop_flatten (gv : List (List α)) (labs : List (L × Option G)) (ds : List (EnvDraw α))
    (e : Nat) (s : List (Draw α)) :
    envLoop gv labs e (ds.map (fun d => d.reps.length)) (flattenDraws ds ++ s) = some (envBlocks gv labs e ds) := by
  induction ds generalizing e with
  | nil => simp [envLoop, envBlocks]
  | cons d ds ih =>
    simp only [List.map_cons, flattenDraws, List.cons_append, List.append_assoc, envLoop, repLoop_flatten, ih,
      envBlocks]

/-- inversion: a successful replicate loop consumed a well-formed prefix of the stream -/
theorem repLoop_some {ρ : Type} (mk : Nat → List α → List (List α) → List ρ) (k r : Nat) (s s' : List (Draw α))
    (b : List ρ) (h : repLoop mk r k s = some (b, s')) :
    ∃ rds : List (RepDraw α), rds.length = k ∧ s = flattenReps rds ++ s' ∧ b = repBlocks mk r rds := by
  induction k generalizing r s b with
  | zero =>
    simp only [repLoop, Option.some.injEq, Prod.mk.injEq] at h
    exact ⟨[], rfl, by simp [flattenReps, h.2], by simp [repBlocks, h.1]⟩
  | succ k ih =>
    match s, h with
    | .vec repE :: .mat err :: s₁, h =>
      simp only [repLoop] at h
      cases hrec : repLoop mk (r+1) k s₁ with
      | none => simp [hrec] at h
      | some p =>
        obtain ⟨b₁, s₂⟩ := p
        simp only [hrec, Option.some.injEq, Prod.mk.injEq] at h
        obtain ⟨rds, hl, hs, hb⟩ := ih (r+1) s₁ b₁ (by rw [hrec, h.2])
        refine ⟨⟨repE, err⟩ :: rds, by simp [hl], ?_, ?_⟩
        · simp [flattenReps, hs]
        · simp [repBlocks, ← h.1, hb]
    | [], h => simp [repLoop] at h
    | [.vec _], h => simp [repLoop] at h
    | .mat _ :: _, h => simp [repLoop] at h
    | .vec _ :: .vec _ :: _, h => simp [repLoop] at h

/-- inversion of the environment loop: every successful run of the literal loop is the closed form on the
    structured view of the prefix of the stream that it consumed -/
theorem envLoop_some (gv : List (List α)) (labs : List (L × Option G)) (nrep : List Nat) (e : Nat)
    (s : List (Draw α)) (rows : List (Rec L G α)) (h : envLoop gv labs e nrep s = some rows) :
    ∃ (ds : List (EnvDraw α)) (rest : List (Draw α)), ds.map (fun d => d.reps.length) = nrep ∧
      s = flattenDraws ds ++ rest ∧ rows = envBlocks gv labs e ds := by
  induction nrep generalizing e s rows with
  | nil =>
    simp only [envLoop, Option.some.injEq] at h
    exact ⟨[], s, rfl, by simp [flattenDraws], by simp [envBlocks, h]⟩
  | cons k ks ih =>
    match s, h with
    | .vec envE :: s₁, h =>
      simp only [envLoop] at h
      cases hr : repLoop (block gv labs e envE) 0 k s₁ with
      | none => simp [hr] at h
      | some p =>
        obtain ⟨b, s₂⟩ := p
        simp only [hr] at h
        cases he : envLoop gv labs (e+1) ks s₂ with
        | none => simp [he] at h
        | some rest =>
          simp only [he, Option.some.injEq] at h
          obtain ⟨rds, hl, hs, hb⟩ := repLoop_some _ _ _ _ _ _ hr
          obtain ⟨ds, tl, hd, hs2, hrows⟩ := ih (e+1) s₂ rest he
          refine ⟨⟨envE, rds⟩ :: ds, tl, by simp [hl, hd], ?_, ?_⟩
          · simp [flattenDraws, hs, hs2]
          · simp [envBlocks, ← h, hb, hrows]
    | [], h => simp [envLoop] at h
    | .mat _ :: _, h => simp [envLoop] at h

/-! ### the blocks -/

theorem block_length (gv : List (List α)) (labs : List (L × Option G)) (e r : Nat) (envE repE : List α)
    (err : List (List α)) :
    (block gv labs e envE r repE err).length = min (min gv.length labs.length) err.length := by
  simp [block]

theorem block_env_rep (gv : List (List α)) (labs : List (L × Option G)) (e r : Nat) (envE repE : List α)
    (err : List (List α)) (x : Rec L G α) (hx : x ∈ block gv labs e envE r repE err) :
    x.env = e + 1 ∧ x.rep = r + 1 := by
  simp only [block, List.mem_iff_getElem, List.getElem_zipWith, List.length_zipWith] at hx
  obtain ⟨i, _, rfl⟩ := hx
  exact ⟨rfl, rfl⟩

/-- the label columns of a block are the population's label arrays, in order, once each -/
theorem block_labels (gv : List (List α)) (labs : List (L × Option G)) (e r : Nat) (envE repE : List α)
    (err : List (List α)) (h1 : labs.length = gv.length) (h2 : err.length = gv.length) :
    (block gv labs e envE r repE err).map (fun x => (x.taxa, x.grp)) = labs := by
  apply List.ext_getElem
  · simp [block, h1, h2]
  · intro i hi1 hi2
    simp [block]

/-- the value rows of a block: true value + environment effect + replicate effect + error, taxon by taxon -/
theorem block_vals (gv : List (List α)) (labs : List (L × Option G)) (e r : Nat) (envE repE : List α)
    (err : List (List α)) (h1 : labs.length = gv.length) :
    (block gv labs e envE r repE err).map (fun x => x.vals) =
      List.zipWith (fun g er => vadd (vadd (vadd g envE) repE) er) gv err := by
  apply List.ext_getElem
  · simp [block, h1]
  · intro i hi1 hi2
    simp [block]

end loops

section zero
variable {α : Type} [AddMonoid α]

theorem vadd_zero (g z : List α) (hl : z.length = g.length) (hz : ∀ x ∈ z, x = 0) : vadd g z = g := by
  unfold vadd
  apply List.ext_getElem
  · simp [hl]
  · intro i h1 h2
    have hi : i < z.length := by simp at h1; omega
    simp [hz z[i] (List.getElem_mem hi)]

end zero

section cells
variable {L G α : Type} [Add α]

theorem repBlocks_eq_tagCat {ρ : Type} (mk : Nat → List α → List (List α) → List ρ) (r : Nat)
    (rds : List (RepDraw α)) : repBlocks mk r rds = tagCat (fun r rd => mk r rd.rep rd.err) r rds := by
  induction rds generalizing r with
  | nil => rfl
  | cons rd rds ih => simp [repBlocks, tagCat, ih]

theorem envBlocks_eq_tagCat (gv : List (List α)) (labs : List (L × Option G)) (e : Nat) (ds : List (EnvDraw α)) :
    envBlocks gv labs e ds = tagCat (fun e d => repBlocks (block gv labs e d.env) 0 d.reps) e ds := by
  induction ds generalizing e with
  | nil => rfl
  | cons d ds ih => simp [envBlocks, tagCat, ih]

/-- every record of the closed form lies in the block of some environment `e` and replicate `r` -/
theorem envBlocks_mem (gv : List (List α)) (labs : List (L × Option G)) (ds : List (EnvDraw α)) (x : Rec L G α) :
    x ∈ envBlocks gv labs 0 ds ↔ ∃ e, ∃ (he : e < ds.length), ∃ r, ∃ (hr : r < ds[e].reps.length),
      x ∈ block gv labs e ds[e].env r ds[e].reps[r].rep ds[e].reps[r].err := by
  rw [envBlocks_eq_tagCat, tagCat_mem]
  constructor
  · rintro ⟨e, he, hx⟩
    rw [repBlocks_eq_tagCat, tagCat_mem] at hx
    obtain ⟨r, hr, hx⟩ := hx
    exact ⟨e, he, r, hr, by simpa using hx⟩
  · rintro ⟨e, he, r, hr, hx⟩
    refine ⟨e, he, ?_⟩
    rw [repBlocks_eq_tagCat, tagCat_mem]
    exact ⟨r, hr, by simpa using hx⟩

/-- the rows of cell (environment `e`, replicate `r`) are exactly the block built from that cell's draws -/
theorem envBlocks_cell (gv : List (List α)) (labs : List (L × Option G)) (ds : List (EnvDraw α))
    (e : Nat) (he : e < ds.length) (r : Nat) (hr : r < ds[e].reps.length) :
    (envBlocks gv labs 0 ds).filter (fun x => x.env = e + 1 ∧ x.rep = r + 1) =
      block gv labs e ds[e].env r ds[e].reps[r].rep ds[e].reps[r].err := by
  have hsplit : (envBlocks gv labs 0 ds).filter (fun x => x.env = e + 1 ∧ x.rep = r + 1) =
      ((envBlocks gv labs 0 ds).filter (fun x => x.env - 1 = 0 + e)).filter (fun x => x.rep - 1 = 0 + r) := by
    rw [List.filter_filter]
    apply List.filter_congr
    intro x hx
    obtain ⟨e', _, r', _, hb⟩ := (envBlocks_mem gv labs ds x).mp hx
    obtain ⟨h1, h2⟩ := block_env_rep _ _ _ _ _ _ _ x hb
    rw [h1, h2]
    by_cases ha : e' = e <;> by_cases hb : r' = r <;> simp [ha, hb]
  rw [hsplit, envBlocks_eq_tagCat]
  rw [tagCat_filter (fun e d => repBlocks (block gv labs e d.env) 0 d.reps) (fun x => x.env - 1) ?_ 0 ds e he]
  · rw [repBlocks_eq_tagCat]
    rw [tagCat_filter (fun r rd => block gv labs (0 + e) ds[e].env r rd.rep rd.err) (fun x => x.rep - 1) ?_ 0 _ r hr]
    · simp
    · intro k b x hx
      have := (block_env_rep _ _ _ _ _ _ _ x hx).2
      omega
  · intro k d x hx
    rw [repBlocks_eq_tagCat, tagCat_mem] at hx
    obtain ⟨i, _, hx⟩ := hx
    have := (block_env_rep _ _ _ _ _ _ _ x hx).1
    omega

theorem repBlocks_block_length (gv : List (List α)) (labs : List (L × Option G)) (e : Nat) (envE : List α)
    (r : Nat) (rds : List (RepDraw α)) (h1 : labs.length = gv.length)
    (h2 : ∀ rd ∈ rds, rd.err.length = gv.length) :
    (repBlocks (block gv labs e envE) r rds).length = gv.length * rds.length := by
  induction rds generalizing r with
  | nil => simp [repBlocks]
  | cons rd rds ih =>
    simp only [repBlocks, List.length_append, block_length, h1, h2 rd (by simp), min_self, List.length_cons]
    rw [ih (r+1) (fun x hx => h2 x (by simp [hx]))]
    ring

/-- number of records = taxa × total number of replicates -/
theorem envBlocks_length (gv : List (List α)) (labs : List (L × Option G)) (e : Nat) (ds : List (EnvDraw α))
    (h1 : labs.length = gv.length) (h2 : ∀ d ∈ ds, ∀ rd ∈ d.reps, rd.err.length = gv.length) :
    (envBlocks gv labs e ds).length = gv.length * (ds.map (fun d => d.reps.length)).sum := by
  induction ds generalizing e with
  | nil => simp [envBlocks]
  | cons d ds ih =>
    simp only [envBlocks, List.length_append, List.map_cons, List.sum_cons]
    rw [repBlocks_block_length gv labs e d.env 0 d.reps h1 (h2 d (by simp)),
      ih (e+1) (fun x hx => h2 x (by simp [hx]))]
    ring

/-- the draws named by the structured view all occur in the stream -/
theorem mem_flattenDraws_err (ds : List (EnvDraw α)) (d : EnvDraw α) (hd : d ∈ ds) (rd : RepDraw α)
    (hrd : rd ∈ d.reps) : Draw.mat rd.err ∈ flattenDraws ds ∧ Draw.vec rd.rep ∈ flattenDraws ds ∧
      Draw.vec d.env ∈ flattenDraws ds := by
  have hreps : ∀ (l : List (RepDraw α)), rd ∈ l → Draw.mat rd.err ∈ flattenReps l ∧ Draw.vec rd.rep ∈ flattenReps l := by
    intro l
    induction l with
    | nil => simp
    | cons a l ih =>
      intro h
      rcases List.mem_cons.mp h with rfl | h
      · simp [flattenReps]
      · have := ih h
        simp [flattenReps, this.1, this.2]
  induction ds with
  | nil => simp at hd
  | cons a ds ih =>
    rcases List.mem_cons.mp hd with rfl | h
    · have := hreps _ hrd
      simp [flattenDraws, this.1, this.2]
    · have := ih h
      simp [flattenDraws, this.1, this.2.1, this.2.2]

end cells

/-! ### label arrays -/
section
variable {L G : Type}

theorem labels_length (taxa : List L) (grp : Option (List G)) (h : ∀ g, grp = some g → g.length = taxa.length) :
    (labels taxa grp).length = taxa.length := by
  cases grp with
  | none => simp [labels]
  | some g => simp [labels, h g rfl]

theorem labels_getElem (taxa : List L) (grp : Option (List G)) (k : Nat) (hk : k < (labels taxa grp).length)
    (hk' : k < taxa.length) :
    ((labels taxa grp)[k]).1 = taxa[k] ∧ (grp.isSome = true → ((labels taxa grp)[k]).2.isSome = true) := by
  cases grp with
  | none => simp [labels]
  | some g => simp [labels]

end

/-! ### default label width -/
/-- `ceilLog10 n` is the least exponent `k` with `n ≤ 10^k` — i.e. `⌈log₁₀ n⌉` for `n ≥ 1` -/
theorem ceilLog10_spec (n : Nat) : n ≤ 10 ^ ceilLog10 n ∧ ∀ k, k < ceilLog10 n → 10 ^ k < n := by
  unfold ceilLog10
  have hex : ∃ k ∈ List.range (n+1), (fun k => decide (n ≤ 10 ^ k)) k = true := by
    refine ⟨n, by simp, ?_⟩
    simp only [decide_eq_true_eq]
    exact (Nat.lt_pow_self (by norm_num)).le
  cases hf : (List.range (n+1)).find? (fun k => decide (n ≤ 10 ^ k)) with
  | none =>
    rw [List.find?_eq_none] at hf
    obtain ⟨k, hk, hp⟩ := hex
    exact absurd hp (hf k hk)
  | some k =>
    simp only [Option.getD_some]
    have h1 := List.find?_some hf
    simp only [decide_eq_true_eq] at h1
    refine ⟨h1, ?_⟩
    intro j hj
    rw [List.find?_eq_some_iff_getElem] at hf
    obtain ⟨_, i, hi, hik, hbefore⟩ := hf
    simp only [List.getElem_range] at hik
    subst hik
    have := hbefore j hj
    simpa using this


end Pheno
