/-
Helper lemmas for C11: pairwise and sequential genetic distances (`pairDist`, `seqDist`,
`gdist1g`, `gdist2g`) over a linearly ordered field.
-/
import Mathlib.Tactic
import PybropsModel.Model.GMap
set_option autoImplicit false
set_option linter.unusedSectionVars false

namespace GMap

/-- addition of float distances: NaN is contagious, otherwise +∞ absorbs -/
def GDist.add {α : Type} [Add α] : GDist α → GDist α → GDist α
  | .fin a, .fin b => .fin (a + b)
  | .nan, _ => .nan
  | _, .nan => .nan
  | _, _ => .inf

section dist
variable {α : Type} [Field α] [LinearOrder α] [IsStrictOrderedRing α]

theorem absv_eq_abs (a : α) : absv a = |a| := by
  unfold absv
  split
  · rename_i h; rw [abs_of_neg h]; ring
  · rename_i h; rw [abs_of_nonneg (not_lt.mp h)]

/-! ### one entry of the pairwise matrix -/

theorem pairDist_of_ne {a b : Int × Option α} (h : a.1 ≠ b.1) : pairDist a b = GDist.inf := by
  simp [pairDist, h]

theorem pairDist_of_eq {a b : Int × Option α} {x y : α} (h : a.1 = b.1) (ha : a.2 = some x)
    (hb : b.2 = some y) : pairDist a b = GDist.fin |x - y| := by
  simp [pairDist, h, ha, hb, subPos, absD, absv_eq_abs]

theorem pairDist_symm (a b : Int × Option α) : pairDist a b = pairDist b a := by
  by_cases h : a.1 = b.1
  · rcases ha : a.2 with _ | x <;> rcases hb : b.2 with _ | y <;>
      simp [pairDist, h, ha, hb, subPos, absD, absv_eq_abs, abs_sub_comm]
  · rw [pairDist_of_ne h, pairDist_of_ne (Ne.symm h)]

theorem pairDist_self {a : Int × Option α} {x : α} (ha : a.2 = some x) : pairDist a a = GDist.fin 0 := by
  rw [pairDist_of_eq rfl ha ha]; simp

/-- between two markers with known positions the distance is infinite exactly when the chromosomes differ -/
theorem pairDist_eq_inf_iff {a b : Int × Option α} {x y : α} (ha : a.2 = some x) (hb : b.2 = some y) :
    pairDist a b = GDist.inf ↔ a.1 ≠ b.1 := by
  constructor
  · intro h heq
    rw [pairDist_of_eq heq ha hb] at h
    cases h
  · exact pairDist_of_ne

theorem pairDist_additive {a b c : Int × Option α} {x y z : α} (hab : a.1 = b.1) (hbc : b.1 = c.1)
    (ha : a.2 = some x) (hb : b.2 = some y) (hc : c.2 = some z) (hxy : x ≤ y) (hyz : y ≤ z) :
    pairDist a c = GDist.add (pairDist a b) (pairDist b c) := by
  rw [pairDist_of_eq (hab.trans hbc) ha hc, pairDist_of_eq hab ha hb, pairDist_of_eq hbc hb hc]
  simp only [GDist.add]
  rw [abs_sub_comm x z, abs_sub_comm x y, abs_sub_comm y z,
    abs_of_nonneg (sub_nonneg.mpr (le_trans hxy hyz)), abs_of_nonneg (sub_nonneg.mpr hxy),
    abs_of_nonneg (sub_nonneg.mpr hyz)]
  congr 1; ring

/-! ### one entry of the sequential array -/

theorem seqDist_none (c : Int × Option α) : seqDist none c = GDist.inf := rfl

theorem seqDist_of_ne {p c : Int × Option α} (h : p.1 ≠ c.1) : seqDist (some p) c = GDist.inf := by
  simp [seqDist, h]

theorem seqDist_of_eq {p c : Int × Option α} {x y : α} (h : p.1 = c.1) (hp : p.2 = some x)
    (hc : c.2 = some y) : seqDist (some p) c = GDist.fin (y - x) := by
  simp [seqDist, h, hp, hc, subPos]

/-- sequential = pairwise for adjacent ordered markers (and both are +∞ across chromosomes) -/
theorem seqDist_eq_pairDist {p c : Int × Option α} {x y : α} (hp : p.2 = some x) (hc : c.2 = some y)
    (hxy : p.1 = c.1 → x ≤ y) : seqDist (some p) c = pairDist p c := by
  by_cases h : p.1 = c.1
  · rw [seqDist_of_eq h hp hc, pairDist_of_eq h hp hc, abs_sub_comm, abs_of_nonneg (sub_nonneg.mpr (hxy h))]
  · rw [seqDist_of_ne h, pairDist_of_ne h]

/-- in general the pairwise entry is the absolute value of the sequential one -/
theorem absD_seqDist (p c : Int × Option α) : absD (seqDist (some p) c) = pairDist p c := by
  by_cases h : p.1 = c.1
  · rcases hp : p.2 with _ | x <;> rcases hc : c.2 with _ | y <;>
      simp [seqDist, pairDist, h, hp, hc, subPos, absD, absv_eq_abs, abs_sub_comm]
  · rw [seqDist_of_ne h, pairDist_of_ne h]; rfl

end dist

/-! ### the arrays -/
section arrays
variable {α : Type} [Sub α] [LT α] [DecidableLT α] [OfNat α 0]

theorem seqDist_of_ne' {p c : Int × Option α} (h : p.1 ≠ c.1) : seqDist (some p) c = GDist.inf := by
  simp [seqDist, h]

theorem seqDist_of_eq' {p c : Int × Option α} (h : p.1 = c.1) : seqDist (some p) c = subPos c.2 p.2 := by
  simp [seqDist, h]

theorem gdist1From_length (prev : Option (Int × Option α)) (l : List (Int × Option α)) :
    (gdist1From prev l).length = l.length := by
  induction l generalizing prev with
  | nil => rfl
  | cons c rest ih => simp [gdist1From, ih]

theorem gdist1From_zero (prev : Option (Int × Option α)) (l : List (Int × Option α)) :
    (gdist1From prev l)[0]? = (l[0]?).map (seqDist prev) := by
  cases l <;> simp [gdist1From]

theorem gdist1From_succ (prev : Option (Int × Option α)) (l : List (Int × Option α)) (i : Nat) :
    (gdist1From prev l)[i + 1]? =
      (l[i + 1]?).bind fun c => (l[i]?).map fun p => seqDist (some p) c := by
  induction l generalizing prev i with
  | nil => simp [gdist1From]
  | cons c rest ih =>
    cases i with
    | zero =>
      simp only [gdist1From, List.getElem?_cons_succ, List.getElem?_cons_zero, zero_add]
      rw [gdist1From_zero]
      cases rest <;> simp
    | succ i =>
      simp only [gdist1From, List.getElem?_cons_succ]
      exact ih (some c) i

theorem gdist1g_length (chr : List Int) (gen : List (Option α)) :
    (gdist1g chr gen).length = (chr.zip gen).length := by
  simp [gdist1g, slice, gdist1From_length]

/-- first entry of the sequential array: +∞ -/
theorem gdist1g_zero (chr : List Int) (gen : List (Option α)) (h : 0 < (chr.zip gen).length) :
    (gdist1g chr gen)[0]? = some GDist.inf := by
  unfold gdist1g slice
  simp only
  rw [gdist1From_zero]
  cases hz : chr.zip gen with
  | nil => rw [hz] at h; simp at h
  | cons a l => rfl

theorem gdist1g_succ (chr : List Int) (gen : List (Option α)) (i : Nat) :
    (gdist1g chr gen)[i + 1]? =
      ((chr.zip gen)[i + 1]?).bind fun c => ((chr.zip gen)[i]?).map fun p => seqDist (some p) c := by
  unfold gdist1g slice
  exact gdist1From_succ _ _ _

theorem gdist2g_entry (chr : List Int) (gen : List (Option α)) (i j : Nat) :
    entry (gdist2g chr gen) i j =
      ((chr.zip gen)[i]?).bind fun a => ((chr.zip gen)[j]?).map fun b => pairDist a b := by
  unfold entry gdist2g slice
  simp only [List.getElem?_map]
  cases (chr.zip gen)[i]? <;> simp

end arrays
end GMap
