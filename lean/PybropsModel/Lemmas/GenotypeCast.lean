/-
Helper lemmas for C09: numpy's float → integer cast (truncation toward zero, `Genotype.truncRat`) applied to a
frequency: 1 exactly when the locus is fixed at allele 1, 0 otherwise.
-/
import PybropsModel.Lemmas.GenotypeRounding
import PybropsModel.Lemmas.Binary64
set_option autoImplicit false
set_option linter.unusedVariables false

namespace Genotype
open Rounding

theorem truncRat_def (q : ℚ) : truncRat q = if q < 0 then -⌊-q⌋ else ⌊q⌋ := rfl

theorem truncRat_int (n : ℤ) : truncRat (n : ℚ) = n := by
  rw [truncRat_def]
  split_ifs with h
  · have : (-(n : ℚ)) = ((-n : ℤ) : ℚ) := by push_cast; ring
    rw [this, Int.floor_intCast]; ring
  · exact Int.floor_intCast n

/-- truncation is toward zero: the result has the sign of the argument, is no larger in absolute value and differs
    from it by less than one -/
theorem truncRat_toward_zero (q : ℚ) :
    (0 ≤ q → 0 ≤ truncRat q ∧ (truncRat q : ℚ) ≤ q ∧ q < truncRat q + 1)
    ∧ (q < 0 → truncRat q ≤ 0 ∧ q ≤ (truncRat q : ℚ) ∧ (truncRat q : ℚ) - 1 < q) := by
  constructor
  · intro h
    rw [truncRat_def, if_neg (not_lt.mpr h)]
    exact ⟨Int.floor_nonneg.mpr h, Int.floor_le q, Int.lt_floor_add_one q⟩
  · intro h
    rw [truncRat_def, if_pos h]
    have h' : (0 : ℚ) ≤ -q := by linarith
    have f0 := Int.floor_nonneg.mpr h'
    have f1 := Int.floor_le (-q)
    have f2 := Int.lt_floor_add_one (-q)
    refine ⟨by omega, ?_, ?_⟩ <;> push_cast <;> linarith

/-- on the unit interval: 1 at 1, 0 below -/
theorem truncRat_unit {q : ℚ} (h0 : 0 ≤ q) (h1 : q ≤ 1) :
    (truncRat q = 1 ↔ q = 1) ∧ (truncRat q = 0 ↔ q < 1) := by
  obtain ⟨t0, t1, t2⟩ := (truncRat_toward_zero q).1 h0
  constructor
  · constructor
    · intro h; rw [h] at t1; push_cast at t1; linarith
    · intro h; rw [h]; exact_mod_cast truncRat_int 1
  · constructor
    · intro h; rw [h] at t2; push_cast at t2; linarith
    · intro h
      have : (truncRat q : ℚ) < 1 := lt_of_le_of_lt t1 h
      have : truncRat q < 1 := by exact_mod_cast this
      omega

variable {rnd : ℚ → ℚ} {e : ℚ}

/-- **a frequency requested in an integer dtype** (`afreq("int64")`: the cast of the floating-point value): 1 exactly
    when every copy carries allele 1, 0 otherwise — for every rounding that meets the contract -/
theorem afreqAt_int_cast (h : RoundingContract rnd e) {ploidy nv : Nat} {m : UMat}
    (hv : ValidU ploidy nv m) (hbig : ((ploidy * m.length : ℕ) : ℚ) * e ≤ 1) (j : Nat) :
    (truncRat (rnd (afreqAt (α := ℚ) ploidy m j)) = 1 ↔ ∀ r ∈ m, entry r j = (ploidy : Int))
    ∧ (truncRat (rnd (afreqAt (α := ℚ) ploidy m j)) = 0 ↔ ¬ ∀ r ∈ m, entry r j = (ploidy : Int)) := by
  obtain ⟨⟨b0, b1⟩, r1, _⟩ := afreqAt_rounded h hv hbig j
  obtain ⟨u1, u0⟩ := truncRat_unit b0 b1
  refine ⟨by rw [u1, r1], ?_⟩
  rw [u0, ← r1]
  exact ⟨fun hlt heq => by rw [heq] at hlt; exact lt_irrefl _ hlt, fun hne => lt_of_le_of_ne b1 hne⟩

/-- **the floating-point minor-allele frequency** (`out = rnd (c/m)`; `out[out > 0.5] = rnd (1 - out)`) is exactly 0
    precisely when the locus is fixed for either allele -/
theorem maf_rounded_zero_iff (h : RoundingContract rnd e) (c m : ℕ) (hm : 0 < m) (hcm : c ≤ m)
    (hbig : (m : ℚ) * e ≤ 1) :
    (if (1 : ℚ) / 2 < rnd ((c : ℚ) / m) then rnd (1 - rnd ((c : ℚ) / m)) else rnd ((c : ℚ) / m)) = 0
      ↔ (c = 0 ∨ c = m) := by
  have hmq : (0 : ℚ) < m := by exact_mod_cast hm
  have e1 := div_form_one h c m hm hcm hbig
  have e0 := div_form_zero h c m hm hbig
  split
  · rename_i hq
    constructor
    · intro hz
      right
      by_contra hne
      have hlt : c < m := lt_of_le_of_ne hcm hne
      -- c/m ≤ 1 - e, so the rounded value is ≤ 1 - e and 1 - it is ≥ e > 0
      have hle : (c : ℚ) / m ≤ 1 - e := by
        rw [div_le_iff₀ hmq]
        have : (c : ℚ) + 1 ≤ m := by exact_mod_cast hlt
        nlinarith
      have hr : rnd ((c : ℚ) / m) ≤ 1 - e := by simpa [h.fixPred1] using h.mono hle
      have : e ≤ rnd (1 - rnd ((c : ℚ) / m)) := by
        have := h.mono (show e ≤ 1 - rnd ((c : ℚ) / m) by linarith)
        simpa [h.fixEps] using this
      linarith [h.epos]
    · rintro (hc | hc)
      · exfalso
        rw [e0.mpr hc] at hq
        norm_num at hq
      · rw [e1.mpr hc]; simp [h.fix0]
  · rename_i hq
    rw [e0]
    constructor
    · intro hc; exact Or.inl hc
    · rintro (hc | hc)
      · exact hc
      · exfalso
        rw [e1.mpr hc] at hq
        norm_num at hq

end Genotype
