/-
Helper lemmas for C19: index characterisations of the vector tests, the indexed weighted rows the
filter loop starts from, and the instantiation of `pareto_correct` with the vector test.
-/
import PybropsModel.Lemmas.ParetoLoop
set_option autoImplicit false
set_option linter.unusedSectionVars false

namespace C19
open Pareto

section vec
variable {α : Type} [LinearOrder α]

theorem all_le_iff (a b : List α) :
    (List.zip a b).all (fun ab => decide (ab.1 ≤ ab.2)) = true ↔
      ∀ i (h1 : i < a.length) (h2 : i < b.length), a[i] ≤ b[i] := by
  rw [List.all_eq_true]
  constructor
  · intro h i h1 h2
    have := h (a[i], b[i]) (by
      rw [List.mem_iff_getElem]
      exact ⟨i, by simp [h1, h2], by simp⟩)
    simpa using this
  · intro h ab hab
    obtain ⟨i, hi, rfl⟩ := List.mem_iff_getElem.mp hab
    simp only [List.length_zip, lt_min_iff] at hi
    simp [h i hi.1 hi.2]

theorem any_lt_iff (a b : List α) :
    (List.zip a b).any (fun ab => decide (ab.1 < ab.2)) = true ↔
      ∃ i, ∃ (h1 : i < a.length) (h2 : i < b.length), a[i] < b[i] := by
  rw [List.any_eq_true]
  constructor
  · rintro ⟨ab, hab, hlt⟩
    obtain ⟨i, hi, rfl⟩ := List.mem_iff_getElem.mp hab
    simp only [List.length_zip, lt_min_iff] at hi
    exact ⟨i, hi.1, hi.2, by simpa using hlt⟩
  · rintro ⟨i, h1, h2, hlt⟩
    exact ⟨(a[i], b[i]), by
      rw [List.mem_iff_getElem]
      exact ⟨i, by simp [h1, h2], by simp⟩, by simpa using hlt⟩

theorem weakDom_iff (r p : List α) :
    weakDom r p = true ↔ ∀ i (h1 : i < r.length) (h2 : i < p.length), r[i] ≤ p[i] := by
  have : weakDom r p = (List.zip r p).all (fun ab => decide (ab.1 ≤ ab.2)) := by
    unfold weakDom
    congr 1
    funext ab
    by_cases h : ab.2 < ab.1
    · simp [h, not_le.mpr h]
    · simp [h, not_lt.mp h]
  rw [this, all_le_iff]

theorem weakDom_refl (r : List α) : weakDom r r = true := by
  rw [weakDom_iff]; intro i _ _; exact le_refl _

theorem weakDom_trans (a b c : List α) (hab : a.length = b.length) (_hbc : b.length = c.length)
    (h1 : weakDom a b = true) (h2 : weakDom b c = true) : weakDom a c = true := by
  rw [weakDom_iff] at *
  intro i ha hc
  have hb : i < b.length := hab ▸ ha
  exact le_trans (h1 i ha hb) (h2 i hb hc)

theorem strictDom_iff (a b : List α) :
    strictDom a b = true ↔ weakDom b a = true ∧ ∃ i, ∃ (h1 : i < a.length) (h2 : i < b.length), b[i] < a[i] := by
  unfold strictDom
  rw [Bool.and_eq_true, List.any_eq_true]
  refine and_congr Iff.rfl ?_
  constructor
  · rintro ⟨ab, hab, hlt⟩
    obtain ⟨i, hi, rfl⟩ := List.mem_iff_getElem.mp hab
    simp only [List.length_zip, lt_min_iff] at hi
    exact ⟨i, hi.1, hi.2, by simpa using hlt⟩
  · rintro ⟨i, h1, h2, hlt⟩
    exact ⟨(a[i], b[i]), by
      rw [List.mem_iff_getElem]
      exact ⟨i, by simp [h1, h2], by simp⟩, by simpa using hlt⟩

/-- `strictDom a b` (a at least as good everywhere, better somewhere) excludes `weakDom a b` -/
theorem strictDom_not_weakDom (a b : List α) (h : strictDom a b = true) : weakDom a b = false := by
  rw [strictDom_iff] at h
  obtain ⟨_, i, h1, h2, hlt⟩ := h
  by_contra hw
  have hw : weakDom a b = true := by simpa using hw
  rw [weakDom_iff] at hw
  exact absurd (hw i h1 h2) (not_le.mpr hlt)

end vec

section filter
variable {α : Type} [Mul α] [LinearOrder α]

/-- weighted row `i` of the input (`fmat * wt[None,:]`) -/
def wrow (fmat : List (List α)) (wt : List α) (i : Nat) : List α := applyWt wt (fmat.getD i [])

/-- the indexed weighted rows the loop starts from -/
def rows (fmat : List (List α)) (wt : List α) : List (Nat × List α) :=
  (fmat.map (applyWt wt)).zipIdx.map (fun ri => (ri.2, ri.1))

theorem mem_rows (fmat : List (List α)) (wt : List α) (p : Nat × List α) :
    p ∈ rows fmat wt ↔ p.1 < fmat.length ∧ p.2 = wrow fmat wt p.1 := by
  obtain ⟨i, v⟩ := p
  simp only [rows, List.mem_map, Prod.mk.injEq, Prod.exists, wrow]
  constructor
  · rintro ⟨a, b, hmem, rfl, rfl⟩
    rw [List.mem_zipIdx_iff_getElem?] at hmem
    simp only [List.getElem?_map, Option.map_eq_some_iff] at hmem
    obtain ⟨r, hr, rfl⟩ := hmem
    have hlt := (List.getElem?_eq_some_iff.mp hr).1
    refine ⟨hlt, ?_⟩
    simp [List.getD_eq_getElem?_getD, hr]
  · rintro ⟨hlt, rfl⟩
    refine ⟨_, i, ?_, rfl, rfl⟩
    rw [List.mem_zipIdx_iff_getElem?]
    simp [List.getD_eq_getElem?_getD, List.getElem?_eq_getElem hlt]

theorem rows_nodup (fmat : List (List α)) (wt : List α) : (rows fmat wt).Nodup := by
  have : ((rows fmat wt).map Prod.fst) = List.range fmat.length := by
    simp only [rows, List.map_map]
    have : (Prod.fst ∘ fun ri : List α × Nat => (ri.2, ri.1)) = Prod.snd := rfl
    rw [this]
    rw [List.zipIdx_eq_zip_range', List.map_snd_zip (by simp), List.range_eq_range', List.length_map]
  exact List.Nodup.of_map Prod.fst (by rw [this]; exact List.nodup_range)

theorem rows_length_eq (fmat : List (List α)) (wt : List α) (hrect : ∀ r ∈ fmat, r.length = wt.length)
    (p : Nat × List α) (hp : p ∈ rows fmat wt) : p.2.length = wt.length := by
  obtain ⟨hlt, hv⟩ := (mem_rows fmat wt p).mp hp
  rw [hv, wrow, applyWt, List.length_zipWith]
  have : (fmat.getD p.1 []) ∈ fmat := by
    rw [List.getD_eq_getElem?_getD, List.getElem?_eq_getElem hlt]; simp
  rw [hrect _ this]; simp

theorem efficientIdx_eq (fmat : List (List α)) (wt : List α) :
    efficientIdx fmat wt = (paretoGo wdI [] (rows fmat wt)).map Prod.fst := by
  unfold efficientIdx
  have := loop_eq_paretoGo (rows fmat wt).length [] (rows fmat wt) (le_refl _)
  simp only [List.nil_append, List.length_nil] at this
  show (loop (rows fmat wt).length (rows fmat wt) 0).map Prod.fst = _
  rw [this]

/-- all three facts about the index form, for rectangular inputs of any size -/
theorem filter_facts (fmat : List (List α)) (wt : List α) (hrect : ∀ r ∈ fmat, r.length = wt.length) :
    let res := paretoGo wdI [] (rows fmat wt)
    (∀ x ∈ res, x ∈ rows fmat wt) ∧
    (∀ r ∈ rows fmat wt, r ∉ res → ∃ s ∈ res, wdI r s = true) ∧
    (∀ x ∈ res, ∀ y ∈ rows fmat wt, wdI x y = true → wdI y x = true) := by
  apply pareto_correct wdI (rows fmat wt)
  · intro a _; exact weakDom_refl _
  · intro a ha b hb c hc
    exact weakDom_trans _ _ _
      ((rows_length_eq fmat wt hrect a ha).trans (rows_length_eq fmat wt hrect b hb).symm)
      ((rows_length_eq fmat wt hrect b hb).trans (rows_length_eq fmat wt hrect c hc).symm)
  · exact rows_nodup fmat wt

end filter

end C19
