/-
Lemmas/LabelMatRepair2.lean — what is proved of the REPAIRED models of the recorded defects D14 / D14b / D27
(patches/C03_D14.diff, C03_D27.diff; the square trait class of D14b follows the same scheme):

  * `reorder_of_select` : whenever `select_<k>(ix)` succeeds, `reorder_<k>(ix)` leaves exactly the state it returns
    (the mutating / non-mutating pair the repaired incorp / insert are built from);
  * `squareIncorpRepaired_of_insert` : the repaired `incorp_taxa` (append, reorder) leaves the state the repaired
    `insert_taxa` (adjoin, select) returns — "mutating = non-mutating" for the repair;
  * `squareConcatRepaired` : the repaired `concat_taxa` = successive block-diagonal adjoins.
-/
import PybropsModel.Lemmas.LabelMatRepair
import PybropsModel.Lemmas.LabelMatMisc
import PybropsModel.Model.LabelMatX

set_option autoImplicit false
set_option linter.unusedVariables false

namespace LabelMat

variable {α lab : Type}

/-- `select_<k>(ix)` succeeded ⇒ `reorder_<k>(ix)` leaves the same state (classes whose non-mutating methods keep
    every bundle) -/
theorem reorder_of_select {sch : Schema} (hd : sch.pureDropsOther = false) {k : Kind} {is : List Int}
    {s s' : St α lab} (h : selectK sch k is s = .ok s') : reorderK sch k is s = .ok s' := by
  unfold selectK at h
  unfold reorderK reorderKPre
  simp only [bind, Except.bind, pure, Except.pure] at h ⊢
  split at h
  · cases h
  · split at h
    · cases h
    · rename_i ix hix
      rw [newObj_eq sch hd] at h
      rw [checkCtor_ok h]
      rename_i hne _
      rw [if_neg hne]

/-- **mutating = non-mutating for the repair of D14**: if the repaired `insert_taxa(p, block)` (adjoin, then select by
    `insertPerm`) returns `s'`, the repaired `incorp_taxa(p, block)` (append, then reorder by the same permutation)
    leaves exactly `s'`. -/
theorem squareIncorpRepaired_of_insert [BEq lab] (le : lab → lab → Bool) (sch : Schema)
    (hd : sch.pureDropsOther = false) (fill : α) (k : Kind) (n q p : Nat) (v : Operand α lab) (s s' : St α lab)
    (h : run le sch fill true (squareInsertRepaired k n q p v) s = .ok s') :
    run le sch fill true (squareIncorpRepaired k n q p v) s = .ok s' := by
  simp only [squareInsertRepaired, squareIncorpRepaired, run, step, bind, Except.bind, pure, Except.pure,
    if_true] at h ⊢
  split at h
  · cases h
  · rename_i s1 h1
    rw [append_of_adjoin hd h1]
    simp only []
    split at h
    · cases h
    · rename_i s2 h2
      cases h
      rw [reorder_of_select hd h2]

/-- the executable repaired pair the driver runs in repair-validation mode: whenever the repaired `insert_<k>(obj, block)`
    returns a state (any position form), the repaired `incorp_<k>(obj, block)` leaves exactly that state -/
theorem incorpRepairedK_of_insert {sch : Schema} (hd : sch.pureDropsOther = false) {k : Kind} {fill : α} {obj : InsIdx}
    {v : Operand α lab} {s s' : St α lab} (h : insertRepairedK sch k fill obj v s = .ok s') :
    incorpRepairedK sch k fill obj v s = .ok s' := by
  unfold insertRepairedK at h
  unfold incorpRepairedK
  simp only [bind, Except.bind] at h ⊢
  split at h
  · cases h
  · rename_i s1 h1
    rw [append_of_adjoin hd h1]
    simp only []
    split at h
    · cases h
    · rename_i ord hord
      exact reorder_of_select hd h

/-- for a single position `p ≤ n` the general permutation is `insertPerm` (the form the attachment theorems use) -/
theorem insertOrder_single (n q p : Nat) (hp : p ≤ n) :
    insertOrder n q (.list [Int.ofNat p]) = .ok (insertPerm n q p) := by
  simp [insertOrder, insertCol, insPlan, insOfPositions, normIns, InsPlan.op, insertPerm, hp, bind, Except.bind,
    pure, Except.pure, List.mapM_cons, List.mapM_nil]

/-- (pre-repair form) a 0-d ndarray position along a LEADING axis (taxa axis 0 of the unphased / trait / breeding-value
    matrices): numpy's scalar rule is then the plain block insert, so labels stayed attached — the defect D17b needed a
    non-leading axis -/
theorem insertZeroDim_leading_attached (sch : Schema) (hwf : sch.WF) (k : Kind) (hax : sch.axes k = [0])
    (mutating : Bool) (i : Int) (v : Operand α lab) (s s' : St α lab) (hd : sch.pureDropsOther = false)
    (hcs : consistentOK sch s = true) (hcv : consistentOK sch (operandState s k v) = true)
    (hlen : (s.bundle k).cols.length = v.cols.length)
    (h : (if mutating then incorpZeroDimKPrerepair sch k i v s else insertZeroDimKPrerepair sch k i v s) = .ok s')
    (c : LCell α lab) (hc : IsLCell sch s' c) : IsLCell sch s c ∨ IsLCell sch (operandState s k v) c := by
  have core : ∃ t, insertCoreRaw sch k (.int i) v s = .ok t ∧ s'.mat = t.mat ∧
      ∀ kk, (s'.bundle kk).cols = (t.bundle kk).cols := by
    cases mutating with
    | true =>
      simp only [if_true, incorpZeroDimKPrerepair] at h
      exact ⟨s', h, rfl, fun _ => rfl⟩
    | false =>
      simp only [Bool.false_eq_true, if_false, insertZeroDimKPrerepair, bind, Except.bind] at h
      split at h
      · cases h
      · rename_i t ht
        rw [newObj_eq sch hd] at h
        rw [checkCtor_ok h]
        exact ⟨t, ht, freshK_mat k t, fun kk => freshK_cols k kk t⟩
  obtain ⟨t, ht, hm, hcols⟩ := core
  obtain ⟨hcompat, hb, _, _⟩ := insertCoreRaw_form hax (by decide) ht (show InsOK 0 (.int i) from rfl) hcs hcv
  have hc' : IsLCell sch t c := (isLCell_congr sch s' t hm hcols c).mp hc
  exact binaryForm_attached sch hwf k 0 hax (by decide) s v t hcs hcv hcompat hlen hb c hc'

end LabelMat
