/-
Helper lemmas for C19: which of several equal-valued points the filter keeps.  The loop keeps the
alive list in input order and closed under "earlier point with the same weighted vector", so exactly
the FIRST point of every efficient vector is marked; two marked points never have equal vectors.
-/
import PybropsModel.Lemmas.ParetoSpecMask
set_option autoImplicit false
set_option linter.unusedSectionVars false

namespace C19
open Pareto

section first
variable {α : Type} [Mul α] [LinearOrder α]

/-- second invariant of the two-list form on indexed rows -/
structure KInv (orig done rest : List (Nat × List α)) : Prop where
  sorted : (done ++ rest).Pairwise (fun a b => a.1 < b.1)
  early : ∀ y ∈ done ++ rest, ∀ x ∈ orig, x.1 < y.1 → x.2 = y.2 → x ∈ done ++ rest

theorem mem_step (done rest : List (Nat × List α)) (p z : Nat × List α) :
    z ∈ done.filter (fun r => !wdI r p) ++ [p] ++ rest.filter (fun r => !wdI r p) ↔
      (z = p ∨ (z ∈ done ++ rest ∧ wdI z p = false)) := by
  simp only [List.mem_append, List.mem_filter, List.mem_singleton, Bool.not_eq_true']
  tauto

theorem KInv_step (orig done rest : List (Nat × List α)) (p : Nat × List α)
    (hinv : PInv wdI orig done (p :: rest)) (hk : KInv orig done (p :: rest)) :
    KInv orig (done.filter (fun r => !wdI r p) ++ [p]) (rest.filter (fun r => !wdI r p)) := by
  constructor
  · refine hk.sorted.sublist ?_
    rw [List.append_assoc]
    apply List.Sublist.append List.filter_sublist
    simp only [List.cons_append, List.nil_append]
    exact List.Sublist.cons_cons _ List.filter_sublist
  · intro y hy x hx hlt heq
    have hy' := (mem_step done rest p y).mp hy
    have hyold : y ∈ done ++ p :: rest := by
      rcases hy' with rfl | ⟨h, _⟩
      · simp
      · rcases List.mem_append.mp h with h | h
        · exact List.mem_append.mpr (Or.inl h)
        · exact List.mem_append.mpr (Or.inr (List.mem_cons_of_mem _ h))
    have hxold := hk.early y hyold x hx hlt heq
    rcases hy' with rfl | ⟨_, hyp⟩
    · -- y is the pivot: an earlier alive point with the same vector would sit in `done`
      exfalso
      have hsorted := hk.sorted
      rw [List.pairwise_append] at hsorted
      obtain ⟨_, hpr, _⟩ := hsorted
      rw [List.pairwise_cons] at hpr
      have hxd : x ∈ done := by
        rcases List.mem_append.mp hxold with h | h
        · exact h
        · rcases List.mem_cons.mp h with h | h
          · subst h; exact absurd hlt (lt_irrefl _)
          · exact absurd (hpr.1 x h) (not_lt.mpr hlt.le)
      have hne : y ≠ x := fun h => by subst h; exact lt_irrefl _ hlt
      have := hinv.piv x hxd y (by simp) hne
      have hw : wdI y x = true := by
        show weakDom y.2 x.2 = true
        rw [heq]; exact weakDom_refl _
      rw [hw] at this
      exact Bool.noConfusion this
    · by_cases hxp : x = p
      · exact (mem_step done rest p x).mpr (Or.inl hxp)
      · refine (mem_step done rest p x).mpr (Or.inr ⟨?_, ?_⟩)
        · rcases List.mem_append.mp hxold with h | h
          · exact List.mem_append.mpr (Or.inl h)
          · rcases List.mem_cons.mp h with h | h
            · exact absurd h hxp
            · exact List.mem_append.mpr (Or.inr h)
        · show weakDom x.2 p.2 = false
          rw [heq]; exact hyp

theorem paretoGo_inv2 (orig : List (Nat × List α))
    (trans : ∀ a ∈ orig, ∀ b ∈ orig, ∀ c ∈ orig, wdI a b = true → wdI b c = true → wdI a c = true) :
    ∀ (n : ℕ) (done rest : List (Nat × List α)), rest.length = n → (done ++ rest).Nodup →
      PInv wdI orig done rest → KInv orig done rest →
      PInv wdI orig (paretoGo wdI done rest) [] ∧ KInv orig (paretoGo wdI done rest) [] := by
  intro n
  induction n using Nat.strong_induction_on with
  | _ n ih =>
    intro done rest hlen hnd hinv hk
    cases rest with
    | nil => rw [paretoGo]; exact ⟨hinv, hk⟩
    | cons p rest =>
      rw [paretoGo]
      refine ih (rest.filter (fun r => !wdI r p)).length ?_ _ _ rfl (nodup_step wdI done rest p hnd)
        (PInv_step wdI orig trans done rest p hinv) (KInv_step orig done rest p hinv hk)
      rw [← hlen]; simp only [List.length_cons]
      exact Nat.lt_succ_of_le (List.length_filter_le _ _)

theorem rows_fst (fmat : List (List α)) (wt : List α) :
    (rows fmat wt).map Prod.fst = List.range fmat.length := by
  simp only [rows, List.map_map]
  have : (Prod.fst ∘ fun ri : List α × Nat => (ri.2, ri.1)) = Prod.snd := rfl
  rw [this]
  rw [List.zipIdx_eq_zip_range', List.map_snd_zip (by simp), List.range_eq_range', List.length_map]

theorem rows_sorted (fmat : List (List α)) (wt : List α) :
    (rows fmat wt).Pairwise (fun a b => a.1 < b.1) := by
  have h : ((rows fmat wt).map Prod.fst).Pairwise (· < ·) := by
    rw [rows_fst]; exact List.pairwise_lt_range
  exact List.pairwise_map.mp h

/-- the final state of the filter satisfies both invariants (rectangular input) -/
theorem filter_final (fmat : List (List α)) (wt : List α) (hrect : ∀ r ∈ fmat, r.length = wt.length) :
    PInv wdI (rows fmat wt) (paretoGo wdI [] (rows fmat wt)) [] ∧
    KInv (rows fmat wt) (paretoGo wdI [] (rows fmat wt)) [] := by
  apply paretoGo_inv2 (rows fmat wt) ?_ (rows fmat wt).length [] (rows fmat wt) rfl
    (by simpa using rows_nodup fmat wt)
  · exact ⟨by simp, fun r hr hn => absurd (by simpa using hr) hn, by simp⟩
  · exact ⟨by simpa using rows_sorted fmat wt, fun y hy _ _ _ _ => by simpa using ‹_›⟩
  · intro a ha b hb c hc
    exact weakDom_trans _ _ _
      ((rows_length_eq fmat wt hrect a ha).trans (rows_length_eq fmat wt hrect b hb).symm)
      ((rows_length_eq fmat wt hrect b hb).trans (rows_length_eq fmat wt hrect c hc).symm)

/-- two marked points never carry the same weighted vector -/
theorem result_distinct (fmat : List (List α)) (wt : List α) (hrect : ∀ r ∈ fmat, r.length = wt.length)
    (x y : Nat × List α) (hx : x ∈ paretoGo wdI [] (rows fmat wt)) (hy : y ∈ paretoGo wdI [] (rows fmat wt))
    (hv : x.2 = y.2) : x = y := by
  by_contra hne
  have := (filter_final fmat wt hrect).1.piv y hy x (by simpa using hx) hne
  have hw : wdI x y = true := by
    show weakDom x.2 y.2 = true
    rw [hv]; exact weakDom_refl _
  rw [hw] at this
  exact Bool.noConfusion this

/-- a marked point has no earlier point with the same weighted vector -/
theorem result_first (fmat : List (List α)) (wt : List α) (hrect : ∀ r ∈ fmat, r.length = wt.length)
    (y : Nat × List α) (hy : y ∈ paretoGo wdI [] (rows fmat wt)) (x : Nat × List α) (hx : x ∈ rows fmat wt)
    (hlt : x.1 < y.1) : x.2 ≠ y.2 := by
  intro hv
  have hxin := (filter_final fmat wt hrect).2.early y (by simpa using hy) x hx hlt hv
  have := result_distinct fmat wt hrect x y (by simpa using hxin) hy hv
  rw [this] at hlt
  exact lt_irrefl _ hlt

end first
end C19
