/-
Helper lemmas for C13: the list-level linear algebra of `Model/Coancestry.lean` expressed through
`Finset` sums over index ranges (`Np.sum`, `Np.dot`, `sumRange`, entries of `mulT`, `mapMat`, `zipMat`,
`center`), so that the property theorems become finite-sum algebra.
-/
import Mathlib.Tactic
import PybropsModel.Model.Coancestry
set_option autoImplicit false
set_option linter.unusedSectionVars false

namespace Coancestry
open Finset

/-- a rectangular `n × m` nested list -/
def Rect {α : Type} (n m : Nat) (X : List (List α)) : Prop := X.length = n ∧ ∀ r ∈ X, r.length = m

section getD
variable {α : Type}

theorem getD_zipWith {β γ : Type} (f : α → β → γ) (r : List α) (s : List β) (k : Nat) (d : γ) (a : α) (b : β)
    (hr : k < r.length) (hs : k < s.length) :
    (List.zipWith f r s).getD k d = f (r.getD k a) (s.getD k b) := by
  simp [List.getD_eq_getElem?_getD, List.getElem?_zipWith, List.getElem?_eq_getElem hr,
    List.getElem?_eq_getElem hs]

theorem getD_map' {β : Type} (f : α → β) (r : List α) (k : Nat) (d : β) (a : α) (hr : k < r.length) :
    (r.map f).getD k d = f (r.getD k a) := by
  simp [List.getD_eq_getElem?_getD, List.getElem?_eq_getElem hr]

end getD

section semiring
variable {α : Type} [Semiring α]

theorem npsum_eq_sum (l : List α) : Np.sum l = l.sum := by
  unfold Np.sum
  rw [List.sum_eq_foldl]

theorem list_sum_eq_range (l : List α) (m : Nat) (h : l.length = m) :
    l.sum = ∑ k ∈ range m, l.getD k 0 := by
  induction l generalizing m with
  | nil => subst h; simp
  | cons a l ih =>
    subst h
    rw [List.length_cons, Finset.sum_range_succ', List.sum_cons, ih l.length rfl, add_comm]
    simp

theorem sumRange_eq (m : Nat) (f : Nat → α) : sumRange m f = ∑ k ∈ range m, f k := by
  unfold sumRange
  induction m with
  | zero => simp
  | succ m ih => rw [List.range_succ, List.foldl_append, ih, Finset.sum_range_succ]; simp

theorem dot_eq (r s : List α) (m : Nat) (hr : r.length = m) (hs : s.length = m) :
    Np.dot r s = ∑ k ∈ range m, r.getD k 0 * s.getD k 0 := by
  unfold Np.dot
  rw [npsum_eq_sum, list_sum_eq_range _ m (by simp [hr, hs])]
  apply Finset.sum_congr rfl
  intro k hk
  rw [Finset.mem_range] at hk
  exact getD_zipWith _ r s k 0 0 0 (hr ▸ hk) (hs ▸ hk)

end semiring

section shape
variable {α : Type}

theorem Rect.row {n m : Nat} {X : List (List α)} (h : Rect n m X) {i : Nat} (hi : i < n) :
    (X.getD i []).length = m := by
  have hi' : i < X.length := h.1 ▸ hi
  rw [List.getD_eq_getElem?_getD, List.getElem?_eq_getElem hi', Option.getD_some]
  exact h.2 _ (List.getElem_mem hi')

theorem Rect.mapMat {β : Type} {n m : Nat} {X : List (List α)} (h : Rect n m X) (f : α → β) :
    Rect n m (mapMat f X) := by
  refine ⟨by simp [Coancestry.mapMat, h.1], ?_⟩
  intro r hr
  simp only [Coancestry.mapMat, List.mem_map] at hr
  obtain ⟨r', hr', rfl⟩ := hr
  simp [h.2 r' hr']

end shape

section entries
variable {α : Type} [Semiring α]

theorem entry_mapMat {β : Type} [Zero β] (f : α → β) (X : List (List α)) (n m i j : Nat) (h : Rect n m X)
    (hi : i < n) (hj : j < m) : entry (mapMat f X) i j = f (entry X i j) := by
  have hi' : i < X.length := h.1 ▸ hi
  have hrow := h.row hi
  unfold entry mapMat
  rw [getD_map' (α := List α) (fun r => r.map f) X i [] [] hi']
  exact getD_map' f _ j 0 0 (hrow ▸ hj)

theorem entry_zipMat {β γ : Type} [Zero β] [Zero γ] (f : α → β → γ) (A : List (List α)) (B : List (List β))
    (n m i j : Nat) (hA : Rect n m A) (hB : Rect n m B) (hi : i < n) (hj : j < m) :
    entry (zipMat f A B) i j = f (entry A i j) (entry B i j) := by
  unfold entry zipMat
  rw [getD_zipWith (α := List α) (fun r s => List.zipWith f r s) A B i [] [] [] (hA.1 ▸ hi) (hB.1 ▸ hi)]
  exact getD_zipWith f _ _ j 0 0 0 ((hA.row hi) ▸ hj) ((hB.row hi) ▸ hj)

theorem Rect.mulT {n m k : Nat} {A B : List (List α)} (hA : Rect n m A) (hB : Rect k m B) :
    Rect n k (mulT A B) := by
  refine ⟨by simp [Coancestry.mulT, hA.1], ?_⟩
  intro r hr
  simp only [Coancestry.mulT, List.mem_map] at hr
  obtain ⟨r', _, rfl⟩ := hr
  simp [hB.1]

/-- entry `(i,j)` of `A @ B.T` is the dot product of row `i` of `A` and row `j` of `B` -/
theorem entry_mulT (A B : List (List α)) (n k m i j : Nat) (hA : Rect n m A) (hB : Rect k m B)
    (hi : i < n) (hj : j < k) :
    entry (mulT A B) i j = ∑ l ∈ range m, entry A i l * entry B j l := by
  have hi' : i < A.length := hA.1 ▸ hi
  have hj' : j < B.length := hB.1 ▸ hj
  unfold entry mulT
  rw [getD_map' (α := List α) (fun r => B.map (fun s => Np.dot r s)) A i [] [] hi']
  rw [getD_map' (α := List α) (fun s => Np.dot (A.getD i []) s) B j 0 [] hj']
  exact dot_eq _ _ m (hA.row hi) (hB.row hj)

end entries

end Coancestry
