/-
Helper lemmas for C01, the converse direction of the Spec (completeness): what the mosaic clause of
the Spec accepts can be produced by the model for suitable non-negative draws.
 * `perMarker_realises`  a mosaic of the two copies of an individual that starts on copy 0 (or at a
                         marker with positive crossover probability) is the gamete for some draws
 * `meiosisE_realises`   a whole gamete matrix
 * `mateE_realises`      a whole `mat_mate` result
-/
import Mathlib.Tactic
import PybropsModel.Lemmas.Pedigree
set_option autoImplicit false
set_option linter.unusedSectionVars false

namespace Mating
open Meiosis
variable {α ρ : Type} [LinearOrder ρ] [Zero ρ]

/-- a draw that makes no crossover at a marker with probability `x`, and is non-negative -/
theorem no_cross_draw (x : ρ) : (0 : ρ) ≤ max x 0 ∧ ¬ (max x 0 < x) :=
  ⟨le_max_right x 0, not_lt.mpr (le_max_left x 0)⟩

theorem perMarker_realises : ∀ (xo : List ρ) (h0 h1 g : List α) (ph : Bool),
    h0.length = xo.length → h1.length = xo.length →
    MosaicFrom (if ph then h1 else h0) [h0, h1] xo g →
    ∃ r : List ρ, r.length = xo.length ∧ (∀ y ∈ r, (0 : ρ) ≤ y) ∧
      Meiosis.perMarker (xoMask r xo) ph h0 h1 = g := by
  intro xo
  induction xo with
  | nil =>
    intro h0 h1 g ph _ _ hm
    cases g with
    | nil => exact ⟨[], rfl, by simp, by simp [xoMask, Meiosis.perMarker]⟩
    | cons a t => simp [MosaicFrom] at hm
  | cons x xs ih =>
    intro h0 h1 g ph l0 l1 hm
    cases g with
    | nil => simp [MosaicFrom] at hm
    | cons a g' =>
    cases h0 with
    | nil => simp at l0
    | cons a0 t0 =>
    cases h1 with
    | nil => simp at l1
    | cons a1 t1 =>
      simp only [MosaicFrom, List.map_cons, List.map_nil, List.tail_cons] at hm
      obtain ⟨nxt, hmem, hc, hhead, hrest⟩ := hm
      have lt0 : t0.length = xs.length := by simpa using l0
      have lt1 : t1.length = xs.length := by simpa using l1
      -- the phase after this marker: stay if the chosen source is the current one
      have key : ∃ ph' : Bool, (if ph' then a1 :: t1 else a0 :: t0) = nxt ∧ (ph' = ph ∨ 0 < x) := by
        by_cases hcur : nxt = (if ph then a1 :: t1 else a0 :: t0)
        · exact ⟨ph, hcur.symm, Or.inl rfl⟩
        · have hx : 0 < x := by
            rcases hc with h | h
            · exact absurd h hcur
            · exact h
          simp only [List.mem_cons, List.not_mem_nil, or_false] at hmem
          cases ph
          · rcases hmem with h | h
            · exact absurd (by simpa using h) hcur
            · exact ⟨true, by simpa using h.symm, Or.inr hx⟩
          · rcases hmem with h | h
            · exact ⟨false, by simpa using h.symm, Or.inr hx⟩
            · exact absurd (by simpa using h) hcur
      obtain ⟨ph', hsrc, hstep⟩ := key
      have htail : (if ph' then t1 else t0) = nxt.tail := by rw [← hsrc]; cases ph' <;> rfl
      have ha : (if ph' then a1 else a0) = a := by
        rw [← hsrc] at hhead
        cases ph' <;> simpa using hhead
      rw [← htail] at hrest
      obtain ⟨r', lr', nn', hr'⟩ := ih t0 t1 g' ph' lt0 lt1 hrest
      -- the draw at this marker
      have hdraw : ∃ r0 : ρ, (0 : ρ) ≤ r0 ∧ xor ph (decide (r0 < x)) = ph' := by
        by_cases he : ph' = ph
        · refine ⟨max x 0, (no_cross_draw x).1, ?_⟩
          simp [(no_cross_draw x).2, he]
        · have hx : 0 < x := by
            rcases hstep with h | h
            · exact absurd h he
            · exact h
          refine ⟨0, le_refl _, ?_⟩
          simp only [hx, decide_true, Bool.xor_true]
          cases ph <;> cases ph' <;> simp_all
      obtain ⟨r0, hr0, hflip⟩ := hdraw
      refine ⟨r0 :: r', by simp [lr'], ?_, ?_⟩
      · intro y hy
        rcases List.mem_cons.mp hy with rfl | hy
        · exact hr0
        · exact nn' y hy
      · simp only [xoMask, List.zipWith_cons_cons, Meiosis.perMarker, hflip, ha]
        exact congrArg _ hr'

/-- a mosaic of the two copies of an individual is one of its gametes, for suitable non-negative draws,
    provided the first marker has positive crossover probability (the start phase is then free) -/
theorem gamete_realises (xo : List ρ) (ind : Ind α) (g : List α)
    (l0 : ind.1.length = xo.length) (l1 : ind.2.length = xo.length)
    (hstart : ∀ x, xo.head? = some x → 0 < x) (hm : Mosaic [ind.1, ind.2] xo g) :
    ∃ r : List ρ, r.length = xo.length ∧ (∀ y ∈ r, (0 : ρ) ≤ y) ∧ gamete ind (xoMask r xo) = g := by
  obtain ⟨cur, _, hmf⟩ := hm
  have hmf0 : MosaicFrom ind.1 [ind.1, ind.2] xo g := by
    cases xo with
    | nil => cases g with
      | nil => simp [MosaicFrom]
      | cons a t => simp [MosaicFrom] at hmf
    | cons x xs =>
      cases g with
      | nil => simp [MosaicFrom] at hmf
      | cons a t =>
        simp only [MosaicFrom] at hmf ⊢
        obtain ⟨nxt, h1, _, h3, h4⟩ := hmf
        exact ⟨nxt, h1, Or.inr (hstart x rfl), h3, h4⟩
  obtain ⟨r, lr, nn, hr⟩ := perMarker_realises xo ind.1 ind.2 g false l0 l1 (by simpa using hmf0)
  exact ⟨r, lr, nn, by simpa [gamete] using hr⟩

/-- a whole gamete matrix -/
theorem meiosisE_realises (xo : List ρ) (pop : Pop α) (hs : Shaped xo pop)
    (hstart : ∀ x, xo.head? = some x → 0 < x) : ∀ (sel : List Nat) (gs : List (Hap α)),
    List.Forall₂ (fun s g => ∃ F, pop[s]? = some F ∧ Mosaic [F.1, F.2] xo g) sel gs →
    ∃ rnd : DrawMat ρ, drawsShaped sel.length xo.length rnd = true ∧ (∀ r ∈ rnd, ∀ y ∈ r, (0 : ρ) ≤ y) ∧
      meiosisE pop sel xo rnd = .ok gs := by
  intro sel gs h
  induction h with
  | nil => exact ⟨[], by simp [drawsShaped], by simp, by simp [meiosisE, drawsShaped, rowsE]⟩
  | @cons s g sel' gs' hab _ ih =>
    obtain ⟨F, hF, hm⟩ := hab
    obtain ⟨rnd, hsh, hnn, hme⟩ := ih
    have hmem : F ∈ pop := List.mem_of_getElem? hF
    obtain ⟨r, lr, nr, hr⟩ := gamete_realises xo F g (hs F hmem).1 (hs F hmem).2 hstart hm
    simp only [drawsShaped, Bool.and_eq_true, beq_iff_eq, List.all_eq_true] at hsh
    refine ⟨r :: rnd, ?_, ?_, ?_⟩
    · simp only [drawsShaped, List.length_cons, Bool.and_eq_true, beq_iff_eq, List.all_eq_true, List.mem_cons]
      refine ⟨by omega, ?_⟩
      rintro y (rfl | hy)
      · exact lr
      · exact hsh.2 y hy
    · intro y hy
      rcases List.mem_cons.mp hy with rfl | hy
      · exact nr
      · exact hnn y hy
    · have hrows : rowsE pop xo sel' rnd = .ok gs' := by
        simp only [meiosisE] at hme
        split at hme
        · exact hme
        · simp at hme
      have hgl : gameteLoop F (xoMask r xo) = g := by
        rw [gameteLoop_eq_gamete F _ (by simp [xoMask, lr, (hs F hmem).1]) (by simp [xoMask, lr, (hs F hmem).2])]
        exact hr
      have hshape : drawsShaped (s :: sel').length xo.length (r :: rnd) = true := by
        simp only [drawsShaped, List.length_cons, Bool.and_eq_true, beq_iff_eq, List.all_eq_true, List.mem_cons]
        refine ⟨by omega, ?_⟩
        rintro y (rfl | hy)
        · exact lr
        · exact hsh.2 y hy
      simp only [meiosisE, hshape, if_true, rowsE, hF, List.tail_cons, hrows, List.headD_cons, hgl]

/-- a whole `mat_mate` result: every row a child of the selected female and male -/
theorem mateE_realises (xo : List ρ) (fpop mpop : Pop α) (hf : Shaped xo fpop) (hm : Shaped xo mpop)
    (hstart : ∀ x, xo.head? = some x → 0 < x) (fsel msel : List Nat) (out : Pop α) (rest : List (DrawMat ρ))
    (hl : fsel.length = msel.length)
    (h : List.Forall₂ (fun (ss : Nat × Nat) c => ∃ F M, fpop[ss.1]? = some F ∧ mpop[ss.2]? = some M ∧ Child xo F M c)
      (List.zip fsel msel) out) :
    ∃ rf rm : DrawMat ρ, Nonneg [rf, rm] ∧ mateE fpop mpop fsel msel xo (rf :: rm :: rest) = .ok (out, rest) := by
  have hlen : (List.zip fsel msel).length = out.length := h.length_eq
  have ho : out = List.zip (out.map Prod.fst) (out.map Prod.snd) := by
    clear h hlen
    induction out with
    | nil => rfl
    | cons c t ih => simp only [List.map_cons, List.zip_cons_cons]; rw [← ih]
  have h1 : List.Forall₂ (fun s g => ∃ F, fpop[s]? = some F ∧ Mosaic [F.1, F.2] xo g) fsel (out.map Prod.fst) := by
    rw [List.forall₂_iff_get]
    obtain ⟨_, hall⟩ := List.forall₂_iff_get.mp h
    refine ⟨by simp at hlen ⊢; omega, ?_⟩
    intro i hi1 hi2
    have hi : i < (List.zip fsel msel).length := by simp; simp at hi2; omega
    obtain ⟨F, M, hF, _, hc, _⟩ := hall i hi (by omega)
    simp only [List.get_eq_getElem, List.getElem_zip, List.getElem_map] at hF hc ⊢
    exact ⟨F, hF, hc⟩
  have h2 : List.Forall₂ (fun s g => ∃ M, mpop[s]? = some M ∧ Mosaic [M.1, M.2] xo g) msel (out.map Prod.snd) := by
    rw [List.forall₂_iff_get]
    obtain ⟨_, hall⟩ := List.forall₂_iff_get.mp h
    refine ⟨by simp at hlen ⊢; omega, ?_⟩
    intro i hi1 hi2
    have hi : i < (List.zip fsel msel).length := by simp; simp at hi2; omega
    obtain ⟨F, M, _, hM, _, hc⟩ := hall i hi (by omega)
    simp only [List.get_eq_getElem, List.getElem_zip, List.getElem_map] at hM hc ⊢
    exact ⟨M, hM, hc⟩
  obtain ⟨rf, _, nf, ef⟩ := meiosisE_realises xo fpop hf hstart fsel _ h1
  obtain ⟨rm, _, nm, em⟩ := meiosisE_realises xo mpop hm hstart msel _ h2
  refine ⟨rf, rm, ?_, ?_⟩
  · intro m hm'
    simp only [List.mem_cons, List.not_mem_nil, or_false] at hm'
    rcases hm' with rfl | rfl
    · exact nf
    · exact nm
  · simp only [mateE, ef, em, List.length_map, if_true]
    rw [← ho]

end Mating
