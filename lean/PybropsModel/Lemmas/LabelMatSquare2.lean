/-
Lemmas/LabelMatSquare2.lean — the square (taxa × taxa) bundles inside histories: shape consistency of the unary
edits along both axes, and the block-diagonal adjoin / append (cross blocks hold the class's fill value).
-/
import PybropsModel.Lemmas.LabelMatSquare
import PybropsModel.Lemmas.LabelMatHistory3

set_option autoImplicit false
set_option linter.unusedVariables false

namespace LabelMat

variable {α lab : Type}

/-! ### unary edits: shape consistency -/

theorem cons_of_unaryForm_square (sch : Schema) (hwf : sch.WF) (k : Kind) (hax : sch.axes k = [0, 1])
    (hlt : ∀ kk b, b ∈ sch.axes kk → b < 3)
    (s s' : St α lab) (hc : Cons sch s) (hp : PosDims s.mat) (hp' : PosDims s'.mat)
    (hu : UnaryForm sch k s s') : Cons sch s' := by
  obtain ⟨f, hf, hm, hcols⟩ := hu
  have hmat : s'.mat = axMap 1 f (axMap 0 f s.mat) := by rw [hm]; simp [applyK, hax]
  have hsq : axLen 0 s.mat = axLen 1 s.mat := hc.2.2 k 0 1 (by rw [hax]; simp) (by rw [hax]; simp)
  set n := axLen 0 s.mat with hn
  set p := prov f n with hpdef
  -- the result is not empty along the edited axes
  have hne : 0 < p.length := by
    by_contra h0
    have hz : (f _ s.mat).length = 0 := by
      rw [hf.length]; show p.length = 0; omega
    have he : axMap 0 f s.mat = [] := List.length_eq_zero_iff.mp hz
    rw [hmat, he] at hp'
    simp [PosDims, axMap, axLen] at hp'
  obtain ⟨hr1, hl0, hlb1⟩ := axMap_shape hf 0 (by decide) s.mat hc.1 hp hne
  have hp1 : PosDims (axMap 0 f s.mat) := by
    refine ⟨by rw [hl0]; exact hne, ?_, ?_⟩
    · rw [hlb1 1 (by decide) (by decide)]; exact hp.2.1
    · rw [hlb1 2 (by decide) (by decide)]; exact hp.2.2
  have hn1 : axLen 1 (axMap 0 f s.mat) = n := by rw [hlb1 1 (by decide) (by decide), ← hsq]
  have hne2 : 0 < (prov f (axLen 1 (axMap 0 f s.mat))).length := by rw [hn1]; exact hne
  obtain ⟨hr2, hl1, hlb2⟩ := axMap_shape hf 1 (by decide) (axMap 0 f s.mat) hr1 hp1 hne2
  rw [hn1] at hl1
  have e0 : axLen 0 s'.mat = p.length := by rw [hmat, hlb2 0 (by decide) (by decide), hl0]
  have e1 : axLen 1 s'.mat = p.length := by rw [hmat, hl1]
  have e2 : axLen 2 s'.mat = axLen 2 s.mat := by
    rw [hmat, hlb2 2 (by decide) (by decide), hlb1 2 (by decide) (by decide)]
  have hbk : ((applyK sch k f s).bundle k) = (s.bundle k).mapCols f := by simp [applyK]
  have hother : ∀ kk, kk ≠ k → ∀ b, b ∈ sch.axes kk → b = 2 := by
    intro kk hkk b hb
    have hb3 := hlt kk b hb
    have h0 : b ≠ 0 := by intro e; subst e; exact hkk (hwf 0 kk k hb (by rw [hax]; simp))
    have h1 : b ≠ 1 := by intro e; subst e; exact hkk (hwf 1 kk k hb (by rw [hax]; simp))
    omega
  refine ⟨by rw [hmat]; exact hr2, ?_, ?_⟩
  · intro kk b hb
    by_cases hk : kk = k
    · subst hk
      have hcl : ColsLen (s'.bundle kk) p.length := by
        refine colsLen_congr (b := (s.bundle kk).mapCols f) ?_ _
          (colsLen_mapCols hf _ _ (hc.2.1 kk 0 (by rw [hax]; simp)))
        rw [hcols kk, hbk]
      rw [hax] at hb
      simp only [List.mem_cons, List.mem_singleton, List.not_mem_nil, or_false] at hb
      rcases hb with rfl | rfl
      · rw [e0]; exact hcl
      · rw [e1]; exact hcl
    · have hb2 := hother kk hk b hb
      subst hb2
      rw [e2]
      have hbo : ((applyK sch k f s).bundle kk) = s.bundle kk := by
        simp [applyK, bundle_setBundle_ne _ _ _ _ hk]
      refine colsLen_congr (b := s.bundle kk) ?_ _ (hc.2.1 kk 2 hb)
      rw [hcols kk, hbo]
  · intro kk b1 b2 h1 h2
    by_cases hk : kk = k
    · subst hk
      rw [hax] at h1 h2
      simp only [List.mem_cons, List.mem_singleton, List.not_mem_nil, or_false] at h1 h2
      rcases h1 with rfl | rfl <;> rcases h2 with rfl | rfl <;> simp [e0, e1]
    · rw [hother kk hk b1 h1, hother kk hk b2 h2]

/-! ### block-diagonal adjoin / append -/

theorem getElem?_range_map {β : Type} (n i : Nat) (f : Nat → β) :
    ((List.range n).map f)[i]? = if i < n then some (f i) else none := by
  by_cases h : i < n
  · simp [h]
  · simp [h]

theorem cell_blockDiag01 (fill : α) (m v : Mat3 α) (i j l : Nat) :
    cell (blockDiag fill [0, 1] m v) i j l =
      if i < axLen 0 m + axLen 0 v ∧ j < axLen 1 m + axLen 1 v ∧ l < axLen 2 m then
        some (if i < axLen 0 m ∧ j < axLen 1 m then (cell m i j l).getD fill
              else if ¬ i < axLen 0 m ∧ ¬ j < axLen 1 m then (cell v (i - axLen 0 m) (j - axLen 1 m) l).getD fill
              else fill)
      else none := by
  unfold blockDiag
  simp only [cell, getElem?_range_map]
  by_cases hi : i < axLen 0 m + axLen 0 v
  · by_cases hj : j < axLen 1 m + axLen 1 v
    · by_cases hl : l < axLen 2 m
      · by_cases a0 : i < axLen 0 m <;> by_cases a1 : j < axLen 1 m <;>
          simp [hi, hj, hl, a0, a1, List.contains, List.elem]
      · simp [hi, hj, hl, List.contains, List.elem]
    · simp [hi, hj, List.contains, List.elem]
  · simp [hi, List.contains, List.elem]

theorem prov2_append_getElem? (n q y : Nat) (h : y < n + q) :
    (prov2 (fun _ l v => l ++ v) n q)[y]? = some y := by
  rw [prov2_append]
  by_cases hy : y < n
  · rw [List.getElem?_append_left (by simpa using hy)]
    simp [hy]
  · rw [List.getElem?_append_right (by simpa using Nat.le_of_not_lt hy)]
    simp only [List.length_range]
    rw [List.getElem?_range' (by omega)]
    congr 1
    omega

/-- the state after a block-diagonal adjoin: data, combined columns of bundle `k`, the rest untouched -/
structure SquareAdjoin (sch : Schema) (k : Kind) (fill : α) (s : St α lab) (v : Operand α lab) (s' : St α lab) :
    Prop where
  mat : s'.mat = blockDiag fill [0, 1] s.mat v.mat
  cols : zipCols (fun l lv => l ++ lv) (s.bundle k).cols v.cols = .ok (s'.bundle k).cols
  other : ∀ kk, kk ≠ k → (s'.bundle kk).cols = (s.bundle kk).cols

/-- **Block-diagonal adjoin / append keeps labels attached**: every labelled cell of the result is one of the
    receiver, one of the operand block, or a cross-block cell holding the fill value. -/
theorem squareAdjoin_attached (sch : Schema) (hwf : sch.WF) (k : Kind) (hax : sch.axes k = [0, 1]) (fill : α)
    (s : St α lab) (v : Operand α lab) (s' : St α lab)
    (hcs : consistentOK sch s = true) (hcv : consistentOK sch (operandState s k v) = true)
    (hlen : (s.bundle k).cols.length = v.cols.length)
    (hb : SquareAdjoin sch k fill s v s') (c : LCell α lab) (h : IsLCell sch s' c) :
    IsLCell sch s c ∨ IsLCell sch (operandState s k v) c ∨ c.val = fill := by
  obtain ⟨i, j, l, h⟩ := h
  rw [lcellAt_eq_some] at h
  obtain ⟨val, hv, rfl⟩ := h
  have hCs := (cons_iff _ _).mp hcs
  have hCv := (cons_iff _ _).mp hcv
  have hsq : axLen 0 s.mat = axLen 1 s.mat := hCs.2.2 k 0 1 (by rw [hax]; simp) (by rw [hax]; simp)
  have hsqv : axLen 0 v.mat = axLen 1 v.mat := by
    have := hCv.2.2 k 0 1 (by rw [hax]; simp) (by rw [hax]; simp)
    simpa [operandState_mat] using this
  set n := axLen 0 s.mat with hn
  set q := axLen 0 v.mat with hq
  have hcolS : ColsLen (s.bundle k) n := hCs.2.1 k 0 (by rw [hax]; simp)
  have hcolV : ColsLen (⟨v.cols, none⟩ : Bundle lab) q := by
    have := hCv.2.1 k 0 (by rw [hax]; simp)
    rw [operandState_bundle_same, operandState_mat] at this
    exact this
  rw [hb.mat, cell_blockDiag01] at hv
  split at hv
  · rename_i hrange
    obtain ⟨hi, hj, hl⟩ := hrange
    simp only [Option.some.injEq] at hv
    have hk0 : sch.kindOf 0 = some k := kindOf_of_mem hwf (by rw [hax]; simp)
    have hk1 : sch.kindOf 1 = some k := kindOf_of_mem hwf (by rw [hax]; simp)
    -- labels of bundle k at any in-range position
    have hlab : ∀ y, y < n + q → labelsAt (s'.bundle k) y =
        if y < n then labelsAt (s.bundle k) y else labelsAt ((operandState s k v).bundle k) (y - n) := by
      intro y hy
      rw [operandState_bundle_same]
      simp only [labelsAt_eq_colsAt]
      exact zipCols_labels natural2_append n q _ _ _ hb.cols hlen hcolS hcolV y y (prov2_append_getElem? n q y hy)
    have hax2S : ∀ z, axInfo sch s' 2 z = axInfo sch s 2 z := by
      intro z
      apply axInfo_congr
      · intro kk hkk
        have : kk ≠ k := by
          intro e; subst e
          have := kindOf_mem hkk
          rw [hax] at this; simp at this
        unfold labelsAt
        rw [hb.other kk this]
      · intro _; rfl
    have hax2V : ∀ z, axInfo sch s' 2 z = axInfo sch (operandState s k v) 2 z := by
      intro z
      rw [hax2S z]
      apply axInfo_congr
      · intro kk hkk
        have : kk ≠ k := by
          intro e; subst e
          have := kindOf_mem hkk
          rw [hax] at this; simp at this
        rw [operandState_bundle_ne _ _ _ _ this]
      · intro _; rfl
    have hselfS : ∀ b, (b = 0 ∨ b = 1) → ∀ y, y < n → axInfo sch s' b y = axInfo sch s b y := by
      intro b hb' y hy
      apply axInfo_congr
      · intro kk hkk
        have : kk = k := by
          rcases hb' with rfl | rfl
          · rw [hk0] at hkk; cases hkk; rfl
          · rw [hk1] at hkk; cases hkk; rfl
        subst this
        rw [hlab y (by omega), if_pos hy]
      · intro _; rfl
    have hselfV : ∀ b, (b = 0 ∨ b = 1) → ∀ y, ¬ y < n → y < n + q →
        axInfo sch s' b y = axInfo sch (operandState s k v) b (y - n) := by
      intro b hb' y hy hy2
      apply axInfo_congr
      · intro kk hkk
        have : kk = k := by
          rcases hb' with rfl | rfl
          · rw [hk0] at hkk; cases hkk; rfl
          · rw [hk1] at hkk; cases hkk; rfl
        subst this
        rw [hlab y hy2, if_neg hy]
      · intro hnone
        rcases hb' with rfl | rfl
        · rw [hk0] at hnone; cases hnone
        · rw [hk1] at hnone; cases hnone
    rw [← hsq, ← hsqv] at hj
    by_cases hA : i < n ∧ j < axLen 1 s.mat
    · rw [if_pos hA] at hv
      cases hcell : cell s.mat i j l with
      | none => rw [hcell] at hv; right; right; simpa using hv.symm
      | some x =>
        rw [hcell] at hv
        simp only [Option.getD_some] at hv
        subst hv
        left
        refine ⟨i, j, l, ?_⟩
        rw [lcellAt_eq_some]
        refine ⟨x, hcell, ?_⟩
        rw [hselfS 0 (Or.inl rfl) i hA.1, hselfS 1 (Or.inr rfl) j (by rw [hsq]; exact hA.2), hax2S l]
    · rw [if_neg hA] at hv
      by_cases hB : ¬ i < n ∧ ¬ j < axLen 1 s.mat
      · rw [if_pos hB] at hv
        cases hcell : cell v.mat (i - n) (j - axLen 1 s.mat) l with
        | none => rw [hcell] at hv; right; right; simpa using hv.symm
        | some x =>
          rw [hcell] at hv
          simp only [Option.getD_some] at hv
          subst hv
          right; left
          refine ⟨i - n, j - axLen 1 s.mat, l, ?_⟩
          rw [lcellAt_eq_some]
          refine ⟨x, by rw [operandState_mat]; exact hcell, ?_⟩
          have hjn : ¬ j < n := by rw [hsq]; exact hB.2
          rw [hselfV 0 (Or.inl rfl) i hB.1 hi, hselfV 1 (Or.inr rfl) j hjn hj, hax2V l, ← hsq]
      · rw [if_neg hB] at hv
        right; right; exact hv.symm
  · cases hv

end LabelMat

namespace LabelMat

variable {α lab : Type}

/-- an array built cell by cell over three ranges -/
def build3 (d0 d1 d2 : Nat) (h : Nat → Nat → Nat → α) : Mat3 α :=
  (List.range d0).map fun i => (List.range d1).map fun j => (List.range d2).map fun l => h i j l

theorem build3_shape (d0 d1 d2 : Nat) (h : Nat → Nat → Nat → α) (h0 : 0 < d0) (h1 : 0 < d1) :
    rect (build3 d0 d1 d2 h) = true ∧ axLen 0 (build3 d0 d1 d2 h) = d0 ∧ axLen 1 (build3 d0 d1 d2 h) = d1 ∧
      axLen 2 (build3 d0 d1 d2 h) = d2 := by
  have e0 : axLen 0 (build3 d0 d1 d2 h) = d0 := by simp [build3, axLen]
  have e1 : axLen 1 (build3 d0 d1 d2 h) = d1 := by
    obtain ⟨d0', rfl⟩ : ∃ d0', d0 = d0' + 1 := ⟨d0 - 1, by omega⟩
    simp [build3, axLen, List.range_succ_eq_map]
  have e2 : axLen 2 (build3 d0 d1 d2 h) = d2 := by
    obtain ⟨d0', rfl⟩ : ∃ d0', d0 = d0' + 1 := ⟨d0 - 1, by omega⟩
    obtain ⟨d1', rfl⟩ : ∃ d1', d1 = d1' + 1 := ⟨d1 - 1, by omega⟩
    simp [build3, axLen, List.range_succ_eq_map]
  refine ⟨?_, e0, e1, e2⟩
  rw [rect_iff, e1, e2]
  intro pl hpl
  simp only [build3, List.mem_map, List.mem_range] at hpl
  obtain ⟨i, _, rfl⟩ := hpl
  refine ⟨by simp, ?_⟩
  intro r hr
  simp only [List.mem_map, List.mem_range] at hr
  obtain ⟨j, _, rfl⟩ := hr
  simp

theorem blockDiag01_eq_build3 (fill : α) (m v : Mat3 α) :
    ∃ h, blockDiag fill [0, 1] m v = build3 (axLen 0 m + axLen 0 v) (axLen 1 m + axLen 1 v) (axLen 2 m) h := by
  refine ⟨fun i j l =>
    let pick (a i : Nat) : Option (Bool × Nat) :=
      if [0, 1].contains a then (if i < axLen a m then some (true, i) else some (false, i - axLen a m)) else none
    let ps := [pick 0 i, pick 1 j, pick 2 l].filterMap id
    let src (p : Option (Bool × Nat)) (x : Nat) : Nat := match p with | some (_, y) => y | none => x
    if ps.all (fun p => p.1) then (cell m (src (pick 0 i) i) (src (pick 1 j) j) (src (pick 2 l) l)).getD fill
    else if ps.all (fun p => !p.1) then (cell v (src (pick 0 i) i) (src (pick 1 j) j) (src (pick 2 l) l)).getD fill
    else fill, ?_⟩
  unfold blockDiag build3
  have c0 : ([0, 1] : List Nat).contains 0 = true := by decide
  have c1 : ([0, 1] : List Nat).contains 1 = true := by decide
  have c2 : ([0, 1] : List Nat).contains 2 = false := by decide
  simp only [c0, c1, c2, if_true, Bool.false_eq_true, if_false]
  rfl

/-- **Block-diagonal adjoin / append preserves shape consistency.** -/
theorem cons_squareAdjoin (sch : Schema) (hwf : sch.WF) (k : Kind) (hax : sch.axes k = [0, 1])
    (hlt : ∀ kk b, b ∈ sch.axes kk → b < 3) (fill : α)
    (s : St α lab) (v : Operand α lab) (s' : St α lab)
    (hc : Cons sch s) (hcv : Cons sch (operandState s k v)) (hp : PosDims s.mat)
    (hb : SquareAdjoin sch k fill s v s') : Cons sch s' ∧ PosDims s'.mat := by
  have hsq : axLen 0 s.mat = axLen 1 s.mat := hc.2.2 k 0 1 (by rw [hax]; simp) (by rw [hax]; simp)
  have hsqv : axLen 0 v.mat = axLen 1 v.mat := by
    have := hcv.2.2 k 0 1 (by rw [hax]; simp) (by rw [hax]; simp)
    simpa [operandState_mat] using this
  obtain ⟨h, hbd⟩ := blockDiag01_eq_build3 fill s.mat v.mat
  obtain ⟨hr, e0, e1, e2⟩ := build3_shape (axLen 0 s.mat + axLen 0 v.mat) (axLen 1 s.mat + axLen 1 v.mat)
    (axLen 2 s.mat) h (by have := hp.1; omega) (by have := hp.2.1; omega)
  rw [← hbd, ← hb.mat] at hr e0 e1 e2
  have hother : ∀ kk, kk ≠ k → ∀ b, b ∈ sch.axes kk → b = 2 := by
    intro kk hkk b hb'
    have hb3 := hlt kk b hb'
    have h0 : b ≠ 0 := by intro e; subst e; exact hkk (hwf 0 kk k hb' (by rw [hax]; simp))
    have h1 : b ≠ 1 := by intro e; subst e; exact hkk (hwf 1 kk k hb' (by rw [hax]; simp))
    omega
  have hcl : ColsLen (s'.bundle k) (axLen 0 s.mat + axLen 0 v.mat) := by
    intro l' hl'
    obtain ⟨l, lv, h1, h2, rfl⟩ := zipCols_mem _ _ _ hb.cols l' hl'
    have a1 := hc.2.1 k 0 (by rw [hax]; simp) l h1
    have a2 : lv.length = axLen 0 v.mat := by
      have := hcv.2.1 k 0 (by rw [hax]; simp)
      rw [operandState_bundle_same, operandState_mat] at this
      exact this lv h2
    rw [List.length_append, a1, a2]
  refine ⟨⟨hr, ?_, ?_⟩, ⟨by rw [e0]; have := hp.1; omega, by rw [e1]; have := hp.2.1; omega, by rw [e2]; exact hp.2.2⟩⟩
  · intro kk b hb'
    by_cases hk : kk = k
    · subst hk
      rw [hax] at hb'
      simp only [List.mem_cons, List.mem_singleton, List.not_mem_nil, or_false] at hb'
      rcases hb' with rfl | rfl
      · rw [e0]; exact hcl
      · rw [e1, ← hsq, ← hsqv]; exact hcl
    · have hb2 := hother kk hk b hb'
      subst hb2
      rw [e2]
      exact colsLen_congr (hb.other kk hk) _ (hc.2.1 kk 2 hb')
  · intro kk b1 b2 h1 h2
    by_cases hk : kk = k
    · subst hk
      rw [hax] at h1 h2
      simp only [List.mem_cons, List.mem_singleton, List.not_mem_nil, or_false] at h1 h2
      rcases h1 with rfl | rfl <;> rcases h2 with rfl | rfl <;> simp [e0, e1, hsq, hsqv]
    · rw [hother kk hk b1 h1, hother kk hk b2 h2]

/-- what `adjoinCore` does on a square bundle -/
theorem adjoinCore_square {sch : Schema} {k : Kind} (hax : sch.axes k = [0, 1]) {fill : α}
    {v : Operand α lab} {s s' : St α lab} (h : adjoinCore sch k fill v s = .ok s') :
    SquareAdjoin sch k fill s v s' := by
  unfold adjoinCore at h
  simp only [bind, Except.bind, pure, Except.pure] at h
  split at h
  · cases h
  · split at h
    · cases h
    · split at h
      · cases h
      · rename_i cols hcols
        cases h
        refine ⟨by simp [adjoinMat, hax], by simpa using hcols, ?_⟩
        intro kk hkk
        simp [bundle_setBundle_ne _ _ _ _ hkk]

end LabelMat
