/-
Helper lemmas for C05 (round 3): the selection step of RealLookAheadGeneralizedWeightedGenomicSelectionProblem
(`sel = wgebv.argsort()[::-1][:nparent]`) returns a top-k set of the scores.
-/
import Mathlib.Tactic
import PybropsModel.Lemmas.OptSort
import PybropsModel.Model.Selection
set_option autoImplicit false
set_option linter.unusedSectionVars false

namespace Selection
open Optimize

section lookahead
variable {α : Type} [Field α] [LinearOrder α] [IsStrictOrderedRing α]

theorem laSelect_eq (scores : List α) (k : Nat) :
    laSelect scores k = ((Np.argsort leB scores).reverse).take k := rfl

/-- the look-ahead selection step: `k` distinct valid indices (all of them when there are fewer than `k`
    candidates), and no unselected candidate scores higher than a selected one -/
theorem laSelect_topk (scores : List α) (k : Nat) :
    (laSelect scores k).Nodup ∧ (∀ i ∈ laSelect scores k, i < scores.length) ∧
    (laSelect scores k).length = min k scores.length ∧
    ∀ i ∈ laSelect scores k, ∀ j, j < scores.length → j ∉ laSelect scores k →
      scores.getD j 0 ≤ scores.getD i 0 := by
  rw [laSelect_eq]
  set a := Np.argsort leB scores with ha
  have hperm : a.Perm (List.range scores.length) := argsort_perm scores
  have hnd : a.reverse.Nodup := List.nodup_reverse.mpr (hperm.nodup_iff.mpr List.nodup_range)
  have hsorted : (a.map fun i => scores.getD i 0).Pairwise (· ≤ ·) := argsort_sorted scores 0
  have hdesc : a.reverse.Pairwise (fun i j => scores.getD j 0 ≤ scores.getD i 0) := by
    rw [List.pairwise_reverse]
    exact (List.pairwise_map.mp hsorted)
  refine ⟨hnd.sublist (List.take_sublist _ _), ?_, ?_, ?_⟩
  · intro i hi
    have : i ∈ a := List.mem_reverse.mp (List.mem_of_mem_take hi)
    exact List.mem_range.mp (hperm.subset this)
  · rw [List.length_take, List.length_reverse, hperm.length_eq, List.length_range]
  · intro i hi j hj hnot
    have hja : j ∈ a.reverse := List.mem_reverse.mpr (hperm.mem_iff.mpr (List.mem_range.mpr hj))
    have hsplit : a.reverse = a.reverse.take k ++ a.reverse.drop k := (List.take_append_drop k _).symm
    have hjd : j ∈ a.reverse.drop k := by
      rw [hsplit] at hja
      rcases List.mem_append.mp hja with h | h
      · exact absurd h hnot
      · exact h
    rw [hsplit] at hdesc
    exact (List.pairwise_append.mp hdesc).2.2 i hi j hjd

end lookahead
end Selection
