/-
Helper lemmas for C19: what the Boolean Spec oracles of the filter (`Pareto.specMask`, `Pareto.specIdx`)
decide, by index.
-/
import PybropsModel.Lemmas.ParetoSet
set_option autoImplicit false
set_option linter.unusedSectionVars false

namespace C19
open Pareto

section compress
variable {β : Type}

theorem mem_compress (m : List Bool) (l : List β) (x : β) :
    x ∈ Np.compress m l ↔ ∃ i, ∃ (h1 : i < m.length) (h2 : i < l.length), m[i] = true ∧ l[i] = x := by
  unfold Np.compress
  rw [List.mem_filterMap]
  constructor
  · rintro ⟨p, hp, hf⟩
    obtain ⟨i, hi, rfl⟩ := List.mem_iff_getElem.mp hp
    simp only [List.length_zip, lt_min_iff] at hi
    simp only [List.getElem_zip] at hf
    by_cases hm : m[i] = true
    · rw [if_pos hm] at hf
      exact ⟨i, hi.1, hi.2, hm, Option.some.inj hf⟩
    · rw [if_neg hm] at hf
      exact absurd hf (by simp)
  · rintro ⟨i, h1, h2, hm, rfl⟩
    refine ⟨(m[i], l[i]), ?_, by simp [hm]⟩
    rw [List.mem_iff_getElem]
    exact ⟨i, by simp [h1, h2], by simp⟩

end compress

section spec
variable {α : Type} [Mul α] [LinearOrder α]

theorem rows_getElem (fmat : List (List α)) (wt : List α) (i : Nat) (h : i < (fmat.map (applyWt wt)).length) :
    (fmat.map (applyWt wt))[i] = wrow fmat wt i := by
  have hi : i < fmat.length := by simpa using h
  simp [wrow, List.getD_eq_getElem?_getD, List.getElem?_eq_getElem hi]

/-- what `specRowsSound` decides -/
theorem specRowsSound_iff (fmat : List (List α)) (wt : List α) (mask : List Bool) (hlen : mask.length = fmat.length) :
    specRowsSound (fmat.map (applyWt wt)) mask = true ↔
      ∀ i (hi : i < mask.length), mask[i] = true → ∀ j, j < fmat.length →
        strictDom (wrow fmat wt j) (wrow fmat wt i) = false := by
  unfold specRowsSound
  rw [List.all_eq_true]
  constructor
  · intro h i hi hm j hj
    have hi' : i < (fmat.map (applyWt wt)).length := by simpa [← hlen] using hi
    have hj' : j < (fmat.map (applyWt wt)).length := by simpa using hj
    have he := h _ ((mem_compress mask _ _).mpr ⟨i, hi, hi', hm, rfl⟩)
    rw [List.all_eq_true] at he
    have := he _ (List.getElem_mem hj')
    rw [rows_getElem _ _ _ hi', rows_getElem _ _ _ hj'] at this
    simpa using this
  · intro h e he
    obtain ⟨i, h1, h2, hm, rfl⟩ := (mem_compress mask _ _).mp he
    rw [List.all_eq_true]
    intro r hr
    obtain ⟨j, hj, rfl⟩ := List.mem_iff_getElem.mp hr
    rw [rows_getElem _ _ _ h2, rows_getElem _ _ _ hj]
    have := h i h1 hm j (by simpa using hj)
    simp [this]

/-- what `specRowsComplete` decides -/
theorem specRowsComplete_iff (fmat : List (List α)) (wt : List α) (mask : List Bool) (hlen : mask.length = fmat.length) :
    specRowsComplete (fmat.map (applyWt wt)) mask = true ↔
      ∀ i (hi : i < mask.length), mask[i] = false →
        ∃ j, ∃ (hj : j < mask.length), mask[j] = true ∧ weakDom (wrow fmat wt i) (wrow fmat wt j) = true := by
  unfold specRowsComplete
  rw [List.all_eq_true]
  constructor
  · intro h i hi hm
    have hi' : i < (fmat.map (applyWt wt)).length := by simpa [← hlen] using hi
    have hr := h _ ((mem_compress (mask.map not) _ _).mpr ⟨i, by simpa using hi, hi', by simp [hm], rfl⟩)
    rw [List.any_eq_true] at hr
    obtain ⟨e, he, hw⟩ := hr
    obtain ⟨j, h1, h2, hmj, rfl⟩ := (mem_compress mask _ _).mp he
    rw [rows_getElem _ _ _ hi', rows_getElem _ _ _ h2] at hw
    exact ⟨j, h1, hmj, hw⟩
  · intro h r hr
    obtain ⟨i, h1, h2, hm, rfl⟩ := (mem_compress (mask.map not) _ _).mp hr
    have hi : i < mask.length := by simpa using h1
    have hmi : mask[i] = false := by simpa using hm
    obtain ⟨j, hj, hmj, hw⟩ := h i hi hmi
    have hj' : j < (fmat.map (applyWt wt)).length := by simpa [← hlen] using hj
    rw [List.any_eq_true]
    refine ⟨_, (mem_compress mask _ _).mpr ⟨j, hj, hj', hmj, rfl⟩, ?_⟩
    rw [rows_getElem _ _ _ h2, rows_getElem _ _ _ hj']
    exact hw

/-- for vectors of one length: `a` strictly dominates `b` iff `b ≤ a` everywhere and not `a ≤ b` everywhere -/
theorem strictDom_iff_weak (a b : List α) (h : a.length = b.length) :
    strictDom a b = true ↔ weakDom b a = true ∧ weakDom a b = false := by
  constructor
  · intro hs
    exact ⟨((strictDom_iff a b).mp hs).1, strictDom_not_weakDom a b hs⟩
  · rintro ⟨h1, h2⟩
    rw [strictDom_iff]
    refine ⟨h1, ?_⟩
    by_contra hne
    have : weakDom a b = true := by
      rw [weakDom_iff]
      intro i ha hb
      by_contra hle
      exact hne ⟨i, ha, hb, not_le.mp hle⟩
    rw [this] at h2
    exact Bool.noConfusion h2

end spec

section idx

theorem nodupB_iff (l : List Nat) : nodupB l = true ↔ l.Nodup := by
  induction l with
  | nil => simp [nodupB]
  | cons a l ih =>
    simp only [nodupB, Bool.and_eq_true, Bool.not_eq_true', List.nodup_cons, ih]
    constructor
    · rintro ⟨h1, h2⟩
      exact ⟨by simpa using h1, h2⟩
    · rintro ⟨h1, h2⟩
      exact ⟨by simpa using h1, h2⟩

/-- what `specIdx` decides: the index list is a duplicate-free list of valid indices and the mask is
    its indicator function -/
theorem specIdx_iff (n : Nat) (mask : List Bool) (idx : List Nat) :
    specIdx n mask idx = true ↔
      mask.length = n ∧ (∀ i ∈ idx, i < n) ∧ idx.Nodup ∧
      ∀ i (hi : i < mask.length), (mask[i] = true ↔ i ∈ idx) := by
  unfold specIdx
  simp only [Bool.and_eq_true, beq_iff_eq, List.all_eq_true, decide_eq_true_eq, nodupB_iff]
  constructor
  · rintro ⟨⟨⟨h1, h2⟩, h3⟩, h4⟩
    refine ⟨h1, h2, h3, ?_⟩
    intro i hi
    have := h4 (mask[i], i) (by
      rw [List.mem_zipIdx_iff_getElem?]
      simp [List.getElem?_eq_getElem hi])
    simp only at this
    rw [this]
    simp
  · rintro ⟨h1, h2, h3, h4⟩
    refine ⟨⟨⟨h1, h2⟩, h3⟩, ?_⟩
    rintro ⟨b, i⟩ hbi
    rw [List.mem_zipIdx_iff_getElem?] at hbi
    simp only [zero_add] at hbi
    obtain ⟨hi, rfl⟩ := List.getElem?_eq_some_iff.mp hbi
    simp only
    have := h4 i hi
    by_cases hm : mask[i] = true
    · rw [hm]; simpa using this.mp hm
    · have hf : mask[i] = false := by simpa using hm
      rw [hf]
      have : i ∉ idx := fun hin => hm (this.mpr hin)
      simpa using this

end idx
end C19
