/-
Helper lemmas for C12 (6): closed forms (chunk-size free) of the cells computed by the loops of the
four `from_algmod`s, the compatibility between the code's pairwise recombination matrix and the
per-marker crossover probabilities of the meiosis model, and the bridge
"enumerated covariance = within-chromosome double sums".
-/
import PybropsModel.Lemmas.VarSchemes
set_option autoImplicit false
set_option linter.unusedSectionVars false

namespace Variance
variable {α : Type} [Field α] [CharZero α]

/-- linkage groups are well formed intervals -/
def ChrOK (chrs : List (Nat × Nat)) : Prop := ∀ c ∈ chrs, c.1 ≤ c.2

namespace Setup
variable (S : Setup α)

/-- kernel of one `reffect @ D @ ceffect.T` term -/
def ker (D : Nat → Nat → α) (x : Nat → α) (s t : Nat) (i j : Nat) : α :=
  (x i * S.u i s) * D i j * (x j * S.u j t)

theorem part_eq_ker (D : Nat → Nat → α) (x : Nat → α) (s t : Nat) :
    S.part D x s t = kerBlock (S.ker D x s t) := by
  funext rst rsp cst csp
  unfold Setup.part Setup.ker
  exact blockQuad_eq D _ _ rst rsp cst csp

/-- **two-way cell, closed form** (no chunk size in it) -/
theorem twoWayLower_closed (hm : MemOK S.mem) (hc : ChrOK S.chrs) (f m s t : Nat) :
    S.twoWayLower f m s t = genomeKer S.chrs (S.ker S.D1 (fun i => S.g0 f i - S.g0 m i) s t) := by
  unfold Setup.twoWayLower
  rw [part_eq_ker, accum_ker S.mem hm S.chrs hc]

/-- kernel of the three-way combination `2 (part21 + part31) + part23` -/
def ker3 (p1 p2 p3 : Nat → α) (s t : Nat) (i j : Nat) : α :=
  2 * (S.ker S.D1 (fun i => p2 i - p1 i) s t i j + S.ker S.D1 (fun i => p3 i - p1 i) s t i j)
    + S.ker S.D2 (fun i => p2 i - p3 i) s t i j

theorem threeWayLower_closed (hm : MemOK S.mem) (hc : ChrOK S.chrs) (rc f m s t : Nat) :
    S.threeWayLower rc f m s t = genomeKer S.chrs (S.ker3 (S.g0 rc) (S.g0 f) (S.g0 m) s t) * (1 / 4) := by
  unfold Setup.threeWayLower
  have h : (fun rst rsp cst csp =>
      (two * (S.part S.D1 (fun i => S.g0 f i - S.g0 rc i) s t rst rsp cst csp
            + S.part S.D1 (fun i => S.g0 m i - S.g0 rc i) s t rst rsp cst csp))
      + S.part S.D2 (fun i => S.g0 f i - S.g0 m i) s t rst rsp cst csp)
      = kerBlock (S.ker3 (S.g0 rc) (S.g0 f) (S.g0 m) s t) := by
    funext rst rsp cst csp
    simp only [part_eq_ker, two_eq, kerBlock_add, kerBlock_mul_left]
    rfl
  rw [h, accum_ker S.mem hm S.chrs hc, four_eq]

/-- kernel of the six-part combination of the four-way and dihybrid classes -/
def ker6 (p1 p2 p3 p4 : Nat → α) (s t : Nat) (i j : Nat) : α :=
    S.ker S.D2 (fun i => p2 i - p1 i) s t i j
  + S.ker S.D1 (fun i => p3 i - p1 i) s t i j
  + S.ker S.D1 (fun i => p3 i - p2 i) s t i j
  + S.ker S.D1 (fun i => p4 i - p1 i) s t i j
  + S.ker S.D1 (fun i => p4 i - p2 i) s t i j
  + S.ker S.D2 (fun i => p4 i - p3 i) s t i j

theorem sixParts_eq_ker (p1 p2 p3 p4 : Nat → α) (s t : Nat) :
    S.sixParts p1 p2 p3 p4 s t = kerBlock (S.ker6 p1 p2 p3 p4 s t) := by
  funext rst rsp cst csp
  unfold Setup.sixParts
  simp only [part_eq_ker, kerBlock_add]
  rfl

theorem fourWayLower_closed (hm : MemOK S.mem) (hc : ChrOK S.chrs) (f2 m2 f1 m1 s t : Nat) :
    S.fourWayLower f2 m2 f1 m1 s t
      = genomeKer S.chrs (S.ker6 (S.g0 f2) (S.g0 m2) (S.g0 f1) (S.g0 m1) s t) * (1 / 4) := by
  unfold Setup.fourWayLower
  rw [sixParts_eq_ker, accum_ker S.mem hm S.chrs hc, four_eq]

theorem dihybridLower_closed (hm : MemOK S.mem) (hc : ChrOK S.chrs) (f m s t : Nat) :
    S.dihybridLower f m s t
      = genomeKer S.chrs (S.ker6 (S.g1 f) (S.g0 f) (S.g1 m) (S.g0 m) s t) * (1 / 4) := by
  unfold Setup.dihybridLower
  rw [sixParts_eq_ker, accum_ker S.mem hm S.chrs hc, four_eq]

end Setup

/-! ### compatibility of the recombination matrix with the meiosis model -/

/-- `xs` are the per-marker crossover probabilities of the meiosis model (`xoprob`): 1/2 at the first
    marker of every linkage group; the code's pairwise recombination `r i j` composes without
    interference along a linkage group (`1 - 2 r_ij = Π_{i<k≤j} (1 - 2 x_k)`, Haldane);
    the linkage groups tile `[0,p)`. -/
structure Compat (S : Setup α) (xs : List α) (p : Nat) : Prop where
  half : HalfStart xs
  tiles : Tiles 0 p S.chrs
  start : ∀ c ∈ S.chrs, c.1 < c.2 → xs[c.1]? = some (1 / 2)
  within : ∀ c ∈ S.chrs, ∀ i j, c.1 ≤ i → i < c.2 → c.1 ≤ j → j < c.2 → 1 - 2 * S.r i j = rho xs i j
  rne : ∀ i j, 1 + 2 * S.r i j ≠ 0

theorem Compat.chrOK {S : Setup α} {xs : List α} {p : Nat} (h : Compat S xs p) : ChrOK S.chrs :=
  fun c hc => (tiles_mem h.tiles c hc).2.1

/-- markers of different linkage groups segregate independently -/
theorem Compat.rho_across {S : Setup α} {xs : List α} {p : Nat} (h : Compat S xs p) (i j : Nat)
    (hi : i < p) (hj : j < p)
    (hno : ∀ c ∈ S.chrs, ¬ ((c.1 ≤ i ∧ i < c.2) ∧ (c.1 ≤ j ∧ j < c.2))) : rho xs i j = 0 := by
  rcases Nat.lt_trichotomy i j with hlt | heq | hgt
  · obtain ⟨c, hc, h1, h2⟩ := tiles_cover h.tiles j (Nat.zero_le j) hj
    have hic : i < c.1 := by
      by_contra hcon
      exact hno c hc ⟨⟨by omega, by omega⟩, ⟨h1, h2⟩⟩
    exact rho_zero_of_half xs i j c.1 hic h1 (h.start c hc (by omega))
  · subst heq
    obtain ⟨c, hc, h1, h2⟩ := tiles_cover h.tiles i (Nat.zero_le i) hi
    exact absurd ⟨⟨h1, h2⟩, ⟨h1, h2⟩⟩ (hno c hc)
  · obtain ⟨c, hc, h1, h2⟩ := tiles_cover h.tiles i (Nat.zero_le i) hi
    have hjc : j < c.1 := by
      by_contra hcon
      exact hno c hc ⟨⟨h1, h2⟩, ⟨by omega, by omega⟩⟩
    rw [rho_symm]
    exact rho_zero_of_half xs j i c.1 hjc h1 (h.start c hc (by omega))

theorem Compat.D1_within {S : Setup α} {xs : List α} {p : Nat} (h : Compat S xs p) (n : Nat)
    (hn : S.nself = some n) (c : Nat × Nat) (hc : c ∈ S.chrs) (i j : Nat)
    (h1 : c.1 ≤ i) (h2 : i < c.2) (h3 : c.1 ≤ j) (h4 : j < c.2) :
    S.D1 i j = delta (rho xs i j) n := by
  unfold Setup.D1
  rw [hn, covD1s_eq_delta _ (h.rne i j), h.within c hc i j h1 h2 h3 h4]

theorem Compat.D2_within {S : Setup α} {xs : List α} {p : Nat} (h : Compat S xs p) (n : Nat)
    (hn : S.nself = some n) (c : Nat × Nat) (hc : c ∈ S.chrs) (i j : Nat)
    (h1 : c.1 ≤ i) (h2 : i < c.2) (h3 : c.1 ≤ j) (h4 : j < c.2) :
    S.D2 i j = rho xs i j - delta (rho xs i j) n + rho xs i j * delta (rho xs i j) n := by
  unfold Setup.D2
  rw [hn, covD2s_eq _ (h.rne i j), h.within c hc i j h1 h2 h3 h4]

/-- **bridge**: if the allele covariances of a scheme are `K (rho xs i j) i j` with `K 0 = 0`, the
    covariance of two doubled-haploid values is the sum of the within-linkage-group double sums -/
theorem cov_eq_genomeKer {S : Setup α} {xs : List α} {p : Nat} (h : Compat S xs p)
    {L : ((Nat → α) → α) → α} (hL : Lin L) (u w : Nat → α) (K : α → Nat → Nat → α)
    (hK : ∀ i j, 4 * coordCov L i j = K (rho xs i j) i j) (hK0 : ∀ i j, K 0 i j = 0) :
    covOf L (dhValue p u) (dhValue p w)
      = genomeKer S.chrs (fun i j => u i * K (rho xs i j) i j * w j) := by
  rw [cov_expand hL]
  have e : sumRange 0 p (fun i => sumRange 0 p (fun j => u i * (4 * coordCov L i j) * w j))
      = kerBlock (fun i j => u i * K (rho xs i j) i j * w j) 0 p 0 p := by
    unfold kerBlock
    simp only [hK]
  rw [e]
  apply tiles_double_sum h.tiles
  intro i j _ hi _ hj hno
  show u i * K (rho xs i j) i j * w j = 0
  rw [h.rho_across i j hi hj hno, hK0]
  ring

end Variance
