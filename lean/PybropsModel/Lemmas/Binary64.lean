/-
`Binary64.roundBinary64` (round-to-nearest-even on the binary64 grid, unbounded exponent) satisfies the
rounding contract of Lemmas/Rounding.lean with half-ulp 2⁻⁵³: it is monotone on all of ℚ and the
identity on 0, 1, 2⁻⁵³ and 1 - 2⁻⁵³.
-/
import Mathlib.Tactic
import PybropsModel.Model.Binary64
import PybropsModel.Lemmas.Rounding
set_option autoImplicit false

namespace Binary64

theorem pow2_eq (k : Int) : pow2 k = (2 : ℚ) ^ k := by
  cases k with
  | ofNat n => simp [pow2]
  | negSucc n =>
    simp only [pow2, zpow_negSucc]
    push_cast
    rw [one_div]

theorem pow2_pos (k : Int) : 0 < pow2 k := by rw [pow2_eq]; positivity

/-! ### ⌊log₂⌋ -/

theorem flog2_spec {x : ℚ} (hx : 0 < x) : (2 : ℚ) ^ (flog2 x) ≤ x ∧ x < (2 : ℚ) ^ (flog2 x + 1) := by
  have hnum : 0 < x.num := Rat.num_pos.mpr hx
  set n := x.num.toNat with hn
  set d := x.den with hd
  have hn0 : n ≠ 0 := by omega
  have hd0 : d ≠ 0 := x.den_nz
  have hxnd : x = (n : ℚ) / (d : ℚ) := by
    have : ((n : ℕ) : ℤ) = x.num := Int.toNat_of_nonneg hnum.le
    have h := (Rat.num_div_den x).symm
    rw [← this] at h
    simpa using h
  have hdq : (0 : ℚ) < d := by exact_mod_cast Nat.pos_of_ne_zero hd0
  have n1 : ((2 : ℚ) ^ (Nat.log2 n : ℤ)) ≤ n := by
    rw [zpow_natCast]; exact_mod_cast Nat.log2_self_le hn0
  have n2 : (n : ℚ) < (2 : ℚ) ^ ((Nat.log2 n : ℤ) + 1) := by
    have : ((Nat.log2 n : ℤ) + 1) = ((Nat.log2 n + 1 : ℕ) : ℤ) := by push_cast; ring
    rw [this, zpow_natCast]; exact_mod_cast Nat.lt_log2_self
  have d1 : ((2 : ℚ) ^ (Nat.log2 d : ℤ)) ≤ d := by
    rw [zpow_natCast]; exact_mod_cast Nat.log2_self_le hd0
  have d2 : (d : ℚ) < (2 : ℚ) ^ ((Nat.log2 d : ℤ) + 1) := by
    have : ((Nat.log2 d : ℤ) + 1) = ((Nat.log2 d + 1 : ℕ) : ℤ) := by push_cast; ring
    rw [this, zpow_natCast]; exact_mod_cast Nat.lt_log2_self
  set k : ℤ := (Nat.log2 n : ℤ) - (Nat.log2 d : ℤ) with hk
  have two : (0 : ℚ) < 2 := by norm_num
  -- 2^(k-1) ≤ x < 2^(k+1)
  have up : x < (2 : ℚ) ^ (k + 1) := by
    rw [hxnd, div_lt_iff₀ hdq]
    calc (n : ℚ) < (2 : ℚ) ^ ((Nat.log2 n : ℤ) + 1) := n2
      _ = (2 : ℚ) ^ (k + 1) * (2 : ℚ) ^ (Nat.log2 d : ℤ) := by
          rw [← zpow_add₀ two.ne']; congr 1; rw [hk]; ring
      _ ≤ (2 : ℚ) ^ (k + 1) * d := by
          apply mul_le_mul_of_nonneg_left d1; positivity
  have lo : (2 : ℚ) ^ (k - 1) ≤ x := by
    rw [hxnd, le_div_iff₀ hdq]
    calc (2 : ℚ) ^ (k - 1) * d ≤ (2 : ℚ) ^ (k - 1) * (2 : ℚ) ^ ((Nat.log2 d : ℤ) + 1) := by
          apply mul_le_mul_of_nonneg_left d2.le; positivity
      _ = (2 : ℚ) ^ (Nat.log2 n : ℤ) := by
          rw [← zpow_add₀ two.ne']; congr 1; rw [hk]; ring
      _ ≤ n := n1
  have hdef : flog2 x = if pow2 k ≤ x then k else k - 1 := rfl
  rw [hdef, pow2_eq]
  split
  · next h => exact ⟨h, up⟩
  · next h =>
    refine ⟨lo, ?_⟩
    have : k - 1 + 1 = k := by ring
    rw [this]; exact not_le.mp h

theorem flog2_unique {x : ℚ} (hx : 0 < x) (e : ℤ) (h1 : (2 : ℚ) ^ e ≤ x) (h2 : x < (2 : ℚ) ^ (e + 1)) :
    flog2 x = e := by
  obtain ⟨s1, s2⟩ := flog2_spec hx
  have one_lt : (1 : ℚ) < 2 := by norm_num
  have a : flog2 x < e + 1 := (zpow_lt_zpow_iff_right₀ one_lt).mp (lt_of_le_of_lt s1 h2)
  have b : e < flog2 x + 1 := (zpow_lt_zpow_iff_right₀ one_lt).mp (lt_of_le_of_lt h1 s2)
  omega

theorem flog2_mono {x y : ℚ} (hx : 0 < x) (hxy : x ≤ y) : flog2 x ≤ flog2 y := by
  obtain ⟨s1, _⟩ := flog2_spec hx
  obtain ⟨_, t2⟩ := flog2_spec (lt_of_lt_of_le hx hxy)
  have one_lt : (1 : ℚ) < 2 := by norm_num
  have : flog2 x < flog2 y + 1 := (zpow_lt_zpow_iff_right₀ one_lt).mp (lt_of_le_of_lt (s1.trans hxy) t2)
  omega

/-! ### round half to even on ℚ → ℤ -/

theorem rne_def (q : ℚ) : rne q =
    if q - (⌊q⌋ : ℚ) < 1 / 2 then ⌊q⌋ else if 1 / 2 < q - (⌊q⌋ : ℚ) then ⌊q⌋ + 1
    else if ⌊q⌋ % 2 = 0 then ⌊q⌋ else ⌊q⌋ + 1 := rfl

theorem rne_int (n : ℤ) : rne (n : ℚ) = n := by
  rw [rne_def]; simp

theorem rne_ge_floor (q : ℚ) : ⌊q⌋ ≤ rne q := by
  rw [rne_def]; split_ifs <;> omega

theorem rne_le_floor_succ (q : ℚ) : rne q ≤ ⌊q⌋ + 1 := by
  rw [rne_def]; split_ifs <;> omega

theorem rne_mono {q q' : ℚ} (h : q ≤ q') : rne q ≤ rne q' := by
  have hf : ⌊q⌋ ≤ ⌊q'⌋ := Int.floor_le_floor h
  rcases lt_or_eq_of_le hf with hlt | heq
  · calc rne q ≤ ⌊q⌋ + 1 := rne_le_floor_succ q
      _ ≤ ⌊q'⌋ := hlt
      _ ≤ rne q' := rne_ge_floor q'
  · have hr : q - (⌊q⌋ : ℚ) ≤ q' - (⌊q'⌋ : ℚ) := by rw [heq]; linarith
    rw [rne_def q, rne_def q', heq]
    rw [heq] at hr
    split_ifs <;> first | omega | (exfalso; linarith)

theorem rne_bounds {q : ℚ} {a b : ℤ} (h1 : (a : ℚ) ≤ q) (h2 : q ≤ (b : ℚ)) : a ≤ rne q ∧ rne q ≤ b := by
  have := rne_mono h1
  have := rne_mono h2
  rw [rne_int] at *
  exact ⟨by assumption, by assumption⟩

/-! ### rounding of positive rationals -/

theorem roundPos_eq (x : ℚ) : roundPos x = (rne (x / (2 : ℚ) ^ (flog2 x - 52)) : ℚ) * (2 : ℚ) ^ (flog2 x - 52) := by
  simp only [roundPos, roundPartsPos, pow2_eq]

theorem two_pow_52 : ((2 : ℚ) ^ (52 : ℤ)) = ((2 ^ 52 : ℤ) : ℚ) := by norm_num
theorem two_pow_53 : ((2 : ℚ) ^ (53 : ℤ)) = ((2 ^ 53 : ℤ) : ℚ) := by norm_num

/-- the scaled value lies in `[2⁵², 2⁵³)` -/
theorem scaled_bounds {x : ℚ} (hx : 0 < x) :
    ((2 ^ 52 : ℤ) : ℚ) ≤ x / (2 : ℚ) ^ (flog2 x - 52) ∧ x / (2 : ℚ) ^ (flog2 x - 52) < ((2 ^ 53 : ℤ) : ℚ) := by
  obtain ⟨s1, s2⟩ := flog2_spec hx
  have up : (0 : ℚ) < (2 : ℚ) ^ (flog2 x - 52) := by positivity
  have two : (2 : ℚ) ≠ 0 := by norm_num
  constructor
  · rw [le_div_iff₀ up, ← two_pow_52, ← zpow_add₀ two]
    have : (52 : ℤ) + (flog2 x - 52) = flog2 x := by ring
    rw [this]; exact s1
  · rw [div_lt_iff₀ up, ← two_pow_53, ← zpow_add₀ two]
    have : (53 : ℤ) + (flog2 x - 52) = flog2 x + 1 := by ring
    rw [this]; exact s2

/-- the rounded value stays in the closed binade `[2^e, 2^(e+1)]` -/
theorem roundPos_bounds {x : ℚ} (hx : 0 < x) :
    (2 : ℚ) ^ (flog2 x) ≤ roundPos x ∧ roundPos x ≤ (2 : ℚ) ^ (flog2 x + 1) := by
  obtain ⟨b1, b2⟩ := scaled_bounds hx
  obtain ⟨r1, r2⟩ := rne_bounds b1 b2.le
  have up : (0 : ℚ) < (2 : ℚ) ^ (flog2 x - 52) := by positivity
  have two : (2 : ℚ) ≠ 0 := by norm_num
  rw [roundPos_eq]
  constructor
  · have : (2 : ℚ) ^ (flog2 x) = ((2 ^ 52 : ℤ) : ℚ) * (2 : ℚ) ^ (flog2 x - 52) := by
      rw [← two_pow_52, ← zpow_add₀ two]; congr 1; ring
    rw [this]
    exact mul_le_mul_of_nonneg_right (by exact_mod_cast r1) up.le
  · have : (2 : ℚ) ^ (flog2 x + 1) = ((2 ^ 53 : ℤ) : ℚ) * (2 : ℚ) ^ (flog2 x - 52) := by
      rw [← two_pow_53, ← zpow_add₀ two]; congr 1; ring
    rw [this]
    exact mul_le_mul_of_nonneg_right (by exact_mod_cast r2) up.le

theorem roundPos_pos {x : ℚ} (hx : 0 < x) : 0 < roundPos x :=
  lt_of_lt_of_le (by positivity) (roundPos_bounds hx).1

theorem roundPos_mono {x y : ℚ} (hx : 0 < x) (hxy : x ≤ y) : roundPos x ≤ roundPos y := by
  have hy : 0 < y := lt_of_lt_of_le hx hxy
  rcases lt_or_eq_of_le (flog2_mono hx hxy) with hlt | heq
  · have one_le : (1 : ℚ) ≤ 2 := by norm_num
    calc roundPos x ≤ (2 : ℚ) ^ (flog2 x + 1) := (roundPos_bounds hx).2
      _ ≤ (2 : ℚ) ^ (flog2 y) := zpow_le_zpow_right₀ one_le (by omega)
      _ ≤ roundPos y := (roundPos_bounds hy).1
  · rw [roundPos_eq, roundPos_eq, heq]
    have up : (0 : ℚ) < (2 : ℚ) ^ (flog2 y - 52) := by positivity
    apply mul_le_mul_of_nonneg_right _ up.le
    have : x / (2 : ℚ) ^ (flog2 y - 52) ≤ y / (2 : ℚ) ^ (flog2 y - 52) := div_le_div_of_nonneg_right hxy up.le
    exact_mod_cast rne_mono this

/-- a value `M·2^(e-52)` of the binade `e` is representable: rounding leaves it alone -/
theorem roundPos_fix {x : ℚ} (hx : 0 < x) (e : ℤ) (h1 : (2 : ℚ) ^ e ≤ x) (h2 : x < (2 : ℚ) ^ (e + 1))
    (M : ℤ) (hM : x = (M : ℚ) * (2 : ℚ) ^ (e - 52)) : roundPos x = x := by
  have he := flog2_unique hx e h1 h2
  have up : (0 : ℚ) < (2 : ℚ) ^ (e - 52) := by positivity
  rw [roundPos_eq, he]
  have : x / (2 : ℚ) ^ (e - 52) = (M : ℚ) := by rw [hM]; field_simp
  rw [this, rne_int, ← hM]

/-! ### the contract -/

theorem round_zero : roundBinary64 0 = 0 := by simp [roundBinary64]

theorem round_of_pos {x : ℚ} (hx : 0 < x) : roundBinary64 x = roundPos x := by
  simp [roundBinary64, hx.ne', hx]

theorem round_of_neg {x : ℚ} (hx : x < 0) : roundBinary64 x = -roundPos (-x) := by
  simp [roundBinary64, hx.ne, not_lt.mpr hx.le]

theorem round_mono : Monotone roundBinary64 := by
  intro x y hxy
  rcases lt_trichotomy x 0 with hx | hx | hx
  · rcases lt_trichotomy y 0 with hy | hy | hy
    · rw [round_of_neg hx, round_of_neg hy]
      have := roundPos_mono (neg_pos.mpr hy) (neg_le_neg hxy)
      linarith
    · rw [round_of_neg hx, hy, round_zero]
      have := roundPos_pos (neg_pos.mpr hx); linarith
    · rw [round_of_neg hx, round_of_pos hy]
      have := roundPos_pos (neg_pos.mpr hx)
      have := roundPos_pos hy
      linarith
  · rw [hx, round_zero]
    rcases lt_or_eq_of_le (hx ▸ hxy) with hy | hy
    · rw [round_of_pos hy]; exact (roundPos_pos hy).le
    · rw [← hy, round_zero]
  · have hy : 0 < y := lt_of_lt_of_le hx hxy
    rw [round_of_pos hx, round_of_pos hy]
    exact roundPos_mono hx hxy

theorem round_one : roundBinary64 1 = 1 := by
  rw [round_of_pos one_pos]
  exact roundPos_fix one_pos 0 (by norm_num) (by norm_num) (2 ^ 52) (by norm_num)

theorem round_eps : roundBinary64 Rounding.eps64 = Rounding.eps64 := by
  have hpos : (0 : ℚ) < Rounding.eps64 := by unfold Rounding.eps64; positivity
  rw [round_of_pos hpos]
  exact roundPos_fix hpos (-53) (by unfold Rounding.eps64; norm_num) (by unfold Rounding.eps64; norm_num)
    (2 ^ 52) (by unfold Rounding.eps64; norm_num)

theorem round_pred_one : roundBinary64 (1 - Rounding.eps64) = 1 - Rounding.eps64 := by
  have hpos : (0 : ℚ) < 1 - Rounding.eps64 := by unfold Rounding.eps64; norm_num
  rw [round_of_pos hpos]
  exact roundPos_fix hpos (-1) (by unfold Rounding.eps64; norm_num) (by unfold Rounding.eps64; norm_num)
    (2 ^ 53 - 1) (by unfold Rounding.eps64; norm_num)

/-- **binary64 round-to-nearest-even is an instance of the rounding contract** -/
theorem roundBinary64_contract : Rounding.RoundingContract roundBinary64 Rounding.eps64 :=
  ⟨round_mono, round_zero, round_one, by unfold Rounding.eps64; positivity, round_eps, round_pred_one⟩

end Binary64
