/-
Refinement of the list transcription of `gauss_seidel` (Model/RRBlup.lean) to the function form of
Lemmas/GaussSeidelFn.lean, and the facts about the loop that the property theorems use.
-/
import PybropsModel.Lemmas.GaussSeidelFn
import PybropsModel.Model.RRBlup
set_option autoImplicit false
set_option linter.unusedSectionVars false
set_option linter.unusedSimpArgs false
set_option linter.unusedVariables false

namespace GSList
open Finset BigOperators GMod RRBlup GSFn

variable {α : Type} [Field α] [LinearOrder α] [IsStrictOrderedRing α]

/-- a list read as a vector (0 outside) -/
def vecFn (l : List α) : ℕ → α := fun i => l.getD i 0
/-- a nested list read as a matrix (0 outside) -/
def matFn (A : List (List α)) : ℕ → ℕ → α := fun i j => (A.getD i []).getD j 0

theorem dot_nil_left (b : List α) : dot ([] : List α) b = 0 := by simp [dot]
theorem dot_nil_right (a : List α) : dot a ([] : List α) = 0 := by simp [dot]
theorem dot_cons (a : α) (as : List α) (b : α) (bs : List α) :
    dot (a :: as) (b :: bs) = a * b + dot as bs := by simp [dot]

/-- `dot` as a finite sum -/
theorem dot_eq_sum (a b : List α) (m : ℕ) (ha : a.length = m) (hb : b.length = m) :
    dot a b = ∑ j ∈ range m, vecFn a j * vecFn b j := by
  induction a generalizing b m with
  | nil =>
    simp at ha; subst ha
    simp [dot]
  | cons x xs ih =>
    cases b with
    | nil => simp at hb; subst hb; simp at ha
    | cons y ys =>
      cases m with
      | zero => simp at ha
      | succ m =>
        rw [dot_cons, Finset.sum_range_succ', ih ys m (by simpa using ha) (by simpa using hb)]
        simp [vecFn, add_comm]

theorem dot_append (a1 a2 b1 b2 : List α) (h : a1.length = b1.length) :
    dot (a1 ++ a2) (b1 ++ b2) = dot a1 b1 + dot a2 b2 := by
  unfold dot
  rw [List.zipWith_append h, List.sum_append]

/-- splitting a dot product at position i -/
theorem dot_split (a b : List α) (i : ℕ) (ha : i < a.length) (hb : i < b.length) :
    dot a b = dot (a.take i) (b.take i) + vecFn a i * vecFn b i + dot (a.drop (i+1)) (b.drop (i+1)) := by
  have ea : a = a.take i ++ (a[i] :: a.drop (i+1)) := by
    rw [List.getElem_cons_drop, List.take_append_drop]
  have eb : b = b.take i ++ (b[i] :: b.drop (i+1)) := by
    rw [List.getElem_cons_drop, List.take_append_drop]
  conv_lhs => rw [ea, eb]
  rw [dot_append _ _ _ _ (by simp [List.length_take, Nat.min_eq_left (Nat.le_of_lt ha), Nat.min_eq_left (Nat.le_of_lt hb)]),
      dot_cons]
  have h1 : vecFn a i = a[i] := by simp [vecFn, List.getD_eq_getElem?_getD, List.getElem?_eq_getElem ha]
  have h2 : vecFn b i = b[i] := by simp [vecFn, List.getD_eq_getElem?_getD, List.getElem?_eq_getElem hb]
  rw [h1, h2]; ring

/-- the two partial dot products of the Gauss–Seidel update = the sum over all other coordinates -/
theorem dot_take_drop (a b : List α) (n i : ℕ) (ha : a.length = n) (hb : b.length = n) (hi : i < n) :
    dot (a.take i) (b.take i) + dot (a.drop (i+1)) (b.drop (i+1))
      = ∑ j ∈ (range n).erase i, vecFn a j * vecFn b j := by
  have h1 := dot_split a b i (by omega) (by omega)
  have h2 := dot_eq_sum a b n ha hb
  have h3 := Finset.add_sum_erase (range n) (fun j => vecFn a j * vecFn b j) (Finset.mem_range.mpr hi)
  linear_combination (-1 : α) * h1 + h2 - h3

theorem vecFn_set (x : List α) (i : ℕ) (v : α) (hi : i < x.length) :
    vecFn (x.set i v) = Function.update (vecFn x) i v := by
  funext j
  unfold vecFn
  by_cases h : j = i
  · subst h
    simp [List.getD_eq_getElem?_getD, List.getElem?_set, hi]
  · rw [Function.update_of_ne h]
    simp [List.getD_eq_getElem?_getD, List.getElem?_set, Ne.symm h]

/-- shape hypothesis: square system of size n -/
structure Square (n : ℕ) (A : List (List α)) (b : List α) : Prop where
  rows : A.length = n
  cols : ∀ r ∈ A, r.length = n
  rhs : b.length = n

theorem row_length {n : ℕ} {A : List (List α)} {b : List α} (h : Square n A b) (i : ℕ) (hi : i < n) :
    (A.getD i []).length = n := by
  have : i < A.length := by rw [h.rows]; exact hi
  rw [List.getD_eq_getElem?_getD, List.getElem?_eq_getElem this]
  exact h.cols _ (List.getElem_mem this)

theorem vecFn_row (A : List (List α)) (i j : ℕ) : vecFn (A.getD i []) j = matFn A i j := rfl

/-- one coordinate update of the list model = `coordUpd` -/
theorem gsCoord_fn {n : ℕ} {A : List (List α)} {b : List α} (h : Square n A b) (x : List α)
    (hx : x.length = n) (i : ℕ) (hi : i < n) :
    (gsCoord A b x i).length = n ∧
    vecFn (gsCoord A b x i) = coordUpd n (matFn A) (vecFn b) (vecFn x) i := by
  unfold gsCoord
  refine ⟨by simp [hx], ?_⟩
  simp only []
  rw [vecFn_set x i _ (by omega)]
  unfold coordUpd gsVal
  congr 1
  have hr := row_length h i hi
  have hs := dot_take_drop (A.getD i []) x n i hr hx hi
  simp only [vecFn_row] at hs
  have : b.getD i 0 - dot ((A.getD i []).take i) (x.take i) - dot ((A.getD i []).drop (i+1)) (x.drop (i+1))
      = vecFn b i - ∑ j ∈ (range n).erase i, matFn A i j * vecFn x j := by
    rw [← hs]; unfold vecFn; ring
  rw [this]
  rfl

theorem foldl_gsCoord_fn {n : ℕ} {A : List (List α)} {b : List α} (h : Square n A b) (ks : List ℕ)
    (hks : ∀ k ∈ ks, k < n) (x : List α) (hx : x.length = n) :
    (ks.foldl (gsCoord A b) x).length = n ∧
    vecFn (ks.foldl (gsCoord A b) x) = updAlong n (matFn A) (vecFn b) ks (vecFn x) := by
  induction ks generalizing x with
  | nil => exact ⟨hx, rfl⟩
  | cons k ks ih =>
    obtain ⟨hl, hf⟩ := gsCoord_fn h x hx k (hks k (by simp))
    obtain ⟨hl2, hf2⟩ := ih (fun k' hk' => hks k' (by simp [hk'])) (gsCoord A b x k) hl
    refine ⟨by simpa using hl2, ?_⟩
    simp only [List.foldl_cons]
    rw [hf2, hf]
    rfl

/-- a sweep of the list model = `sweepFn` -/
theorem gsSweep_fn {n : ℕ} {A : List (List α)} {b : List α} (h : Square n A b) (x : List α)
    (hx : x.length = n) :
    (gsSweep A b x).length = n ∧ vecFn (gsSweep A b x) = sweepFn n (matFn A) (vecFn b) (vecFn x) := by
  unfold gsSweep sweepFn
  rw [h.rhs]
  exact foldl_gsCoord_fn h (List.range n) (fun k hk => List.mem_range.mp hk) x hx

/-- hypotheses under which Gauss–Seidel is coordinate descent -/
structure SymPosDiag (n : ℕ) (A : List (List α)) : Prop where
  symm : ∀ i j, i < n → j < n → matFn A i j = matFn A j i
  diag : ∀ i, i < n → 0 < matFn A i i

/-- energy of a list vector -/
def energyL (n : ℕ) (A : List (List α)) (b x : List α) : α := energy n (matFn A) (vecFn b) (vecFn x)

theorem gsSweep_energy_le {n : ℕ} {A : List (List α)} {b : List α} (h : Square n A b) (hs : SymPosDiag n A)
    (x : List α) (hx : x.length = n) :
    energyL n A b (gsSweep A b x) ≤ energyL n A b x := by
  unfold energyL
  rw [(gsSweep_fn h x hx).2]
  exact energy_sweep_le n (matFn A) hs.symm hs.diag (vecFn b) (vecFn x)

theorem gsLoop_energy_le {n : ℕ} {A : List (List α)} {b : List α} (h : Square n A b) (hs : SymPosDiag n A)
    (atol : α) (fuel : ℕ) (cont : Bool) (x : List α) (hx : x.length = n) :
    (gsLoop A b atol fuel cont x).length = n ∧
    energyL n A b (gsLoop A b atol fuel cont x) ≤ energyL n A b x := by
  induction fuel generalizing cont x with
  | zero => exact ⟨hx, le_refl _⟩
  | succ fuel ih =>
    unfold gsLoop
    by_cases hc : cont = true
    · simp only [hc, if_true]
      obtain ⟨hl, _⟩ := gsSweep_fn h x hx
      obtain ⟨hl2, he2⟩ := ih (moved atol (gsSweep A b x) x) (gsSweep A b x) hl
      exact ⟨hl2, he2.trans (gsSweep_energy_le h hs x hx)⟩
    · simp only [hc]
      exact ⟨hx, le_refl _⟩

theorem vecFn_zeros (b : List α) : vecFn (b.map (fun _ => (0:α))) = fun _ => 0 := by
  funext i
  unfold vecFn
  rw [List.getD_eq_getElem?_getD]
  by_cases h : i < b.length
  · simp [List.getElem?_eq_getElem, h]
  · simp [List.getElem?_eq_none, Nat.le_of_not_lt h]

/-- **descent**: whatever `atol` and `maxiter`, the Gauss–Seidel result has energy ≤ energy(0) = 0 -/
theorem gaussSeidel_energy_le_zero {n : ℕ} {A : List (List α)} {b : List α} (h : Square n A b)
    (hs : SymPosDiag n A) (atol : α) (maxiter : ℕ) :
    (gaussSeidel A b atol maxiter).length = n ∧ energyL n A b (gaussSeidel A b atol maxiter) ≤ 0 := by
  unfold gaussSeidel
  obtain ⟨hl, he⟩ := gsLoop_energy_le h hs atol maxiter true
    (b.map (fun _ => (0:α))) (by simp [h.rhs])
  refine ⟨hl, he.trans (le_of_eq ?_)⟩
  unfold energyL
  rw [vecFn_zeros]
  exact energy_zero n _ _

/-- the same for the pre-repair function (first test `2·atol > atol`) -/
theorem gaussSeidelPrerepair_energy_le_zero {n : ℕ} {A : List (List α)} {b : List α} (h : Square n A b)
    (hs : SymPosDiag n A) (atol : α) (maxiter : ℕ) :
    (gaussSeidelPrerepair A b atol maxiter).length = n ∧
    energyL n A b (gaussSeidelPrerepair A b atol maxiter) ≤ 0 := by
  unfold gaussSeidelPrerepair
  obtain ⟨hl, he⟩ := gsLoop_energy_le h hs atol maxiter (decide (atol < atol + atol))
    (b.map (fun _ => (0:α))) (by simp [h.rhs])
  refine ⟨hl, he.trans (le_of_eq ?_)⟩
  unfold energyL
  rw [vecFn_zeros]
  exact energy_zero n _ _

/-! ### stopping by the tolerance test -/

theorem absv_eq_abs (d : α) : absv d = |d| := by
  unfold absv
  by_cases h : d < 0
  · simp [h, abs_of_neg h]
  · simp [h, abs_of_nonneg (not_lt.mp h)]

theorem moved_false_iff (atol : α) (x' x : List α) (n : ℕ) (h' : x'.length = n) (hx : x.length = n) :
    moved atol x' x = false ↔ ∀ j, j < n → |vecFn x' j - vecFn x j| ≤ atol := by
  unfold moved
  rw [Bool.eq_false_iff, Ne, List.any_eq_true]
  constructor
  · intro hno j hj
    by_contra hgt
    apply hno
    refine ⟨decide (atol < absv (x'[j]'(by omega) - x[j]'(by omega))), ?_, ?_⟩
    · rw [List.mem_iff_getElem]
      refine ⟨j, by simp [h', hx, hj], by simp⟩
    · have e1 : vecFn x' j = x'[j]'(by omega) := by
        simp [vecFn, List.getD_eq_getElem?_getD, List.getElem?_eq_getElem (show j < x'.length by omega)]
      have e2 : vecFn x j = x[j]'(by omega) := by
        simp [vecFn, List.getD_eq_getElem?_getD, List.getElem?_eq_getElem (show j < x.length by omega)]
      rw [e1, e2] at hgt
      simpa [absv_eq_abs] using hgt
  · rintro hall ⟨c, hc, hct⟩
    obtain ⟨j, hj, rfl⟩ := List.mem_iff_getElem.mp hc
    simp only [List.length_zipWith, h', hx, min_self] at hj
    have := hall j hj
    have e1 : vecFn x' j = x'[j]'(by omega) := by
      simp [vecFn, List.getD_eq_getElem?_getD, List.getElem?_eq_getElem (show j < x'.length by omega)]
    have e2 : vecFn x j = x[j]'(by omega) := by
      simp [vecFn, List.getD_eq_getElem?_getD, List.getElem?_eq_getElem (show j < x.length by omega)]
    rw [e1, e2] at this
    simp [absv_eq_abs] at hct
    exact absurd this (not_le.mpr hct)

theorem gsSweeps_pos_of_cont (A : List (List α)) (b : List α) (atol : α) (fuel : ℕ) (x : List α) :
    gsSweeps A b atol (fuel+1) true x ≥ 1 := by
  unfold gsSweeps; simp

/-- if the loop performed at least one sweep and fewer than it was allowed, it ended because the
    tolerance test failed: the result is a sweep of some vector that it moved by at most `atol` -/
theorem gsLoop_stopped {n : ℕ} {A : List (List α)} {b : List α} (h : Square n A b) (atol : α)
    (fuel : ℕ) (cont : Bool) (x : List α) (hx : x.length = n)
    (h1 : 1 ≤ gsSweeps A b atol fuel cont x) (h2 : gsSweeps A b atol fuel cont x < fuel) :
    ∃ xp : List α, xp.length = n ∧ gsLoop A b atol fuel cont x = gsSweep A b xp ∧
      moved atol (gsSweep A b xp) xp = false := by
  induction fuel generalizing cont x with
  | zero => omega
  | succ fuel ih =>
    by_cases hc : cont = true
    · subst hc
      obtain ⟨hl, _⟩ := gsSweep_fn h x hx
      have hs : gsSweeps A b atol (fuel+1) true x
          = gsSweeps A b atol fuel (moved atol (gsSweep A b x) x) (gsSweep A b x) + 1 := by
        conv_lhs => unfold gsSweeps
        simp
      have hl' : gsLoop A b atol (fuel+1) true x
          = gsLoop A b atol fuel (moved atol (gsSweep A b x) x) (gsSweep A b x) := by
        conv_lhs => unfold gsLoop
        simp
      rw [hs] at h1 h2
      rw [hl']
      by_cases h0 : gsSweeps A b atol fuel (moved atol (gsSweep A b x) x) (gsSweep A b x) = 0
      · -- the next test failed
        have hm : moved atol (gsSweep A b x) x = false := by
          by_contra hne
          have hm : moved atol (gsSweep A b x) x = true := by simpa using hne
          rw [hm] at h0
          cases fuel with
          | zero => omega
          | succ f => have := gsSweeps_pos_of_cont A b atol f (gsSweep A b x); omega
        refine ⟨x, hx, ?_, hm⟩
        rw [hm]
        cases fuel with
        | zero => rfl
        | succ f => unfold gsLoop; simp
      · exact ih _ _ hl (by omega) (by omega)
    · have hcf : cont = false := by simpa using hc
      subst hcf
      unfold gsSweeps at h1
      simp at h1

end GSList
