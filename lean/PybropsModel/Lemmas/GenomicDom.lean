/-
Helper lemmas for C04 (round 4): the dominance model under marker partitions, entries of the
dominance prediction, breeding-value matrices with arbitrary location / scale as phenotype input,
and the `score` variant with an externally supplied centre (model of a seeded change).
-/
import PybropsModel.Lemmas.GenomicMisc
import PybropsModel.Lemmas.AllelesCell
set_option autoImplicit false
set_option linter.unusedSectionVars false
set_option linter.unusedSimpArgs false
set_option linter.unusedVariables false

namespace GDom
open Finset BigOperators GMod GLin GSList GEnt
open C04 (ient)

variable {α : Type} [Field α] [LinearOrder α] [IsStrictOrderedRing α]

/-! ### four-term rearrangement of entrywise sums (no shape hypotheses: `zipWith` truncates alike) -/

theorem vadd_four (a b c d : List α) : vadd (vadd a b) (vadd c d) = vadd (vadd a c) (vadd b d) := by
  unfold vadd
  induction a generalizing b c d with
  | nil => simp
  | cons x xs ih =>
    cases b with
    | nil => simp
    | cons y ys =>
      cases c with
      | nil => simp
      | cons z zs =>
        cases d with
        | nil => simp
        | cons w ws =>
          simp only [List.zipWith_cons_cons, List.cons.injEq]
          exact ⟨by ring, ih ys zs ws⟩

theorem madd_four (a b c d : List (List α)) : madd (madd a b) (madd c d) = madd (madd a c) (madd b d) := by
  unfold madd
  induction a generalizing b c d with
  | nil => simp
  | cons x xs ih =>
    cases b with
    | nil => simp
    | cons y ys =>
      cases c with
      | nil => simp
      | cons z zs =>
        cases d with
        | nil => simp
        | cons w ws =>
          simp only [List.zipWith_cons_cons, List.cons.injEq]
          exact ⟨vadd_four x y z w, ih ys zs ws⟩

/-! ### the heterozygosity design of a column-wise concatenation -/

theorem hetGM_hcat (ploidy : Int) (A1 A2 : List (List Int)) :
    hetGM ploidy (hcat A1 A2) = hcat (hetGM ploidy A1) (hetGM ploidy A2) := by
  unfold hetGM hcat
  induction A1 generalizing A2 with
  | nil => simp
  | cons r rs ih =>
    cases A2 with
    | nil => simp
    | cons s ss => simp [ih ss]

theorem hcat_length' {β : Type} (A B : List (List β)) (h : A.length = B.length) : (hcat A B).length = A.length := by
  simp [hcat, h]

theorem hcat_row_length {β : Type} (A B : List (List β)) (p q : ℕ) (hA : ∀ r ∈ A, r.length = p)
    (hB : ∀ r ∈ B, r.length = q) : ∀ r ∈ hcat A B, r.length = p + q := by
  unfold hcat
  induction A generalizing B with
  | nil => simp
  | cons a as ih =>
    cases B with
    | nil => simp
    | cons b bs =>
      intro r hr
      simp only [List.zipWith_cons_cons, List.mem_cons] at hr
      rcases hr with rfl | hr
      · simp [hA a (by simp), hB b (by simp)]
      · exact ih bs (fun r hr => hA r (by simp [hr])) (fun r hr => hB r (by simp [hr])) r hr

theorem castM_rows (A : List (List Int)) (p : ℕ) (h : ∀ r ∈ A, r.length = p) :
    ∀ r ∈ (castM A : List (List α)), r.length = p := by
  intro r hr
  simp only [castM, List.mem_map] at hr
  obtain ⟨r0, hr0, rfl⟩ := hr
  simpa using h r0 hr0

theorem hetGM_rows (ploidy : Int) (A : List (List Int)) (p : ℕ) (h : ∀ r ∈ A, r.length = p) :
    ∀ r ∈ hetGM ploidy A, r.length = p := by
  intro r hr
  simp only [hetGM, List.mem_map] at hr
  obtain ⟨r0, hr0, rfl⟩ := hr
  simpa using h r0 hr0

/-- **dominance model, marker partition**: with `A = [A₁ | A₂]`, `a = [a₁ ; a₂]`, `d = [d₁ ; d₂]` the GEGV
    is the GEGV of the first block (which carries the intercept) plus `[A₂ | D₂] @ [a₂ ; d₂]` -/
theorem gegvGM_hcat (beta ua1 ua2 ud1 ud2 : List (List α)) (t : ℕ) (ploidy : Int) (A1 A2 : List (List Int))
    (hlen : A1.length = A2.length) (hA1 : ∀ r ∈ A1, r.length = ua1.length) (hA2 : ∀ r ∈ A2, r.length = ua2.length)
    (hd1 : ud1.length = ua1.length) :
    gegvGM beta (ua1 ++ ua2) (ud1 ++ ud2) t ploidy (hcat A1 A2)
      = madd (gegvGM beta ua1 ud1 t ploidy A1)
             (matMul (castM (hcat A2 (hetGM ploidy A2))) (ua2 ++ ud2) t) := by
  unfold gegvGM
  rw [hetGM_hcat, castM_hcat, castM_hcat, castM_hcat, castM_hcat, castM_hcat]
  set Z1 : List (List α) := castM A1
  set Z2 : List (List α) := castM A2
  set D1 : List (List α) := castM (hetGM ploidy A1)
  set D2 : List (List α) := castM (hetGM ploidy A2)
  have lZ1 : Z1.length = A1.length := castM_length A1
  have lZ2 : Z2.length = A2.length := castM_length A2
  have lD1 : D1.length = A1.length := by rw [castM_length]; exact (hetGM_shape ploidy A1 0).1
  have lD2 : D2.length = A2.length := by rw [castM_length]; exact (hetGM_shape ploidy A2 0).1
  have rZ1 : ∀ r ∈ Z1, r.length = ua1.length := castM_rows A1 _ hA1
  have rZ2 : ∀ r ∈ Z2, r.length = ua2.length := castM_rows A2 _ hA2
  have rD1 : ∀ r ∈ D1, r.length = ud1.length := by
    rw [hd1]; exact castM_rows _ _ (hetGM_rows ploidy A1 _ hA1)
  -- left-hand side: split the dominance half off, then the two additive blocks
  rw [gebvMat_hcat beta (hcat Z1 Z2) (hcat D1 D2) (ua1 ++ ua2) (ud1 ++ ud2) t
        (by rw [hcat_length' _ _ (by omega), hcat_length' _ _ (by omega)]; omega)
        (by
          intro r hr
          rw [hcat_row_length Z1 Z2 _ _ rZ1 rZ2 r hr, List.length_append])]
  rw [gebvMat_hcat beta Z1 Z2 ua1 ua2 t (by omega) rZ1]
  rw [matMul_hcat D1 D2 ud1 ud2 t (by omega) rD1]
  -- right-hand side
  rw [gebvMat_hcat beta Z1 D1 ua1 ud1 t (by omega) rZ1]
  rw [matMul_hcat Z2 D2 ua2 ud2 t (by omega) rZ2]
  exact madd_four _ _ _ _

/-! ### entries of the dominance prediction -/

/-- `predict(cvobj, GenotypeMatrix)` of the dominance model:
    `Ŷ_ik = Σ_r X_ir β_rk + Σ_j A_ij a_jk + Σ_j [A_ij ∉ {0, ploidy}] d_jk` -/
theorem predictDomGM_entry (beta ua ud X : List (List α)) (t : ℕ) (ploidy : Int) (A : List (List Int)) (i k : ℕ)
    (hiX : i < X.length) (hi : i < A.length) (hk : k < t) (hX : (X.getD i []).length = beta.length)
    (hrect : ∀ r ∈ A, r.length = ua.length) (hd : ud.length = ua.length) :
    matFn (predictDomGM beta ua ud X t ploidy A) i k
      = ∑ r ∈ range beta.length, matFn X i r * matFn beta r k
        + ∑ j ∈ range ua.length, ((ient A i j : Int) : α) * matFn ua j k
        + ∑ j ∈ range ua.length, (if ient A i j ≠ 0 ∧ ient A i j ≠ ploidy then matFn ud j k else 0) := by
  have hrow : (A.getD i []).length = ua.length := by
    rw [List.getD_eq_getElem?_getD, List.getElem?_eq_getElem hi]
    exact hrect _ (List.getElem_mem hi)
  unfold predictDomGM predictNumpy
  rw [castM_hcat]
  have lH := (hetGM_shape ploidy A i).1
  have hiZ : i < (castM A : List (List α)).length := by rw [castM_length]; exact hi
  have hiD : i < (castM (hetGM ploidy A) : List (List α)).length := by rw [castM_length, lH]; exact hi
  rw [matMul_hcat (castM A) (castM (hetGM ploidy A)) ua ud t (by rw [castM_length, castM_length, lH])
        (castM_rows A _ hrect)]
  have h1 : i < (matMul X beta t).length := by rw [GLin.matMul_length]; exact hiX
  have h2 : i < (matMul (castM A : List (List α)) ua t).length := by rw [GLin.matMul_length]; exact hiZ
  have h3 : i < (matMul (castM (hetGM ploidy A) : List (List α)) ud t).length := by
    rw [GLin.matMul_length]; exact hiD
  have h23 : i < (madd (matMul (castM A : List (List α)) ua t) (matMul (castM (hetGM ploidy A)) ud t)).length := by
    rw [GMisc.madd_length]; exact lt_min h2 h3
  rw [madd_entry _ _ i k h1 h23
        (by rw [matMul_row_length' _ _ t i hiX]; exact hk)
        (by rw [GMisc.madd_row_length _ _ i t h2 h3 (matMul_row_length' _ _ t i hiZ) (matMul_row_length' _ _ t i hiD)]
            exact hk),
      madd_entry _ _ i k h2 h3
        (by rw [matMul_row_length' _ _ t i hiZ]; exact hk)
        (by rw [matMul_row_length' _ _ t i hiD]; exact hk),
      matMul_entry_sum X beta t i k beta.length hiX hk hX rfl,
      matMul_entry_sum (castM A : List (List α)) ua t i k ua.length hiZ hk
        (by rw [castM_row_length]; exact hrow) rfl,
      matMul_entry_sum (castM (hetGM ploidy A) : List (List α)) ud t i k ua.length hiD hk
        (by rw [castM_row_length, (hetGM_shape ploidy A i).2]; exact hrow) hd]
  rw [add_assoc]
  congr 2
  · apply Finset.sum_congr rfl
    intro j _
    rw [matFn_castM]; rfl
  · apply Finset.sum_congr rfl
    intro j hj
    have hj' : j < (A.getD i []).length := by rw [hrow]; exact Finset.mem_range.mp hj
    rw [matFn_castM, hetGM_entry ploidy A i j hi hj']
    unfold ient
    split <;> simp

/-! ### breeding-value matrices with ANY stored location / scale as phenotype input -/

/-- `unscale()` entrywise: `scale_k · mat_ik + location_k` -/
theorem unscaleBV_entry (mat : List (List α)) (loc scale : List α) (t i k : ℕ) (hi : i < mat.length)
    (hrow : (mat.getD i []).length = t) (hl : loc.length = t) (hs : scale.length = t) (hk : k < t) :
    matFn (unscaleBV mat loc scale) i k = vecFn scale k * matFn mat i k + vecFn loc k := by
  unfold unscaleBV matFn vecFn
  have hr : (mat[i]).length = t := by
    simpa [List.getD_eq_getElem?_getD, List.getElem?_eq_getElem hi] using hrow
  have hkz : k < (loc.zip scale).length := by simp [hl, hs]; exact hk
  have hkm : k < (mat[i]).length := by omega
  simp [List.getD_eq_getElem?_getD, List.getElem?_map, List.getElem?_eq_getElem hi, List.getElem?_zipWith,
    List.getElem?_eq_getElem hkz, List.getElem?_eq_getElem hkm, List.getElem_zip,
    List.getElem?_eq_getElem (show k < loc.length by omega),
    List.getElem?_eq_getElem (show k < scale.length by omega)]

/-- the variant proposed by a seeded change: total sum of squares taken about a centre handed in from
    outside (`ptobj.location`) instead of the mean of the values themselves -/
def scoreAbout (centre : List α) (beta u Y X Z : List (List α)) (t : ℕ) : List (Option α) :=
  let Yhat := predictNumpy beta u X Z t
  (List.range t).map (fun k =>
    let y := col Y k
    let sse := (List.zipWith (fun a b => (a - b) * (a - b)) y (col Yhat k)).sum
    let sst := (y.map (fun a => (a - centre.getD k 0) * (a - centre.getD k 0))).sum
    if sst = 0 then none else some (1 - sse / sst))

/-- the variant agrees with `score` when the centre IS the column mean of the unscaled values … -/
theorem scoreAbout_mean (beta u Y X Z : List (List α)) (t : ℕ) :
    scoreAbout ((List.range t).map (fun k => mean (col Y k))) beta u Y X Z t = score beta u Y X Z t := by
  unfold scoreAbout score
  apply List.map_congr_left
  intro k hk
  have hk' : k < t := List.mem_range.mp hk
  simp [List.getD_eq_getElem?_getD, List.getElem?_map, List.getElem?_range hk']

end GDom
