/-
C05 — scalar objective combinators as TRANSLATED FROM THE PYTHON SOURCE (Generated/PyK_C05.lean, rewritten by
harness/py2lean.py on every run): the latent-vector transformations of `sel/prob/trans.py` (`Pareto.latentSum`,
`latentDot`), the weighting of `SelectionProblem.evalfn`, the contribution vectors of the real/integer/binary decision
encodings (`Selection.contrib`, with and without the `1e-10` guard), and the usefulness-criterion cell (`Variance.ucVal`).
-/
import Mathlib.Tactic
import PybropsModel.Generated.PyK_C05
import PybropsModel.Model.Pareto
import PybropsModel.Model.Selection
import PybropsModel.Lemmas.PyKBase
set_option autoImplicit false
set_option linter.unusedSectionVars false
set_option linter.unusedSimpArgs false
set_option linter.unusedTactic false
set_option linter.unreachableTactic false
set_option linter.unnecessarySeqFocus false

namespace PyK.C05

variable {α : Type} [Field α] [LinearOrder α] [IsStrictOrderedRing α]

theorem trans_sum_eq_model (v : List α) : trans_sum v = Pareto.latentSum v := by
  simp only [trans_sum, Pareto.latentSum, List.map_cons, List.map_nil] <;> pyk_arith

theorem trans_dot_eq_model (v w : List α) : trans_dot v w = Pareto.latentDot v w := by
  simp only [trans_dot, Pareto.latentDot, npsum_eq_sum, List.map_cons, List.map_nil, add_zero, List.cons.injEq, and_true] <;>
  (induction v generalizing w with
   | nil => cases w <;> simp
   | cons a t ih =>
     cases w with
     | nil => simp
     | cons b s =>
       simp only [List.zipWith_cons_cons, List.map_cons, List.sum_cons]
       linear_combination ih s)

/-- `|Σ x − s|`: zero exactly when the decision vector sums to the required value -/
theorem trans_decnvec_sum_eq_eq_model (x : List α) (s : α) : trans_decnvec_sum_eq x s = [|Np.sum x - s|] := by
  simp only [trans_decnvec_sum_eq, List.map_cons, List.map_nil]
  congr 1
  by_cases h : Np.sum x - s < 0
  · simp [h, abs_of_neg h]
  · simp [h, abs_of_nonneg (not_lt.mp h)]

theorem trans_decnvec_sum_eq_zero_iff (x : List α) (s : α) : trans_decnvec_sum_eq x s = [0] ↔ Np.sum x = s := by
  rw [trans_decnvec_sum_eq_eq_model]
  simp [sub_eq_zero]

theorem evalfn_obj_eq_model (w t : α) : evalfn_obj w t = w * t := by simp only [evalfn_obj] <;> pyk_arith

/-- the contribution vector without the guard (`1.0 / x.sum() * x`) and the weighted gain -/
theorem contrib_gain_eq_model (eps : α) (x col : List α) :
    contrib_gain x col = -(Np.dot (Selection.contrib false eps x) col) := by
  simp only [contrib_gain, Selection.contrib, Bool.false_eq_true, if_false, List.map_map, Function.comp_def] <;> pyk_arith

/-- the contribution vector with the `abs(xsum) >= 1e-10` guard of the OCS / MEH real, integer and binary encodings -/
theorem ocs_contrib_eq_model (x : List α) : ocs_contrib x = Selection.contrib true (1 / 10000000000) x := by
  have key : (if (1 : α) / 10000000000 ≤ (if Np.sum x < 0 then -Np.sum x else Np.sum x) then Np.sum x else 1)
      = (if (if Np.sum x < 0 then -Np.sum x else Np.sum x) < (1 : α) / 10000000000 then 1 else Np.sum x) := by
    by_cases h : (if Np.sum x < 0 then -Np.sum x else Np.sum x) < (1 : α) / 10000000000
    · rw [if_pos h, if_neg (not_le.mpr h)]
    · rw [if_neg h, if_pos (not_lt.mp h)]
  unfold ocs_contrib Selection.contrib Selection.xsumGuard Selection.absv
  simp only [if_true, ge_iff_le, key] <;> pyk_arith

/-- contributions of the source sum to one whenever the guard is inactive -/
theorem ocs_contrib_sum (x : List α) (h : (1 : α) / 10000000000 ≤ |Np.sum x|) : Np.sum (ocs_contrib x) = 1 := by
  have habs : Selection.absv (Np.sum x) = |Np.sum x| := by
    unfold Selection.absv
    by_cases hn : Np.sum x < 0
    · simp [hn, abs_of_neg hn]
    · simp [hn, abs_of_nonneg (not_lt.mp hn)]
  have hne : Np.sum x ≠ 0 := by
    intro h0; rw [h0, abs_zero] at h
    have : (0 : α) < 1 / 10000000000 := by norm_num
    exact absurd h (not_le.mpr this)
  have hng : ¬ (Selection.absv (Np.sum x) < (1 : α) / 10000000000) := by rw [habs]; exact not_lt.mpr h
  have hne' : x.sum ≠ 0 := by rwa [npsum_eq_sum] at hne
  rw [ocs_contrib_eq_model]
  unfold Selection.contrib Selection.xsumGuard
  simp only [if_true, hng, if_false]
  rw [npsum_eq_sum (List.map _ x), List.sum_map_mul_left, List.map_id', npsum_eq_sum x]
  field_simp

/-- `pmean + selection_intensity * sqrt(maximum(pvar, 0.0))` (the clipping is fix dbcebcc2 / D37) -/
theorem uc_cell_eq_model [Selection.HasSqrt α] (pm inten pvar : α) :
    uc_cell pm inten pvar = Variance.ucVal Selection.HasSqrt.sqrt pm inten pvar := by
  simp only [uc_cell, Variance.ucVal, Variance.clip0] <;> pyk_arith

/-- a progeny variance that rounding pushed below zero counts as zero: the usefulness criterion is then the mean -/
theorem uc_cell_clipped [Selection.HasSqrt α] (pm inten pvar : α) (h : pvar ≤ 0)
    (hs : Selection.HasSqrt.sqrt (0 : α) = 0) : uc_cell pm inten pvar = pm := by
  rw [uc_cell_eq_model]
  unfold Variance.ucVal Variance.clip0
  rcases h.lt_or_eq with h1 | h1
  · simp [h1, hs]
  · simp [h1, hs]

end PyK.C05
