/-
Helper lemmas for C01: soundness of the decidable Spec `Mating.specMate` (the oracle evaluated on
implementation outputs, including the joint pedigree test for nself ≤ 2) for every output of the model.
-/
import Mathlib.Tactic
import PybropsModel.Lemmas.PedigreeSpec
import PybropsModel.Lemmas.PedCheck
set_option autoImplicit false
set_option linter.unusedSectionVars false

namespace Mating
open Meiosis
variable {α ρ : Type}

/-! ### the decidable Spec holds of every output of the model -/

section spec
variable [Preorder ρ] [DecidableLT ρ] [Zero ρ] [BEq α] [LawfulBEq α]
variable {P : Proto} {pop : Pop α} {xc : List (List Nat)} {nmating nprogeny : Cnt} {nself : Nat}
    {xo : List ρ} {pc fc : Nat} {draws : List (DrawMat ρ)} {out : Out α}

theorem rowOK_of (hs : Shaped xo pop) {r : Row α} (h : fc ≤ r.grp ∧ ∃ cross, xc[r.grp - fc]? = some cross ∧
      Mosaic (sources P nself pop cross).1 xo r.ind.1 ∧ Mosaic (sources P nself pop cross).2 xo r.ind.2 ∧
      (P.isDH = true → r.ind.1 = r.ind.2))
    (hl : ∀ cross, xc[r.grp - fc]? = some cross → lineage xo P nself pop cross r.ind) :
    rowOK P nself pop xc xo fc r = true := by
  obtain ⟨h1, cross, hc, m1, m2, hd⟩ := h
  simp only [rowOK, hc, Bool.and_eq_true, decide_eq_true_eq, Bool.or_eq_true, Bool.not_eq_true',
    beq_iff_eq]
  refine ⟨h1, ⟨⟨(mosaicCheck_iff _ _ _).mpr m1, (mosaicCheck_iff _ _ _).mpr m2⟩, ?_⟩,
    Or.inr (pedCheck_of_lineage hs P nself cross r.ind (hl cross hc))⟩
  cases hP : P.isDH
  · exact Or.inl rfl
  · exact Or.inr (hd hP)

theorem spec_of_mate (h : mate P pop xc nmating nprogeny nself xo pc fc draws = .ok out) (hnn : Nonneg draws) :
    (specMate P pop xc nmating nprogeny nself xo pc fc out).1 = true := by
  obtain ⟨nm, np, hnm, hnp, hfacts⟩ := mate_labels h
  simp only at hfacts
  obtain ⟨hcount, hgrp, hpc, hfc, hperm, hmem, hsmall⟩ := hfacts
  have hrows := mate_rows h hnn
  have hped := mate_pedigree h hnn
  have hshape : Shaped xo pop := by
    obtain ⟨_, _, _, hs, _⟩ := mate_inv h
    exact shaped_of_popShaped hs
  simp only [specMate, hnm, hnp, Np.sum_eq_list_sum, Bool.and_eq_true, beq_iff_eq, List.all_eq_true]
  refine ⟨⟨⟨⟨hcount, hgrp⟩, ?_⟩, ⟨hpc, hfc⟩⟩, fun r hr => rowOK_of hshape (hrows r hr) (fun cross hc => by
      obtain ⟨_, cross', hc', hl⟩ := hped r hr
      rw [hc] at hc'
      cases hc'
      exact hl)⟩
  unfold namesOK
  split
  · rename_i hle
    simp only [beq_iff_eq]
    exact hsmall hle
  · simp only [Bool.and_eq_true, List.all_eq_true, List.contains_iff_mem, List.isPerm_iff]
    exact ⟨hmem, hperm⟩

end spec

end Mating
