/-
Helper lemmas for C11: the two Bool oracles of the check that involve the map functions,
`GMap.Spec.specXoprob` (crossover probabilities of a genotype matrix) and `GMap.Spec.specMapfn`
(the map functions themselves), versus the model and the property theorems.
  * `specXoprob` is generic in the scalar the map function is evaluated in (the driver runs it at `Float`);
    it accepts the model's own output (`interpXoprob` evaluated with the same `cast`, `f`) on every valid map,
    for EVERY scalar type and every function `f` — nothing about floating point is used;
  * `specMapfn` is a conjunction of list checks; `specMapfn_iff` states it as a `Prop` (`MapfnLaw`).
-/
import PybropsModel.Lemmas.GMapSpecInterp
import PybropsModel.Lemmas.GMapSpecDist
set_option autoImplicit false
set_option linter.unusedSectionVars false

namespace GMap.Spec
open GMap

/-! ### `specXoprob` accepts the model -/
section xoprob
variable {γ : Type} [Div γ] [OfNat γ 1] [OfNat γ 2]

/-- cell `i` of the model's crossover-probability array after conversion back to rationals -/
theorem xo_cell (cast : ℚ → γ) (f : γ → γ) (back : GDist γ → GDist ℚ) (qchr : List Int) (G : List (Option ℚ))
    (hG : G.length = qchr.length) (i : Nat) (hi : i < qchr.length) :
    (((gdist1g qchr G).map (fun d => mapD f (d.map cast))).map back).getD i .nan =
      back (mapD f ((((gdist1g qchr G)[i]?).getD .nan).map cast)) := by
  have hlen : i < (gdist1g qchr G).length := by
    rw [gdist1g_length, List.length_zip, hG, Nat.min_self]; exact hi
  rw [List.getD_eq_getElem?_getD, List.getElem?_map, List.getElem?_map, List.getElem?_eq_getElem hlen]
  rfl

theorem gdist1g_cell_zero (qchr : List Int) (G : List (Option ℚ)) (hG : G.length = qchr.length)
    (h0 : 0 < qchr.length) : ((gdist1g qchr G)[0]?).getD .nan = GDist.inf := by
  rw [gdist1g_zero qchr G (by rw [List.length_zip, hG, Nat.min_self]; exact h0)]
  rfl

theorem gdist1g_cell_succ (qchr : List Int) (G : List (Option ℚ)) (hG : G.length = qchr.length) (k : Nat)
    (hk : k + 1 < qchr.length) :
    ((gdist1g qchr G)[k + 1]?).getD .nan = seqDist (some (cell qchr G k)) (cell qchr G (k + 1)) := by
  rw [gdist1g_succ, zip_getElem? qchr G hG (k + 1) hk, zip_getElem? qchr G hG k (by omega)]
  rfl

/-- **the crossover-probability oracle accepts the model's output** on every valid map, every variant array,
    for every scalar type `γ`, every embedding `cast`, every map function `f` on finite distances and every
    conversion `back` that keeps NaN and the literal one half (the driver: `Float`, nearest double, the Float
    transcription of `mapfn`, exact value of a double) -/
theorem specXoprob_accepts_model (cast : ℚ → γ) (f : γ → γ) (back : GDist γ → GDist ℚ)
    (hnan : back .nan = .nan) (hhalf : back (.fin half) = .fin (1 / 2))
    (t : Tol) (ht : 0 ≤ t.abs_) (rows : List (Row ℚ Int)) (hv : ValidMap rows) (qchr : List Int) (qphy : List ℚ)
    (hl : qphy.length = qchr.length) :
    (specXoprob cast f back rows qchr qphy (interpXoprob cast f rows qchr qphy).1
      ((interpXoprob cast f rows qchr qphy).2.map back) t).1 = true := by
  have hG : (interpGenpos rows qchr qphy).length = qchr.length := interpGenpos_length' rows qchr qphy hl
  have hX : (((gdist1g qchr (interpGenpos rows qchr qphy)).map (fun d => mapD f (d.map cast))).map back).length
      = qchr.length := by
    rw [List.length_map, List.length_map, gdist1g_length, List.length_zip, hG, Nat.min_self]
  unfold specXoprob interpXoprob
  simp only [hG, hX, bne_self_eq_false, Bool.or_self, Bool.false_eq_true, if_false]
  rw [checks_fst]
  intro p hp
  simp only [List.mem_cons, List.not_mem_nil, or_false] at hp
  rcases hp with rfl | rfl | rfl
  · exact specInterp_accepts_model t ht rows rows (List.Perm.refl _) hv qchr qphy hl
  · rw [range_all]
    intro i hi
    rw [xo_cell cast f back qchr _ hG i hi]
    cases i with
    | zero =>
      rw [gdist1g_cell_zero qchr _ hG hi]
      simp only [GDist.map, mapD, hhalf]
      simp [gdist_beq_self]
    | succ k =>
      by_cases hc : qchr.getD k 0 = qchr.getD (k + 1) 0
      · have hc' := hc
        rw [List.getD_eq_getElem?_getD, List.getD_eq_getElem?_getD] at hc'
        simp [hc']
      · rw [gdist1g_cell_succ qchr _ hG k hi, seqDist_of_ne' (by simpa [cell, lab] using hc)]
        simp only [GDist.map, mapD, hhalf]
        simp [gdist_beq_self]
  · rw [range_all]
    intro i hi
    rw [xo_cell cast f back qchr _ hG i hi]
    cases i with
    | zero => simp
    | succ k =>
      by_cases hc : qchr.getD k 0 = qchr.getD (k + 1) 0
      · rw [gdist1g_cell_succ qchr _ hG k hi, seqDist_of_eq' (by simpa [cell, lab] using hc)]
        simp only [Nat.add_sub_cancel, Nat.add_eq_zero_iff, Nat.succ_ne_zero, and_false, beq_iff_eq, hc, bne_self_eq_false,
          Bool.or_self, Bool.false_or, cell, posn]
        cases h1 : (interpGenpos rows qchr qphy).getD (k + 1) none <;>
          cases h2 : (interpGenpos rows qchr qphy).getD k none <;>
          simp [subPos, GDist.map, mapD, hnan, gdist_beq_self, closeD_self t ht]
      · have hc' := hc
        rw [List.getD_eq_getElem?_getD, List.getD_eq_getElem?_getD] at hc'
        simp [hc']

end xoprob

/-! ### `specMapfn` as a proposition -/

/-- `leD` as a proposition: order on [0, ∞] ∪ {NaN} with NaN incomparable -/
def LeD : GDist ℚ → GDist ℚ → Prop
  | .fin x, .fin y => x ≤ y
  | .fin _, .inf => True
  | .inf, .inf => True
  | _, _ => False

theorem leD_iff (a b : GDist ℚ) : leD a b = true ↔ LeD a b := by
  cases a <;> cases b <;> simp [leD, LeD]

/-- the round-trip clause for one distance `x` and the value `w` the inverse returned -/
def InvOk (kappa : Nat) : GDist ℚ → GDist ℚ → Prop
  | .inf, w => w = .inf
  | .fin a, w => ∀ t, invTol kappa a = some t → closeD t w (.fin a) = true
  | .nan, _ => False

/-- what the map-function oracle demands of `r = mapfn(d)`, `dinv = invmapfn(r)`, as a proposition: the clauses
    of the property (zero to zero, infinity to one half, range, monotone, undone by the inverse to the proven
    conditioning of the round trip) on every listed distance / pair of listed distances -/
structure MapfnLaw (kappa : Nat) (d r dinv : List (GDist ℚ)) : Prop where
  len : r.length = d.length ∧ dinv.length = d.length
  valid : ∀ x ∈ d, LeD (.fin 0) x
  zero : ∀ p ∈ d.zip (r.zip dinv), p.1 = .fin 0 → p.2.1 = .fin 0
  top : ∀ p ∈ d.zip (r.zip dinv), p.1 = .inf → p.2.1 = .fin (1 / 2)
  range : ∀ p ∈ d.zip (r.zip dinv), LeD (.fin 0) p.2.1 ∧ LeD p.2.1 (.fin (1 / 2))
  mono : ∀ p ∈ d.zip (r.zip dinv), ∀ p' ∈ d.zip (r.zip dinv), LeD p.1 p'.1 → LeD p.2.1 p'.2.1
  inv : ∀ p ∈ d.zip (r.zip dinv), InvOk kappa p.1 p.2.2

theorem gdist_beq_iff (a b : GDist ℚ) : (a == b) = true ↔ a = b :=
  ⟨gdist_eq_of_beq, fun h => h ▸ gdist_beq_self a⟩

theorem invOk_iff (kappa : Nat) (x w : GDist ℚ) :
    (match x with
      | .inf => w == .inf
      | .fin a => (match invTol kappa a with
          | some t => closeD t w (.fin a)
          | none => true)
      | .nan => false) = true ↔ InvOk kappa x w := by
  cases x with
  | inf => simp [InvOk, gdist_beq_iff]
  | nan => simp [InvOk]
  | fin a =>
    simp only [InvOk]
    cases h : invTol kappa a with
    | none => simp
    | some t => simp

/-- **the map-function oracle, read as a proposition** -/
theorem specMapfn_iff (kappa : Nat) (d r dinv : List (GDist ℚ)) :
    (specMapfn kappa d r dinv).1 = true ↔ MapfnLaw kappa d r dinv := by
  unfold specMapfn
  by_cases hlen : r.length = d.length ∧ dinv.length = d.length
  · have hc : (r.length != d.length || dinv.length != d.length) = false := by simp [hlen.1, hlen.2]
    simp only [hc, Bool.false_eq_true, if_false]
    rw [checks_fst]
    constructor
    · intro h
      have hv := h (_, _) (List.mem_cons_self ..)
      have hz := h (_, _) (List.mem_cons_of_mem _ (List.mem_cons_self ..))
      have ht := h (_, _) (List.mem_cons_of_mem _ (List.mem_cons_of_mem _ (List.mem_cons_self ..)))
      have hr := h (_, _) (List.mem_cons_of_mem _ (List.mem_cons_of_mem _ (List.mem_cons_of_mem _ (List.mem_cons_self ..))))
      have hm := h (_, _) (List.mem_cons_of_mem _ (List.mem_cons_of_mem _ (List.mem_cons_of_mem _
        (List.mem_cons_of_mem _ (List.mem_cons_self ..)))))
      have hi := h (_, _) (List.mem_cons_of_mem _ (List.mem_cons_of_mem _ (List.mem_cons_of_mem _
        (List.mem_cons_of_mem _ (List.mem_cons_of_mem _ (List.mem_cons_self ..))))))
      simp only [List.all_eq_true] at hv hz ht hr hm hi
      refine ⟨hlen, fun x hx => (leD_iff _ _).mp (hv x hx), ?_, ?_, ?_, ?_, ?_⟩
      · intro p hp h0
        have := hz p hp
        obtain ⟨x, y, w⟩ := p
        simp only at h0 this ⊢
        subst h0
        simpa [gdist_beq_self, gdist_beq_iff] using this
      · intro p hp h0
        have := ht p hp
        obtain ⟨x, y, w⟩ := p
        simp only at h0 this ⊢
        subst h0
        simpa [gdist_beq_self, gdist_beq_iff] using this
      · intro p hp
        have := hr p hp
        obtain ⟨x, y, w⟩ := p
        simp only [Bool.and_eq_true, leD_iff] at this
        exact this
      · intro p hp p' hp' hle
        have := hm p hp p' hp'
        obtain ⟨x, y, w⟩ := p
        obtain ⟨x', y', w'⟩ := p'
        simp only [Bool.or_eq_true, Bool.not_eq_true'] at this
        rcases this with h1 | h1
        · have := (leD_iff x x').mpr hle
          rw [h1] at this; exact absurd this (by simp)
        · exact (leD_iff _ _).mp h1
      · intro p hp
        have := hi p hp
        obtain ⟨x, y, w⟩ := p
        exact (invOk_iff kappa x w).mp this
    · intro h p hp
      simp only [List.mem_cons, List.not_mem_nil, or_false] at hp
      rcases hp with rfl | rfl | rfl | rfl | rfl | rfl
      · simp only [List.all_eq_true]
        exact fun x hx => (leD_iff _ _).mpr (h.valid x hx)
      · simp only [List.all_eq_true]
        intro p hp
        obtain ⟨x, y, w⟩ := p
        by_cases h0 : x = .fin 0
        · have := h.zero _ hp h0
          simp only at this
          simp [h0, this, gdist_beq_self]
        · have : (x == GDist.fin 0) = false := by
            rw [Bool.eq_false_iff]; intro hh; exact h0 (gdist_eq_of_beq hh)
          simp [this]
      · simp only [List.all_eq_true]
        intro p hp
        obtain ⟨x, y, w⟩ := p
        by_cases h0 : x = .inf
        · have := h.top _ hp h0
          simp only at this
          simp [h0, this, gdist_beq_self]
        · have : (x == GDist.inf) = false := by
            rw [Bool.eq_false_iff]; intro hh; exact h0 (gdist_eq_of_beq hh)
          simp [this]
      · simp only [List.all_eq_true]
        intro p hp
        obtain ⟨x, y, w⟩ := p
        have := h.range _ hp
        simp only [Bool.and_eq_true, leD_iff]
        exact this
      · simp only [List.all_eq_true]
        intro p hp p' hp'
        obtain ⟨x, y, w⟩ := p
        obtain ⟨x', y', w'⟩ := p'
        simp only [Bool.or_eq_true, Bool.not_eq_true']
        by_cases hle : leD x x' = true
        · right; exact (leD_iff _ _).mpr (h.mono _ hp _ hp' ((leD_iff _ _).mp hle))
        · left; simpa using hle
      · simp only [List.all_eq_true]
        intro p hp
        obtain ⟨x, y, w⟩ := p
        exact (invOk_iff kappa x w).mpr (h.inv _ hp)
  · have hc : (r.length != d.length || dinv.length != d.length) = true := by
      rcases not_and_or.mp hlen with h | h
      · simp [h]
      · simp [h]
    simp only [hc, if_true]
    constructor
    · intro h; exact absurd h (by simp)
    · intro h; exact absurd h.len hlen

end GMap.Spec
