/-
REGENERATED on every run by harness/py2lean.py (regen) from the pybrops sources -- do not edit.
Property C09: arithmetic kernels translated from Python (module `ast`) to Lean, proved equal to the
model definitions in PybropsModel/Lemmas/PyKEq_C09.lean.
Reading: float literals are the decimal rationals written in the source; a numpy ufunc expression on
arrays is translated as the scalar function of ONE element (elementwise application is implicit);
shape-only operations (`x[:, None]`, `.copy()`, `float()`) are the identity; `x[m] = e` with a boolean
mask is `if m then e else x`; a raised exception is `none`.

kernel tafreq: pybrops/popgen/gmat/DenseGenotypeMatrix.py :: DenseGenotypeMatrix.tafreq  sha=60546d259f6cfbf3  ok
    slice: targets ['out'] -> out
kernel afreq: pybrops/popgen/gmat/DenseGenotypeMatrix.py :: DenseGenotypeMatrix.afreq  sha=0594b25dd30f0b67  ok
    slice: targets ['denom', 'out'] -> out
    out of scope (parameter acount): `self._mat.sum(self.taxa_axis)`
kernel apoly: pybrops/popgen/gmat/DenseGenotypeMatrix.py :: DenseGenotypeMatrix.apoly  sha=88177ebafddabc1a  ok
    slice: targets ['out'] -> out
    out of scope (parameter): afreq = self.afreq()
kernel meh: pybrops/popgen/gmat/DenseGenotypeMatrix.py :: DenseGenotypeMatrix.meh  sha=d8dec49067fb4e7d  ok
    slice: targets ['out', 'p', 'rnphase'] -> out
    out of scope (parameter afreq): `self.afreq()`
kernel gtfreq: pybrops/popgen/gmat/DenseGenotypeMatrix.py :: DenseGenotypeMatrix.gtfreq  sha=2d09aa5c62011217  ok
    slice: targets ['out', 'recip'] -> out
    out of scope (parameter gtcount): `self.gtcount()`
kernel afixed: pybrops/popgen/gmat/DenseGenotypeMatrix.py :: DenseGenotypeMatrix.afixed  sha=83aeae2d6b5fc799  ok
    slice: targets ['out'] -> out
    out of scope (parameter): afreq = self.afreq()
kernel maf: pybrops/popgen/gmat/DenseGenotypeMatrix.py :: DenseGenotypeMatrix.maf  sha=155e14948454c1ef  ok
    slice: targets ['mask', 'out'] -> out
    out of scope (parameter afreq): `self.afreq(dtype)`
kernel ptafreq: pybrops/popgen/gmat/DensePhasedGenotypeMatrix.py :: DensePhasedGenotypeMatrix.tafreq  sha=4903c6cde9220fbc  ok
    slice: targets ['out'] -> out
    out of scope (parameter dosage): `self._mat.sum(self.phase_axis)`
kernel pafreq: pybrops/popgen/gmat/DensePhasedGenotypeMatrix.py :: DensePhasedGenotypeMatrix.afreq  sha=59d450e1febf1d6e  ok
    slice: targets ['denom', 'out'] -> out
    out of scope (parameter acount): `self._mat.sum((self.phase_axis, self.taxa_axis))`
kernel pmaf: pybrops/popgen/gmat/DensePhasedGenotypeMatrix.py :: DensePhasedGenotypeMatrix.maf  sha=155e14948454c1ef  ok
    slice: targets ['mask', 'out'] -> out
    out of scope (parameter afreq): `self.afreq(dtype)`
kernel pmeh: pybrops/popgen/gmat/DensePhasedGenotypeMatrix.py :: DensePhasedGenotypeMatrix.meh  sha=3adc3c0c7d7371e8  ok
    slice: targets ['out', 'p'] -> out
    out of scope (parameter afreq): `self.afreq()`
-/
import PybropsModel.Np

namespace PyK.C09

/-- pybrops/popgen/gmat/DenseGenotypeMatrix.py :: DenseGenotypeMatrix.tafreq; model counterpart: Genotype.tafreqAt -/
def tafreq {α : Type} [Div α] (g : α) (ploidy : α) : α :=
  let out := (g / ploidy)
  out

/-- pybrops/popgen/gmat/DenseGenotypeMatrix.py :: DenseGenotypeMatrix.afreq; model counterpart: Genotype.afreqAt -/
def afreq {α : Type} [Mul α] [Div α] (ploidy : α) (ntaxa : α) (acount : α) : α :=
  let denom := (ploidy * ntaxa)
  let out := (acount / denom)
  out

/-- pybrops/popgen/gmat/DenseGenotypeMatrix.py :: DenseGenotypeMatrix.apoly; model counterpart: Genotype.apolyOf -/
def apoly {α : Type} [OfNat α 0] [OfNat α 1] [LT α] [DecidableLT α] (afreq : α) : Bool :=
  let out : Bool := decide ((afreq > 0) ∧ (afreq < 1))
  out

/-- pybrops/popgen/gmat/DenseGenotypeMatrix.py :: DenseGenotypeMatrix.meh; model counterpart: Genotype.mehOf -/
def meh {α : Type} [Add α] [Sub α] [Mul α] [Div α] [OfNat α 0] [OfNat α 1] (ploidy : α) (nvrnt : α) (afreq : List α) : α :=
  let p := afreq
  let out := (Np.dot p (List.map (fun x => 1 - x) p))
  let rnphase := (ploidy / nvrnt)
  let out := (out * rnphase)
  out

/-- pybrops/popgen/gmat/DenseGenotypeMatrix.py :: DenseGenotypeMatrix.gtfreq; model counterpart: Genotype.gtfreqAt -/
def gtfreq {α : Type} [Mul α] [Div α] [OfNat α 1] (ntaxa : α) (gtcount : α) : α :=
  let recip := (1 / ntaxa)
  let out := (recip * gtcount)
  out

/-- pybrops/popgen/gmat/DenseGenotypeMatrix.py :: DenseGenotypeMatrix.afixed; model counterpart: Genotype.afixedOf -/
def afixed {α : Type} [OfNat α 0] [OfNat α 1] [DecidableEq α] (afreq : α) : Bool :=
  let out : Bool := decide ((afreq = 0) ∨ (afreq = 1))
  out

/-- pybrops/popgen/gmat/DenseGenotypeMatrix.py :: DenseGenotypeMatrix.maf; model counterpart: Genotype.mafOf -/
def maf {α : Type} [Sub α] [Div α] [OfNat α 1] [OfNat α 2] [LT α] [DecidableLT α] (afreq : α) : α :=
  let out := afreq
  let mask : Bool := decide (out > (1 / 2))
  let out := (if (mask = true) then (1 - out) else out)
  out

/-- pybrops/popgen/gmat/DensePhasedGenotypeMatrix.py :: DensePhasedGenotypeMatrix.tafreq; model counterpart: Genotype.tafreqAt (on psum) -/
def ptafreq {α : Type} [Div α] (ploidy : α) (dosage : α) : α :=
  let out := (dosage / ploidy)
  out

/-- pybrops/popgen/gmat/DensePhasedGenotypeMatrix.py :: DensePhasedGenotypeMatrix.afreq; model counterpart: Genotype.pafreqAt -/
def pafreq {α : Type} [Mul α] [Div α] (ploidy : α) (ntaxa : α) (acount : α) : α :=
  let denom := (ploidy * ntaxa)
  let out := (acount / denom)
  out

/-- pybrops/popgen/gmat/DensePhasedGenotypeMatrix.py :: DensePhasedGenotypeMatrix.maf; model counterpart: Genotype.mafOf -/
def pmaf {α : Type} [Sub α] [Div α] [OfNat α 1] [OfNat α 2] [LT α] [DecidableLT α] (afreq : α) : α :=
  let out := afreq
  let mask : Bool := decide (out > (1 / 2))
  let out := (if (mask = true) then (1 - out) else out)
  out

/-- pybrops/popgen/gmat/DensePhasedGenotypeMatrix.py :: DensePhasedGenotypeMatrix.meh; model counterpart: Genotype.mehOf -/
def pmeh {α : Type} [Add α] [Sub α] [Mul α] [Div α] [OfNat α 0] [OfNat α 1] (ploidy : α) (nvrnt : α) (afreq : List α) : α :=
  let p := afreq
  let out := (Np.sum (List.zipWith (fun y z => y * z) p (List.map (fun x => 1 - x) p)))
  let out := (out * (ploidy / nvrnt))
  out

end PyK.C09
