/-
REGENERATED on every run by harness/py2lean.py (regen) from the pybrops sources -- do not edit.
Property C10: arithmetic kernels translated from Python (module `ast`) to Lean, proved equal to the
model definitions in PybropsModel/Lemmas/PyKEq_C10.lean.
Reading: float literals are the decimal rationals written in the source; a numpy ufunc expression on
arrays is translated as the scalar function of ONE element (elementwise application is implicit);
shape-only operations (`x[:, None]`, `.copy()`, `float()`) are the identity; `x[m] = e` with a boolean
mask is `if m then e else x`; a raised exception is `none`.

kernel usl_term: pybrops/model/gmod/DenseAdditiveLinearGenomicModel.py :: DenseAdditiveLinearGenomicModel.usl_numpy  sha=fd428e8909e8fadd  FAILED
    slice: targets ['out', 'p', 'uslgeno'] -> out
    usl_term (pybrops/model/gmod/DenseAdditiveLinearGenomicModel.py:DenseAdditiveLinearGenomicModel.usl_numpy): Untranslatable: name `self._u_a_pos` is neither a declared parameter nor assigned in the kernel
kernel lsl_term: pybrops/model/gmod/DenseAdditiveLinearGenomicModel.py :: DenseAdditiveLinearGenomicModel.lsl_numpy  sha=753042c4f2567d5b  FAILED
    slice: targets ['lslgeno', 'out', 'p'] -> out
    lsl_term (pybrops/model/gmod/DenseAdditiveLinearGenomicModel.py:DenseAdditiveLinearGenomicModel.lsl_numpy): Untranslatable: name `self._u_a_pos` is neither a declared parameter nor assigned in the kernel
kernel usl_geno: pybrops/model/gmod/DenseAdditiveLinearGenomicModel.py :: DenseAdditiveLinearGenomicModel.usl_numpy  sha=fd428e8909e8fadd  FAILED
    slice: targets ['p', 'uslgeno'] -> uslgeno
    usl_geno (pybrops/model/gmod/DenseAdditiveLinearGenomicModel.py:DenseAdditiveLinearGenomicModel.usl_numpy): Untranslatable: name `self._u_a_pos` is neither a declared parameter nor assigned in the kernel
kernel lsl_geno: pybrops/model/gmod/DenseAdditiveLinearGenomicModel.py :: DenseAdditiveLinearGenomicModel.lsl_numpy  sha=753042c4f2567d5b  FAILED
    slice: targets ['lslgeno', 'p'] -> lslgeno
    lsl_geno (pybrops/model/gmod/DenseAdditiveLinearGenomicModel.py:DenseAdditiveLinearGenomicModel.lsl_numpy): Untranslatable: name `self._u_a_pos` is neither a declared parameter nor assigned in the kernel
-/
import PybropsModel.Np

namespace PyK.C10

/-- pybrops/model/gmod/DenseAdditiveLinearGenomicModel.py :: DenseAdditiveLinearGenomicModel.usl_numpy; model counterpart: SelLimit.uslTerm -/
-- NOT TRANSLATED: usl_term (pybrops/model/gmod/DenseAdditiveLinearGenomicModel.py:DenseAdditiveLinearGenomicModel.usl_numpy): Untranslatable: name `self._u_a_pos` is neither a declared parameter nor assigned in the kernel

/-- pybrops/model/gmod/DenseAdditiveLinearGenomicModel.py :: DenseAdditiveLinearGenomicModel.lsl_numpy; model counterpart: SelLimit.lslTerm -/
-- NOT TRANSLATED: lsl_term (pybrops/model/gmod/DenseAdditiveLinearGenomicModel.py:DenseAdditiveLinearGenomicModel.lsl_numpy): Untranslatable: name `self._u_a_pos` is neither a declared parameter nor assigned in the kernel

/-- pybrops/model/gmod/DenseAdditiveLinearGenomicModel.py :: DenseAdditiveLinearGenomicModel.usl_numpy; model counterpart: SelLimit.uslGeno -/
-- NOT TRANSLATED: usl_geno (pybrops/model/gmod/DenseAdditiveLinearGenomicModel.py:DenseAdditiveLinearGenomicModel.usl_numpy): Untranslatable: name `self._u_a_pos` is neither a declared parameter nor assigned in the kernel

/-- pybrops/model/gmod/DenseAdditiveLinearGenomicModel.py :: DenseAdditiveLinearGenomicModel.lsl_numpy; model counterpart: SelLimit.lslGeno -/
-- NOT TRANSLATED: lsl_geno (pybrops/model/gmod/DenseAdditiveLinearGenomicModel.py:DenseAdditiveLinearGenomicModel.lsl_numpy): Untranslatable: name `self._u_a_pos` is neither a declared parameter nor assigned in the kernel

end PyK.C10
