/-
REGENERATED on every run by harness/py2lean.py (regen) from the pybrops sources -- do not edit.
Property C10: arithmetic kernels translated from Python (module `ast`) to Lean, proved equal to the
model definitions in PybropsModel/Lemmas/PyKEq_C10.lean.
Reading: float literals are the decimal rationals written in the source; a numpy ufunc expression on
arrays is translated as the scalar function of ONE element (elementwise application is implicit);
shape-only operations (`x[:, None]`, `.copy()`, `float()`) are the identity; `x[m] = e` with a boolean
mask is `if m then e else x`; a raised exception is `none`.

kernel usl_term: pybrops/model/gmod/DenseAdditiveLinearGenomicModel.py :: DenseAdditiveLinearGenomicModel.usl_numpy  sha=c2136b129b421f8a  ok
    slice: targets ['out', 'p', 'uslgeno'] -> out
kernel lsl_term: pybrops/model/gmod/DenseAdditiveLinearGenomicModel.py :: DenseAdditiveLinearGenomicModel.lsl_numpy  sha=17702e4877bc3553  ok
    slice: targets ['lslgeno', 'out', 'p'] -> out
kernel usl_geno: pybrops/model/gmod/DenseAdditiveLinearGenomicModel.py :: DenseAdditiveLinearGenomicModel.usl_numpy  sha=c2136b129b421f8a  ok
    slice: targets ['p', 'uslgeno'] -> uslgeno
kernel lsl_geno: pybrops/model/gmod/DenseAdditiveLinearGenomicModel.py :: DenseAdditiveLinearGenomicModel.lsl_numpy  sha=17702e4877bc3553  ok
    slice: targets ['lslgeno', 'p'] -> lslgeno
-/
import PybropsModel.Np

namespace PyK.C10

/-- pybrops/model/gmod/DenseAdditiveLinearGenomicModel.py :: DenseAdditiveLinearGenomicModel.usl_numpy; model counterpart: SelLimit.uslTerm -/
def usl_term {α : Type} [Mul α] [OfNat α 0] [OfNat α 1] [LT α] [DecidableLT α] [LE α] [DecidableLE α] (ploidy : α) (u_a : α) (p : α) : α :=
  let uslgeno : Bool := decide (if (u_a > 0) then (p > 0) else (p ≥ 1))
  let out := ((ploidy * u_a) * (if (uslgeno = true) then 1 else 0))
  out

/-- pybrops/model/gmod/DenseAdditiveLinearGenomicModel.py :: DenseAdditiveLinearGenomicModel.lsl_numpy; model counterpart: SelLimit.lslTerm -/
def lsl_term {α : Type} [Mul α] [OfNat α 0] [OfNat α 1] [LT α] [DecidableLT α] [LE α] [DecidableLE α] (ploidy : α) (u_a : α) (p : α) : α :=
  let lslgeno : Bool := decide (if (u_a > 0) then (p ≥ 1) else (p > 0))
  let out := ((ploidy * u_a) * (if (lslgeno = true) then 1 else 0))
  out

/-- pybrops/model/gmod/DenseAdditiveLinearGenomicModel.py :: DenseAdditiveLinearGenomicModel.usl_numpy; model counterpart: SelLimit.uslGeno -/
def usl_geno {α : Type} [OfNat α 0] [OfNat α 1] [LT α] [DecidableLT α] [LE α] [DecidableLE α] (u_a : α) (p : α) : Bool :=
  let uslgeno : Bool := decide (if (u_a > 0) then (p > 0) else (p ≥ 1))
  uslgeno

/-- pybrops/model/gmod/DenseAdditiveLinearGenomicModel.py :: DenseAdditiveLinearGenomicModel.lsl_numpy; model counterpart: SelLimit.lslGeno -/
def lsl_geno {α : Type} [OfNat α 0] [OfNat α 1] [LT α] [DecidableLT α] [LE α] [DecidableLE α] (u_a : α) (p : α) : Bool :=
  let lslgeno : Bool := decide (if (u_a > 0) then (p ≥ 1) else (p > 0))
  lslgeno

end PyK.C10
