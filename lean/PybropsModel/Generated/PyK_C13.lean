/-
REGENERATED on every run by harness/py2lean.py (regen) from the pybrops sources -- do not edit.
Property C13: arithmetic kernels translated from Python (module `ast`) to Lean, proved equal to the
model definitions in PybropsModel/Lemmas/PyKEq_C13.lean.
Reading: float literals are the decimal rationals written in the source; a numpy ufunc expression on
arrays is translated as the scalar function of ONE element (elementwise application is implicit);
shape-only operations (`x[:, None]`, `.copy()`, `float()`) are the identity; `x[m] = e` with a boolean
mask is `if m then e else x`; a raised exception is `none`.

kernel mat_asformat: pybrops/popgen/cmat/DenseCoancestryMatrix.py :: DenseCoancestryMatrix.mat_asformat  sha=1fd3f8a9b0f19e1c  ok
    out of scope (parameter coancestry): `format == 'coancestry'`
    out of scope (parameter kinship): `format == 'kinship'`
kernel kinship_cell: pybrops/popgen/cmat/DenseCoancestryMatrix.py :: DenseCoancestryMatrix.kinship  sha=e2dd7dcfdce71c0c  ok
    out of scope (parameter g): `self._mat[args]`
kernel max_inbreeding: pybrops/popgen/cmat/DenseCoancestryMatrix.py :: DenseCoancestryMatrix.max_inbreeding  sha=1cdc9b24ecd3be0a  ok
    slice: targets ['out'] -> out
    out of scope (parameter dmax): `self.mat.diagonal().max()`
    out of scope (parameter kinship): `format == 'kinship'`
kernel min_inbreeding: pybrops/popgen/cmat/DenseCoancestryMatrix.py :: DenseCoancestryMatrix.min_inbreeding  sha=b8648ed818dc0fb5  ok
    slice: targets ['out'] -> out
    out of scope (parameter ginvsum): `Ginv.sum()`
    out of scope (parameter kinship): `format == 'kinship'`
kernel molecular_cell_diploid: pybrops/popgen/cmat/DenseMolecularCoancestryMatrix.py :: DenseMolecularCoancestryMatrix.from_gmat  sha=ee47edae6e5ccd68  ok
    slice: targets ['mat'] -> mat
    out of scope (parameter xx): `X @ X.T`
kernel molecular_cell_haploid: pybrops/popgen/cmat/DenseMolecularCoancestryMatrix.py :: DenseMolecularCoancestryMatrix.from_gmat  sha=ee47edae6e5ccd68  ok
    slice: targets ['mat'] -> mat
    out of scope (parameter xxyy): `X @ X.T + Y @ Y.T`
kernel molecular_rnvrnt: pybrops/popgen/cmat/DenseMolecularCoancestryMatrix.py :: DenseMolecularCoancestryMatrix.from_gmat  sha=ee47edae6e5ccd68  ok
    slice: targets ['rnvrnt'] -> rnvrnt
kernel molecular_center: pybrops/popgen/cmat/DenseMolecularCoancestryMatrix.py :: DenseMolecularCoancestryMatrix.from_gmat  sha=ee47edae6e5ccd68  ok
    slice: targets ['X'] -> X
kernel vanraden_center: pybrops/popgen/cmat/DenseVanRadenCoancestryMatrix.py :: DenseVanRadenCoancestryMatrix.from_gmat  sha=caa7730088fa4775  ok
    slice: targets ['M', 'Z'] -> Z
    out of scope (parameter): if p_anc is None:
    out of scope (parameter): X = gmat.tacount()
kernel vanraden_scale: pybrops/popgen/cmat/DenseVanRadenCoancestryMatrix.py :: DenseVanRadenCoancestryMatrix.from_gmat  sha=caa7730088fa4775  ok
    slice: targets ['G_scale'] -> G_scale
    out of scope (parameter): if p_anc is None:
kernel vanraden_cell: pybrops/popgen/cmat/DenseVanRadenCoancestryMatrix.py :: DenseVanRadenCoancestryMatrix.from_gmat  sha=caa7730088fa4775  ok
    slice: targets ['G'] -> G
    out of scope (parameter): G_scale = 1.0 / (float(gmat.ploidy) * p_anc.dot(1.0 - p_anc))
    out of scope (parameter zz): `Z.dot(Z.T)`
kernel yang_z: pybrops/popgen/cmat/DenseYangCoancestryMatrix.py :: DenseYangCoancestryMatrix.from_gmat  sha=24ac2f106b25c483  ok
    slice: targets ['M', 'Z', 'Z_scale'] -> Z
    out of scope (parameter): if p_anc is None:
    out of scope (parameter): X = gmat.tacount()
kernel yang_cell: pybrops/popgen/cmat/DenseYangCoancestryMatrix.py :: DenseYangCoancestryMatrix.from_gmat  sha=24ac2f106b25c483  ok
    slice: targets ['G', 'G_scale'] -> G
    out of scope (parameter zz): `Z.dot(Z.T)`
-/
import PybropsModel.Model.Coancestry
import PybropsModel.Np

namespace PyK.C13

/-- pybrops/popgen/cmat/DenseCoancestryMatrix.py :: DenseCoancestryMatrix.mat_asformat; model counterpart: Coancestry kinship = half * coancestry -/
def mat_asformat {α : Type} [Mul α] [Div α] [OfNat α 1] [OfNat α 2] (g : α) (coancestry : Bool) (kinship : Bool) : Option α :=
  if coancestry then
    some (g)
  else
    if kinship then
      some (((1 / 2) * g))
    else
      none

/-- pybrops/popgen/cmat/DenseCoancestryMatrix.py :: DenseCoancestryMatrix.kinship; model counterpart: Coancestry kinship cell -/
def kinship_cell {α : Type} [Mul α] [Div α] [OfNat α 1] [OfNat α 2] (g : α) : α :=
  ((1 / 2) * g)

/-- pybrops/popgen/cmat/DenseCoancestryMatrix.py :: DenseCoancestryMatrix.max_inbreeding; model counterpart: Coancestry maxInbreeding -/
def max_inbreeding {α : Type} [Mul α] [Div α] [OfNat α 1] [OfNat α 2] (dmax : α) (kinship : Bool) : α :=
  let out := dmax
  let out :=
    if kinship then
      let out := ((1 / 2) * out)
      out
    else
      out
  out

/-- pybrops/popgen/cmat/DenseCoancestryMatrix.py :: DenseCoancestryMatrix.min_inbreeding; model counterpart: Coancestry minInbreeding = 1 / sum(inv G) -/
def min_inbreeding {α : Type} [Mul α] [Div α] [OfNat α 1] [OfNat α 2] (ginvsum : α) (kinship : Bool) : α :=
  let out := (1 / ginvsum)
  let out :=
    if kinship then
      let out := ((1 / 2) * out)
      out
    else
      out
  out

/-- pybrops/popgen/cmat/DenseMolecularCoancestryMatrix.py :: DenseMolecularCoancestryMatrix.from_gmat; model counterpart: Coancestry molecular diploid cell 1 + xx/m -/
def molecular_cell_diploid {α : Type} [Add α] [Mul α] [OfNat α 1] (rnvrnt : α) (xx : α) : α :=
  let mat := (1 + (rnvrnt * xx))
  mat

/-- pybrops/popgen/cmat/DenseMolecularCoancestryMatrix.py :: DenseMolecularCoancestryMatrix.from_gmat; model counterpart: Coancestry molecular haploid cell (2/m)(xx+yy) -/
def molecular_cell_haploid {α : Type} [Mul α] [OfNat α 2] (rnvrnt : α) (xxyy : α) : α :=
  let mat := ((2 * rnvrnt) * xxyy)
  mat

/-- pybrops/popgen/cmat/DenseMolecularCoancestryMatrix.py :: DenseMolecularCoancestryMatrix.from_gmat; model counterpart: 1/m -/
def molecular_rnvrnt {α : Type} [Div α] [OfNat α 1] (nvrnt : α) : α :=
  let rnvrnt := (1 / nvrnt)
  rnvrnt

/-- pybrops/popgen/cmat/DenseMolecularCoancestryMatrix.py :: DenseMolecularCoancestryMatrix.from_gmat; model counterpart: X - 1 ({0,1,2} -> {-1,0,1}) -/
def molecular_center {α : Type} [Sub α] [OfNat α 1] (X : α) : α :=
  let X := (X - 1)
  X

/-- pybrops/popgen/cmat/DenseVanRadenCoancestryMatrix.py :: DenseVanRadenCoancestryMatrix.from_gmat; model counterpart: Z = X - ploidy p -/
def vanraden_center {α : Type} [Sub α] [Mul α] (p_anc : α) (ploidy : α) (X : α) : α :=
  let M := (p_anc * ploidy)
  let Z := (X - M)
  Z

/-- pybrops/popgen/cmat/DenseVanRadenCoancestryMatrix.py :: DenseVanRadenCoancestryMatrix.from_gmat; model counterpart: 1 / (ploidy * sum p (1-p)) -/
def vanraden_scale {α : Type} [Add α] [Sub α] [Mul α] [Div α] [OfNat α 0] [OfNat α 1] (p_anc : List α) (ploidy : α) : α :=
  let G_scale := (1 / (ploidy * (Np.dot p_anc (List.map (fun x => 1 - x) p_anc))))
  G_scale

/-- pybrops/popgen/cmat/DenseVanRadenCoancestryMatrix.py :: DenseVanRadenCoancestryMatrix.from_gmat; model counterpart: G = G_scale * zz -/
def vanraden_cell {α : Type} [Mul α] (G_scale : α) (zz : α) : α :=
  let G := (G_scale * zz)
  G

/-- pybrops/popgen/cmat/DenseYangCoancestryMatrix.py :: DenseYangCoancestryMatrix.from_gmat; model counterpart: (X - ploidy p) / sqrt(ploidy p (1-p)) -/
def yang_z {α : Type} [Sub α] [Mul α] [Div α] [OfNat α 1] [Coancestry.HasSqrt α] (p_anc : α) (ploidy : α) (X : α) : α :=
  let M := (p_anc * ploidy)
  let Z := (X - M)
  let Z_scale := (1 / (Coancestry.HasSqrt.sqrt ((ploidy * p_anc) * (1 - p_anc))))
  let Z := (Z * Z_scale)
  Z

/-- pybrops/popgen/cmat/DenseYangCoancestryMatrix.py :: DenseYangCoancestryMatrix.from_gmat; model counterpart: G = zz / m -/
def yang_cell {α : Type} [Mul α] [Div α] [OfNat α 1] (nvrnt : α) (zz : α) : α :=
  let G_scale := (1 / nvrnt)
  let G := (G_scale * zz)
  G

end PyK.C13
