/-
REGENERATED on every run by harness/props/c20.py (pre_build) from
pybrops/breed/arch/RecurrentSelectionBreedingProgram.py — do not edit.
translation: ok
locals of evolve: misc = loc 0
locals of advance: misc = loc 100, mcfg = loc 101
-/
import PybropsModel.Model.Program

namespace C20Schedule
open Program

def evolve : Schedule where
  evolvePre := [
    .ngenDefault,
    .initIfNeeded
  ]
  evolveRep := [
    .incRep,
    .skip,
    .callReset,
    .newDict (.loc 0),
    .call .evaluate [(.genome, .genome), (.geno, .geno), (.pheno, .pheno), (.bval, .bval), (.gmod, .gmod), (.misc, (.loc 0))] [.genome, .geno, .pheno, .bval, .gmod],
    .log .initialize true [(.genome, .genome), (.geno, .geno), (.pheno, .pheno), (.bval, .bval), (.gmod, .gmod), (.misc, (.loc 0))],
    .tick,
    .callAdvance
  ]
  evolvePost := []
  reset := [
    .copyStart .genome 0,
    .copyStart .geno 1,
    .copyStart .pheno 2,
    .copyStart .bval 3,
    .copyStart .gmod 4,
    .setT0
  ]
  advancePre := []
  advanceGen := [
    .skip,
    .newDict (.loc 100),
    .call .pselect [(.genome, .genome), (.geno, .geno), (.pheno, .pheno), (.bval, .bval), (.gmod, .gmod), (.misc, (.loc 100))] [(.loc 101), .genome, .geno, .pheno, .bval, .gmod],
    .log .pselect false [(.mcfg, (.loc 101)), (.genome, .genome), (.geno, .geno), (.pheno, .pheno), (.bval, .bval), (.gmod, .gmod), (.misc, (.loc 100))],
    .newDict (.loc 100),
    .call .mate [(.mcfg, (.loc 101)), (.genome, .genome), (.geno, .geno), (.pheno, .pheno), (.bval, .bval), (.gmod, .gmod), (.misc, (.loc 100))] [.genome, .geno, .pheno, .bval, .gmod],
    .log .mate false [(.mcfg, (.loc 101)), (.genome, .genome), (.geno, .geno), (.pheno, .pheno), (.bval, .bval), (.gmod, .gmod), (.misc, (.loc 100))],
    .newDict (.loc 100),
    .call .evaluate [(.genome, .genome), (.geno, .geno), (.pheno, .pheno), (.bval, .bval), (.gmod, .gmod), (.misc, (.loc 100))] [.genome, .geno, .pheno, .bval, .gmod],
    .log .evaluate false [(.genome, .genome), (.geno, .geno), (.pheno, .pheno), (.bval, .bval), (.gmod, .gmod), (.misc, (.loc 100))],
    .newDict (.loc 100),
    .call .sselect [(.genome, .genome), (.geno, .geno), (.pheno, .pheno), (.bval, .bval), (.gmod, .gmod), (.misc, (.loc 100))] [.genome, .geno, .pheno, .bval, .gmod],
    .log .sselect false [(.genome, .genome), (.geno, .geno), (.pheno, .pheno), (.bval, .bval), (.gmod, .gmod), (.misc, (.loc 100))],
    .tick
  ]
  advancePost := []

end C20Schedule
