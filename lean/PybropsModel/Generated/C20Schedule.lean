/-
REGENERATED on every run by harness/props/c20.py (pre_build) from
pybrops/breed/arch/RecurrentSelectionBreedingProgram.py — do not edit.
translation: ok
-/
import PybropsModel.Model.Program

namespace C20Schedule
open Program

def evolve : Schedule where
  evolvePre := [
    .initIfNeeded
  ]
  evolveRep := [
    .incRep,
    .skip,
    .callReset,
    .newMisc,
    .call .evaluate [.genome, .geno, .pheno, .bval, .gmod, .misc] [.genome, .geno, .pheno, .bval, .gmod],
    .log .initialize true [.genome, .geno, .pheno, .bval, .gmod, .misc],
    .tick,
    .callAdvance
  ]
  evolvePost := []
  reset := [
    .copyStart .genome 0,
    .copyStart .geno 1,
    .copyStart .pheno 2,
    .copyStart .bval 3,
    .copyStart .gmod 4,
    .resetT
  ]
  advancePre := []
  advanceGen := [
    .skip,
    .newMisc,
    .call .pselect [.genome, .geno, .pheno, .bval, .gmod, .misc] [.mcfg, .genome, .geno, .pheno, .bval, .gmod],
    .log .pselect false [.mcfg, .genome, .geno, .pheno, .bval, .gmod, .misc],
    .newMisc,
    .call .mate [.mcfg, .genome, .geno, .pheno, .bval, .gmod, .misc] [.genome, .geno, .pheno, .bval, .gmod],
    .log .mate false [.mcfg, .genome, .geno, .pheno, .bval, .gmod, .misc],
    .newMisc,
    .call .evaluate [.genome, .geno, .pheno, .bval, .gmod, .misc] [.genome, .geno, .pheno, .bval, .gmod],
    .log .evaluate false [.genome, .geno, .pheno, .bval, .gmod, .misc],
    .newMisc,
    .call .sselect [.genome, .geno, .pheno, .bval, .gmod, .misc] [.genome, .geno, .pheno, .bval, .gmod],
    .log .sselect false [.genome, .geno, .pheno, .bval, .gmod, .misc],
    .tick
  ]
  advancePost := []

end C20Schedule
