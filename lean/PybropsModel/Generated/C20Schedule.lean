/-
REGENERATED on every run by harness/props/c20.py (pre_build) from
pybrops/breed/arch/RecurrentSelectionBreedingProgram.py — do not edit.
translation FAILED (Untranslatable: statement not understood: ngen = ngen or self._t_max): empty schedule, not well formed
-/
import PybropsModel.Model.Program

namespace C20Schedule
open Program

def evolve : Schedule where
  evolvePre := []
  evolveRep := []
  evolvePost := []
  reset := []
  advancePre := []
  advanceGen := []
  advancePost := []

end C20Schedule
