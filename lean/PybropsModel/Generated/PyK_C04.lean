/-
REGENERATED on every run by harness/py2lean.py (regen) from the pybrops sources -- do not edit.
Property C04: arithmetic kernels translated from Python (module `ast`) to Lean, proved equal to the
model definitions in PybropsModel/Lemmas/PyKEq_C04.lean.
Reading: float literals are the decimal rationals written in the source; a numpy ufunc expression on
arrays is translated as the scalar function of ONE element (elementwise application is implicit);
shape-only operations (`x[:, None]`, `.copy()`, `float()`) are the identity; `x[m] = e` with a boolean
mask is `if m then e else x`; a raised exception is `none`.

kernel bulmer_ratio: pybrops/model/gmod/DenseAdditiveLinearGenomicModel.py :: DenseAdditiveLinearGenomicModel.bulmer_numpy  sha=a95f43cfe983bada  ok
    slice: targets ['denom', 'mask', 'out'] -> out
    out of scope (parameter): sigma_A = self.var_A_numpy(Z)
    out of scope (parameter): sigma_a = self.var_a_numpy(p, ploidy)
kernel var_a: pybrops/model/gmod/DenseAdditiveLinearGenomicModel.py :: DenseAdditiveLinearGenomicModel.var_a_numpy  sha=c4f8d393174cef79  ok
    slice: targets ['out', 'p'] -> out
kernel facount: pybrops/model/gmod/DenseAdditiveLinearGenomicModel.py :: DenseAdditiveLinearGenomicModel.facount  sha=c5ba57aacf5fd949  ok
    slice: targets ['mask', 'out'] -> out
    out of scope (parameter): acount = gmat.acount(dtype=dtype)[:, None]
    out of scope (parameter): maxfav = dtype.type(gmat.ploidy * gmat.ntaxa)
kernel fafreq: pybrops/model/gmod/DenseAdditiveLinearGenomicModel.py :: DenseAdditiveLinearGenomicModel.fafreq  sha=aa70444c328bec81  ok
    slice: targets ['out'] -> out
    out of scope (parameter facount): `self.facount(gmat)`
kernel dom_design_gm: pybrops/model/gmod/DenseAdditiveDominanceLinearGenomicModel.py :: DenseAdditiveDominanceLinearGenomicModel.gegv  sha=c32b87886fd4dea8  ok
    slice: targets ['D'] -> D
    out of scope (parameter): A = gtobj.mat_asformat('{0,1,2}')
kernel dom_design_raw: pybrops/model/gmod/DenseAdditiveDominanceLinearGenomicModel.py :: DenseAdditiveDominanceLinearGenomicModel.gegv  sha=c32b87886fd4dea8  ok
    slice: targets ['D'] -> D
-/
import PybropsModel.Np

namespace PyK.C04

/-- pybrops/model/gmod/DenseAdditiveLinearGenomicModel.py :: DenseAdditiveLinearGenomicModel.bulmer_numpy; model counterpart: GenomicModel bulmer ratio (none = NaN) -/
def bulmer_ratio {α : Type} [Div α] [OfNat α 0] [OfNat α 1] [DecidableEq α] (sigma_A : α) (sigma_a : α) : Option α :=
  let mask : Bool := decide (sigma_a = 0)
  let denom := sigma_a
  let denom := (if (mask = true) then 1 else denom)
  let out := (sigma_A / denom)
  let out : Option α := if (mask = true) then none else some out
  out

/-- pybrops/model/gmod/DenseAdditiveLinearGenomicModel.py :: DenseAdditiveLinearGenomicModel.var_a_numpy; model counterpart: GenomicModel var_a -/
def var_a {α : Type} [Add α] [Sub α] [Mul α] [OfNat α 0] [OfNat α 1] (ploidy : α) (u_a : List α) (p : List α) : α :=
  let out := ((ploidy * ploidy) * (Np.sum (List.zipWith (fun w x1 => w * x1) (List.zipWith (fun y z => y * z) (List.map (fun x => (x * x)) u_a) p) (List.map (fun x => 1 - x) p))))
  out

/-- pybrops/model/gmod/DenseAdditiveLinearGenomicModel.py :: DenseAdditiveLinearGenomicModel.facount; model counterpart: GMod.faCell -/
def facount {α : Type} [OfNat α 0] [LT α] [DecidableLT α] [DecidableEq α] (u_a : α) (acount : Int) (maxfav : Int) : Int :=
  let mask : Bool := decide (u_a > 0)
  let out := (if (mask = true) then acount else (maxfav - acount))
  let out := (if (u_a = 0) then 0 else out)
  out

/-- pybrops/model/gmod/DenseAdditiveLinearGenomicModel.py :: DenseAdditiveLinearGenomicModel.fafreq; model counterpart: GenomicModel fafreq cell -/
def fafreq {α : Type} [Mul α] [Div α] (ploidy : α) (ntaxa : α) (facount : α) : α :=
  let out := (facount / (ploidy * ntaxa))
  out

/-- pybrops/model/gmod/DenseAdditiveDominanceLinearGenomicModel.py :: DenseAdditiveDominanceLinearGenomicModel.gegv; model counterpart: cell of GMod.hetGM: (A != 0) & (A != ploidy) -/
def dom_design_gm (a : Int) (ploidy : Int) : Bool :=
  let D : Bool := decide ((a ≠ 0) ∧ (a ≠ ploidy))
  D

/-- pybrops/model/gmod/DenseAdditiveDominanceLinearGenomicModel.py :: DenseAdditiveDominanceLinearGenomicModel.gegv; model counterpart: cell of GMod.hetRaw: gtobj == 1 -/
def dom_design_raw (a : Int) : Bool :=
  let D : Bool := decide (a = 1)
  D

end PyK.C04
