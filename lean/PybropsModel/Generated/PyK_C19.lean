/-
REGENERATED on every run by harness/py2lean.py (regen) from the pybrops sources -- do not edit.
Property C19: arithmetic kernels translated from Python (module `ast`) to Lean, proved equal to the
model definitions in PybropsModel/Lemmas/PyKEq_C19.lean.
Reading: float literals are the decimal rationals written in the source; a numpy ufunc expression on
arrays is translated as the scalar function of ONE element (elementwise application is implicit);
shape-only operations (`x[:, None]`, `.copy()`, `float()`) are the identity; `x[m] = e` with a boolean
mask is `if m then e else x`; a raised exception is `none`.

kernel core_colscale: pybrops/core/util/trans.py :: trans_ndpt_pseudo_dist  sha=6a5babf5033ba6a6  ok
    slice: targets ['mask', 'maximum', 'scale'] -> scale
    out of scope (parameter mx): `ndptmat.max(0)`
kernel core_cell: pybrops/core/util/trans.py :: trans_ndpt_pseudo_dist  sha=6a5babf5033ba6a6  ok
    slice: targets ['ndptmat'] -> ndptmat
    out of scope (parameter): scale = 1.0 / maximum
    out of scope (parameter): scale[mask] = 0.0
    out of scope (parameter): scale = LdotLinv * PdotL
    out of scope (parameter cmin): `ndptmat.min(0)`
kernel core_resid: pybrops/core/util/trans.py :: trans_ndpt_pseudo_dist  sha=6a5babf5033ba6a6  ok
    slice: targets ['LdotLinv', 'PdotL', 'oprojL_P', 'projL_P', 'scale'] -> oprojL_P
kernel core_normline: pybrops/core/util/trans.py :: trans_ndpt_pseudo_dist  sha=6a5babf5033ba6a6  ok
    slice: targets ['objfn_pseudoweight'] -> objfn_pseudoweight
    out of scope (parameter amax): `objfn_pseudoweight.max()`
kernel prob_colscale: pybrops/breed/prot/sel/prob/trans.py :: trans_ndpt_to_vec_dist  sha=d7e9f16c32bedd2e  ok
    slice: targets ['mask', 'maximum', 'scale'] -> scale
    out of scope (parameter mx): `mat.max(0)`
kernel prob_cell: pybrops/breed/prot/sel/prob/trans.py :: trans_ndpt_to_vec_dist  sha=d7e9f16c32bedd2e  ok
    slice: targets ['mat'] -> mat
    out of scope (parameter): scale = 1.0 / maximum
    out of scope (parameter): scale[mask] = 0.0
    out of scope (parameter): scale = mat.dot(obj_wt) * vdvinv
    out of scope (parameter cmin): `mat.min(0)`
kernel prob_resid: pybrops/breed/prot/sel/prob/trans.py :: trans_ndpt_to_vec_dist  sha=d7e9f16c32bedd2e  ok
    slice: targets ['P', 'diff', 'scale', 'vdvinv'] -> diff
kernel prob_normline: pybrops/breed/prot/sel/prob/trans.py :: trans_ndpt_to_vec_dist  sha=d7e9f16c32bedd2e  ok
    slice: targets ['obj_wt'] -> obj_wt
    out of scope (parameter amax): `numpy.abs(obj_wt).max()`
kernel fn_colscale: pybrops/breed/prot/sel/transfn.py :: trans_ndpt_to_vec_dist  sha=ad62845299ac6c1c  ok
    slice: targets ['mask', 'maximum', 'scale'] -> scale
    out of scope (parameter mx): `mat.max(0)`
kernel fn_cell: pybrops/breed/prot/sel/transfn.py :: trans_ndpt_to_vec_dist  sha=ad62845299ac6c1c  ok
    slice: targets ['mat'] -> mat
    out of scope (parameter): scale = 1.0 / maximum
    out of scope (parameter): scale[mask] = 0.0
    out of scope (parameter): scale = mat.dot(objfn_wt) * vdvinv
    out of scope (parameter cmin): `mat.min(0)`
kernel fn_resid: pybrops/breed/prot/sel/transfn.py :: trans_ndpt_to_vec_dist  sha=ad62845299ac6c1c  ok
    slice: targets ['P', 'diff', 'scale', 'vdvinv'] -> diff
kernel fn_normline: pybrops/breed/prot/sel/transfn.py :: trans_ndpt_to_vec_dist  sha=ad62845299ac6c1c  ok
    slice: targets ['objfn_wt'] -> objfn_wt
    out of scope (parameter amax): `numpy.abs(objfn_wt).max()`
kernel keeps_row: pybrops/core/util/pareto.py :: is_pareto_efficient  sha=19afe764320e6e35  ok
    slice: targets ['ndpt_mask'] -> ndpt_mask
    out of scope (parameter pivot): `fmat[pt_ix]`
kernel next_pivot: pybrops/core/util/pareto.py :: is_pareto_efficient  sha=19afe764320e6e35  ok
    slice: targets ['pt_ix'] -> pt_ix
    out of scope (parameter kept_before): `numpy.sum(ndpt_mask[:pt_ix])`
kernel dominates: pybrops/opt/algo/pymoo_addon.py :: dominates  sha=bb54aca49d73b783  ok
-/
import PybropsModel.Np

namespace PyK.C19

/-- pybrops/core/util/trans.py :: trans_ndpt_pseudo_dist; model counterpart: Pareto.scaleColsLit column factor -/
def core_colscale {α : Type} [Div α] [OfNat α 0] [OfNat α 1] [DecidableEq α] (mx : α) : α :=
  let maximum := mx
  let mask : Bool := decide (maximum = 0)
  let maximum := (if (mask = true) then 1 else maximum)
  let scale := (1 / maximum)
  let scale := (if (mask = true) then 0 else scale)
  scale

/-- pybrops/core/util/trans.py :: trans_ndpt_pseudo_dist; model counterpart: Pareto.scaleColsLit cell -/
def core_cell {α : Type} [Sub α] [Mul α] (x : α) (sgn : α) (scale : α) (cmin : α) : α :=
  let x := (x * sgn)
  let x := (x - cmin)
  let x := (scale * x)
  x

/-- pybrops/core/util/trans.py :: trans_ndpt_pseudo_dist; model counterpart: Pareto.residCore / residOuter (before the norm) -/
def core_resid {α : Type} [Add α] [Sub α] [Mul α] [Div α] [OfNat α 0] [OfNat α 1] (p : List α) (l : List α) : List α :=
  let LdotLinv := (1 / (Np.dot l l))
  let PdotL := (Np.dot p l)
  let scale := (LdotLinv * PdotL)
  let projL_P := (List.map (fun x => scale * x) l)
  let oprojL_P := (List.zipWith (fun x y => x - y) p projL_P)
  oprojL_P

/-- pybrops/core/util/trans.py :: trans_ndpt_pseudo_dist; model counterpart: Pareto.normLineMax -/
def core_normline {α : Type} [Div α] (l : List α) (amax : α) : List α :=
  let l := (List.map (fun x => x / amax) l)
  l

/-- pybrops/breed/prot/sel/prob/trans.py :: trans_ndpt_to_vec_dist; model counterpart: Pareto.scaleColsLit column factor -/
def prob_colscale {α : Type} [Div α] [OfNat α 0] [OfNat α 1] [DecidableEq α] (mx : α) : α :=
  let maximum := mx
  let mask : Bool := decide (maximum = 0)
  let maximum := (if (mask = true) then 1 else maximum)
  let scale := (1 / maximum)
  let scale := (if (mask = true) then 0 else scale)
  scale

/-- pybrops/breed/prot/sel/prob/trans.py :: trans_ndpt_to_vec_dist; model counterpart: Pareto.scaleColsLit cell -/
def prob_cell {α : Type} [Sub α] [Mul α] (x : α) (sgn : α) (scale : α) (cmin : α) : α :=
  let x := (x * sgn)
  let x := (x - cmin)
  let x := (scale * x)
  x

/-- pybrops/breed/prot/sel/prob/trans.py :: trans_ndpt_to_vec_dist; model counterpart: Pareto.residCore / residOuter (before the norm) -/
def prob_resid {α : Type} [Add α] [Sub α] [Mul α] [Div α] [OfNat α 0] [OfNat α 1] (p : List α) (l : List α) : List α :=
  let vdvinv := (1 / (Np.dot l l))
  let scale := ((Np.dot p l) * vdvinv)
  let P := (List.map (fun x => scale * x) l)
  let diff := (List.zipWith (fun x y => x - y) p P)
  diff

/-- pybrops/breed/prot/sel/prob/trans.py :: trans_ndpt_to_vec_dist; model counterpart: Pareto.normLine (fix c276d45e) -/
def prob_normline {α : Type} [Div α] (l : List α) (amax : α) : List α :=
  let l := (List.map (fun x => x / amax) l)
  l

/-- pybrops/breed/prot/sel/transfn.py :: trans_ndpt_to_vec_dist; model counterpart: Pareto.scaleColsLit column factor -/
def fn_colscale {α : Type} [Div α] [OfNat α 0] [OfNat α 1] [DecidableEq α] (mx : α) : α :=
  let maximum := mx
  let mask : Bool := decide (maximum = 0)
  let maximum := (if (mask = true) then 1 else maximum)
  let scale := (1 / maximum)
  let scale := (if (mask = true) then 0 else scale)
  scale

/-- pybrops/breed/prot/sel/transfn.py :: trans_ndpt_to_vec_dist; model counterpart: Pareto.scaleColsLit cell -/
def fn_cell {α : Type} [Sub α] [Mul α] (x : α) (sgn : α) (scale : α) (cmin : α) : α :=
  let x := (x * sgn)
  let x := (x - cmin)
  let x := (scale * x)
  x

/-- pybrops/breed/prot/sel/transfn.py :: trans_ndpt_to_vec_dist; model counterpart: Pareto.residCore / residOuter (before the norm) -/
def fn_resid {α : Type} [Add α] [Sub α] [Mul α] [Div α] [OfNat α 0] [OfNat α 1] (p : List α) (l : List α) : List α :=
  let vdvinv := (1 / (Np.dot l l))
  let scale := ((Np.dot p l) * vdvinv)
  let P := (List.map (fun x => scale * x) l)
  let diff := (List.zipWith (fun x y => x - y) p P)
  diff

/-- pybrops/breed/prot/sel/transfn.py :: trans_ndpt_to_vec_dist; model counterpart: Pareto.normLine (fix c276d45e) -/
def fn_normline {α : Type} [Div α] (l : List α) (amax : α) : List α :=
  let l := (List.map (fun x => x / amax) l)
  l

/-- pybrops/core/util/pareto.py :: is_pareto_efficient; model counterpart: ! Pareto.weakDom r pivot -/
def keeps_row {α : Type} [LT α] [DecidableLT α] (r : List α) (pivot : List α) : Bool :=
  let ndpt_mask : Bool := decide ((List.zip r pivot).any (fun ab => decide (ab.1 > ab.2)) = true)
  ndpt_mask

/-- pybrops/core/util/pareto.py :: is_pareto_efficient; model counterpart: (mask.take pt).count true + 1 in Pareto.step -/
def next_pivot (kept_before : Nat) : Nat :=
  let pt_ix := (kept_before + 1)
  pt_ix

/-- pybrops/opt/algo/pymoo_addon.py :: dominates; model counterpart: Pareto.dominates -/
def dominates {α : Type} [OfNat α 0] [LT α] [DecidableLT α] [LE α] [DecidableLE α] (obj1 : List α) (cv1 : α) (obj2 : List α) (cv2 : α) : Bool :=
  if ((cv1 ≤ 0) ∧ (cv2 ≤ 0)) then
    decide (((List.zip obj1 obj2).all (fun ab => decide (ab.1 ≤ ab.2)) = true) ∧ ((List.zip obj1 obj2).any (fun ab => decide (ab.1 < ab.2)) = true))
  else
    decide (cv1 < cv2)

end PyK.C19
