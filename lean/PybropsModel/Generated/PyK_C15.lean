/-
REGENERATED on every run by harness/py2lean.py (regen) from the pybrops sources -- do not edit.
Property C15: arithmetic kernels translated from Python (module `ast`) to Lean, proved equal to the
model definitions in PybropsModel/Lemmas/PyKEq_C15.lean.
Reading: float literals are the decimal rationals written in the source; a numpy ufunc expression on
arrays is translated as the scalar function of ONE element (elementwise application is implicit);
shape-only operations (`x[:, None]`, `.copy()`, `float()`) are the identity; `x[m] = e` with a boolean
mask is `if m then e else x`; a raised exception is `none`.

kernel transform: pybrops/core/mat/DenseScaledMatrix.py :: DenseScaledMatrix.transform  sha=6e4c7d1b5801bf16  ok
kernel untransform: pybrops/core/mat/DenseScaledMatrix.py :: DenseScaledMatrix.untransform  sha=c845953467de5404  ok
kernel sm_unscale: pybrops/core/mat/DenseScaledMatrix.py :: DenseScaledMatrix.unscale  sha=ee793a7a1e6aa354  ok
    slice: targets ['out'] -> out
    out of scope (parameter): if inplace:
kernel sm_rescale: pybrops/core/mat/DenseScaledMatrix.py :: DenseScaledMatrix.rescale  sha=22451cb8a496056f  ok
    slice: targets ['const', 'hi', 'lo', 'new_location', 'new_scale', 'out'] -> ('out', 'new_location', 'new_scale')
    out of scope (parameter): if inplace:
    out of scope (parameter nmean): `numpy.nanmean(out, axis=axes)`
    out of scope (parameter nstd): `numpy.nanstd(out, axis=axes)`
    out of scope (parameter nonempty): `out.size > 0`
    out of scope (parameter lo): `numpy.fmin.reduce(out.reshape(-1, out.shape[-1]), axis=0)`
    out of scope (parameter hi): `numpy.fmax.reduce(out.reshape(-1, out.shape[-1]), axis=0)`
kernel bv_unscale: pybrops/popgen/bvmat/DenseBreedingValueMatrix.py :: DenseBreedingValueMatrix.unscale  sha=89337997520e9d78  ok
kernel bv_from_numpy: pybrops/popgen/bvmat/DenseBreedingValueMatrix.py :: DenseBreedingValueMatrix.from_numpy  sha=0e341be7f2469155  ok
    slice: targets ['const', 'hi', 'lo', 'location', 'mat', 'scale'] -> ('mat', 'location', 'scale')
    out of scope (parameter nmean): `numpy.nanmean(mat, axis=0)`
    out of scope (parameter nstd): `numpy.nanstd(mat, axis=0)`
    out of scope (parameter nonempty): `mat.shape[0] > 0`
    out of scope (parameter lo): `numpy.fmin.reduce(mat, axis=0)`
    out of scope (parameter hi): `numpy.fmax.reduce(mat, axis=0)`
kernel bv_tmax: pybrops/popgen/bvmat/DenseBreedingValueMatrix.py :: DenseBreedingValueMatrix.tmax  sha=7cdff93dae3b1a5f  ok
    slice: targets ['out'] -> out
    out of scope (parameter m): `self._mat.max(axis=self.taxa_axis)`
kernel bv_tmin: pybrops/popgen/bvmat/DenseBreedingValueMatrix.py :: DenseBreedingValueMatrix.tmin  sha=d4faf989a0c131a9  ok
    slice: targets ['out'] -> out
    out of scope (parameter m): `self._mat.min(axis=self.taxa_axis)`
kernel bv_trange: pybrops/popgen/bvmat/DenseBreedingValueMatrix.py :: DenseBreedingValueMatrix.trange  sha=072f54552020e9c5  ok
    slice: targets ['out'] -> out
    out of scope (parameter m): `numpy.ptp(self._mat, axis=self.taxa_axis)`
kernel bv_tmean: pybrops/popgen/bvmat/DenseBreedingValueMatrix.py :: DenseBreedingValueMatrix.tmean  sha=42a5d8c5e1e886cc  ok
    slice: targets ['out'] -> out
    out of scope (parameter m): `self._mat.mean(axis=self.taxa_axis)`
kernel bv_tstd: pybrops/popgen/bvmat/DenseBreedingValueMatrix.py :: DenseBreedingValueMatrix.tstd  sha=f20c99084474df12  ok
    out of scope (parameter nstd): `numpy.nanstd(self._mat, axis=self.taxa_axis)`
    out of scope (parameter std): `self._mat.std(axis=self.taxa_axis)`
kernel bv_tvar: pybrops/popgen/bvmat/DenseBreedingValueMatrix.py :: DenseBreedingValueMatrix.tvar  sha=f5e9664981ea9250  ok
    out of scope (parameter nvar): `numpy.nanvar(self._mat, axis=self.taxa_axis)`
    out of scope (parameter var): `self._mat.var(axis=self.taxa_axis)`
-/
import PybropsModel.Np

namespace PyK.C15

/-- pybrops/core/mat/DenseScaledMatrix.py :: DenseScaledMatrix.transform; model counterpart: BVMat transform (x - loc) * (1/scale) -/
def transform {α : Type} [Sub α] [Mul α] [Div α] [OfNat α 1] (mat : α) (copy : Bool) (location : α) (scale : α) : α :=
  let out := (if (copy = true) then mat else mat)
  let out := (out - location)
  let out := (out * (1 / scale))
  out

/-- pybrops/core/mat/DenseScaledMatrix.py :: DenseScaledMatrix.untransform; model counterpart: BVMat untransform x*scale + loc -/
def untransform {α : Type} [Add α] [Mul α] (mat : α) (copy : Bool) (location : α) (scale : α) : α :=
  let out := (if (copy = true) then mat else mat)
  let out := (out * scale)
  let out := (out + location)
  out

/-- pybrops/core/mat/DenseScaledMatrix.py :: DenseScaledMatrix.unscale; model counterpart: BVMat unscale cell -/
def sm_unscale {α : Type} [Add α] [Mul α] (mat : α) (inplace : Bool) (location : α) (scale : α) : α :=
  let out := (if (inplace = true) then mat else mat)
  let out := (out * scale)
  let out := (out + location)
  out

/-- pybrops/core/mat/DenseScaledMatrix.py :: DenseScaledMatrix.rescale; model counterpart: BVMat rescale cell: zero-std guard and constant-trait guard (fitLoc / fitScale) -/
def sm_rescale {α : Type} [Add α] [Sub α] [Mul α] [Div α] [OfNat α 0] [OfNat α 1] [DecidableEq α] (mat : α) (inplace : Bool) (location : α) (scale : α) (nmean : α) (nstd : α) (nonempty : Bool) (lo : α) (hi : α) : (α × α × α) :=
  let out := (if (inplace = true) then mat else mat)
  let out := (out * scale)
  let out := (out + location)
  let new_location := nmean
  let new_scale := nstd
  let new_scale := (if (new_scale = 0) then 1 else new_scale)
  let t_new_location_new_scale :=
    if nonempty then
      let lo_ := lo
      let hi_ := hi
      let const : Bool := decide (lo_ = hi_)
      let new_location := (if (const = true) then lo_ else new_location)
      let new_scale := (if (const = true) then 1 else new_scale)
      (new_location, new_scale)
    else
      (new_location, new_scale)
  let new_location := t_new_location_new_scale.1
  let new_scale := t_new_location_new_scale.2
  let out := (out - new_location)
  let out := (out * (1 / new_scale))
  (out, new_location, new_scale)

/-- pybrops/popgen/bvmat/DenseBreedingValueMatrix.py :: DenseBreedingValueMatrix.unscale; model counterpart: BVMat unscale cell -/
def bv_unscale {α : Type} [Add α] [Mul α] (x : α) (location : α) (scale : α) : α :=
  ((scale * x) + location)

/-- pybrops/popgen/bvmat/DenseBreedingValueMatrix.py :: DenseBreedingValueMatrix.from_numpy; model counterpart: BVMat fromNumpy cell: (x - loc') * (1/scale'), loc'/scale' = BVMat.fitLoc / fitScale -/
def bv_from_numpy {α : Type} [Sub α] [Mul α] [Div α] [OfNat α 0] [OfNat α 1] [DecidableEq α] (mat : α) (nmean : α) (nstd : α) (nonempty : Bool) (lo : α) (hi : α) : (α × α × α) :=
  let location := nmean
  let scale := nstd
  let scale := (if (scale = 0) then 1 else scale)
  let t_location_scale :=
    if nonempty then
      let lo_ := lo
      let hi_ := hi
      let const : Bool := decide (lo_ = hi_)
      let location := (if (const = true) then lo_ else location)
      let scale := (if (const = true) then 1 else scale)
      (location, scale)
    else
      (location, scale)
  let location := t_location_scale.1
  let scale := t_location_scale.2
  let mat := ((1 / scale) * (mat - location))
  (mat, location, scale)

/-- pybrops/popgen/bvmat/DenseBreedingValueMatrix.py :: DenseBreedingValueMatrix.tmax; model counterpart: BVMat tmax -/
def bv_tmax {α : Type} [Add α] [Mul α] (unscale : Bool) (location : α) (scale : α) (m : α) : α :=
  let out := m
  let out :=
    if (unscale = true) then
      let out := (out * scale)
      let out := (out + location)
      out
    else
      out
  out

/-- pybrops/popgen/bvmat/DenseBreedingValueMatrix.py :: DenseBreedingValueMatrix.tmin; model counterpart: BVMat tmin -/
def bv_tmin {α : Type} [Add α] [Mul α] (unscale : Bool) (location : α) (scale : α) (m : α) : α :=
  let out := m
  let out :=
    if (unscale = true) then
      let out := (out * scale)
      let out := (out + location)
      out
    else
      out
  out

/-- pybrops/popgen/bvmat/DenseBreedingValueMatrix.py :: DenseBreedingValueMatrix.trange; model counterpart: BVMat trange -/
def bv_trange {α : Type} [Mul α] (unscale : Bool) (scale : α) (m : α) : α :=
  let out := m
  let out :=
    if (unscale = true) then
      let out := (out * scale)
      out
    else
      out
  out

/-- pybrops/popgen/bvmat/DenseBreedingValueMatrix.py :: DenseBreedingValueMatrix.tmean; model counterpart: BVMat tmean -/
def bv_tmean {α : Type} (unscale : Bool) (location : α) (m : α) : α :=
  let out := (if (unscale = true) then location else m)
  out

/-- pybrops/popgen/bvmat/DenseBreedingValueMatrix.py :: DenseBreedingValueMatrix.tstd; model counterpart: BVMat tstd -/
def bv_tstd {α : Type} [Mul α] (unscale : Bool) (scale : α) (nstd : α) (std : α) : α :=
  let out :=
    if (unscale = true) then
      let out := (scale * nstd)
      out
    else
      let out := std
      out
  out

/-- pybrops/popgen/bvmat/DenseBreedingValueMatrix.py :: DenseBreedingValueMatrix.tvar; model counterpart: BVMat tvar -/
def bv_tvar {α : Type} [Mul α] (unscale : Bool) (scale : α) (nvar : α) (var : α) : α :=
  let out :=
    if (unscale = true) then
      let out := ((scale * scale) * nvar)
      out
    else
      let out := var
      out
  out

end PyK.C15
