/-
REGENERATED on every run by harness/py2lean.py (regen) from the pybrops sources -- do not edit.
Property C18: arithmetic kernels translated from Python (module `ast`) to Lean, proved equal to the
model definitions in PybropsModel/Lemmas/PyKEq_C18.lean.
Reading: float literals are the decimal rationals written in the source; a numpy ufunc expression on
arrays is translated as the scalar function of ONE element (elementwise application is implicit);
shape-only operations (`x[:, None]`, `.copy()`, `float()`) are the identity; `x[m] = e` with a boolean
mask is `if m then e else x`; a raised exception is `none`.

kernel ideal_blocks: pybrops/core/util/haplo.py :: nhaploblk_chrom  sha=3d47df3dca0c457a  ok
    slice: targets ['nhaploblk_ideal'] -> nhaploblk_ideal
    out of scope (parameter): genlen = genpos[chrgrp_spix - 1] - genpos[chrgrp_stix]
    out of scope (parameter total): `genlen.sum()`
kernel apportion_diff: pybrops/core/util/haplo.py :: nhaploblk_chrom  sha=3d47df3dca0c457a  ok
    slice: targets ['diff'] -> diff
kernel apportion_full: pybrops/core/util/haplo.py :: nhaploblk_chrom  sha=3d47df3dca0c457a  ok
    slice: targets ['full'] -> full
    out of scope (parameter): nhaploblk_chrom[ix] += 1
kernel bin_member: pybrops/core/util/haplo.py :: haplobin  sha=316487250307c866  ok
    slice: targets ['lmask', 'mask', 'umask'] -> mask
    out of scope (parameter): chrmap = genpos[stix:spix]
    out of scope (parameter lo): `hbound[j]`
    out of scope (parameter hi): `hbound[j + 1]`
kernel ohv_cell: pybrops/breed/prot/sel/prob/OptimalHaploidValueSelectionProblem.py :: OptimalHaploidValueSelectionProblemMixin._calc_ohvmat  sha=96b5b75cbf20496a  ok
    slice: targets ['out'] -> out
    out of scope (parameter best): `haplomat[:, xconfig, :, :].max((0, 2)).sum(1)`
kernel ohv_latent_w: pybrops/breed/prot/sel/prob/OptimalHaploidValueSelectionProblem.py :: OptimalHaploidValueRealSelectionProblem.latentfn  sha=f4ae609004570acc  ok
kernel ohv_latent_w_int: pybrops/breed/prot/sel/prob/OptimalHaploidValueSelectionProblem.py :: OptimalHaploidValueIntegerSelectionProblem.latentfn  sha=f4ae609004570acc  ok
kernel ohv_latent_w_bin: pybrops/breed/prot/sel/prob/OptimalHaploidValueSelectionProblem.py :: OptimalHaploidValueBinarySelectionProblem.latentfn  sha=f4ae609004570acc  ok
kernel ohv_latent: pybrops/breed/prot/sel/prob/OptimalHaploidValueSelectionProblem.py :: OptimalHaploidValueSubsetSelectionProblem.latentfn  sha=e61847eba31a98c6  ok
    out of scope (parameter n): `len(x)`
    out of scope (parameter s): `self._ohvmat[x, :].sum(0)`
kernel ohv_step: pybrops/breed/prot/sel/prob/OptimalHaploidValueSelectionProblem.py :: OptimalHaploidValueSelectionProblemMixin._calc_ohvmat  sha=96b5b75cbf20496a  ok
    slice: targets ['step'] -> step
    out of scope (parameter): nconfig = xmap.shape[0]
    out of scope (parameter mem_none): `mem is None`
-/
import PybropsModel.Np

namespace PyK.C18

/-- pybrops/core/util/haplo.py :: nhaploblk_chrom; model counterpart: Haplo ideal = nhaploblk / total * genlen -/
def ideal_blocks {α : Type} [Mul α] [Div α] (nhaploblk : α) (genlen : α) (total : α) : α :=
  let nhaploblk_ideal := ((nhaploblk / total) * genlen)
  nhaploblk_ideal

/-- pybrops/core/util/haplo.py :: nhaploblk_chrom; model counterpart: Haplo diff = assigned - ideal (first assignment; the `where(full, inf, diff)` of fix 53ce2603 is out of scope) -/
def apportion_diff {α : Type} [Sub α] (cur : α) (ideal : α) : α :=
  let diff := (cur - ideal)
  diff

/-- pybrops/core/util/haplo.py :: nhaploblk_chrom; model counterpart: a chromosome is full when it already has as many blocks as markers (fix 53ce2603) -/
def apportion_full (cur : Nat) (len_ : Nat) : Bool :=
  let full : Bool := decide (cur ≥ len_)
  full

/-- pybrops/core/util/haplo.py :: haplobin; model counterpart: Haplo inBin lo <= x <= hi -/
def bin_member {α : Type} [LE α] [DecidableLE α] (chrmap : α) (lo : α) (hi : α) : Bool :=
  let lmask : Bool := decide (chrmap ≥ lo)
  let umask : Bool := decide (chrmap ≤ hi)
  let mask : Bool := decide ((lmask = true) ∧ (umask = true))
  mask

/-- pybrops/breed/prot/sel/prob/OptimalHaploidValueSelectionProblem.py :: OptimalHaploidValueSelectionProblemMixin._calc_ohvmat; model counterpart: Haplo ohv = ploidy * sum of block maxima -/
def ohv_cell {α : Type} [Mul α] (ploidy : α) (best : α) : α :=
  let out := (ploidy * best)
  out

/-- pybrops/breed/prot/sel/prob/OptimalHaploidValueSelectionProblem.py :: OptimalHaploidValueRealSelectionProblem.latentfn; model counterpart: Haplo.ohvLatentW -/
def ohv_latent_w {α : Type} [Add α] [Mul α] [Div α] [Neg α] [OfNat α 0] [OfNat α 1] (x : List α) (col : List α) : α :=
  let contrib := (List.map (fun y => (1 / (Np.sum x)) * y) x)
  let out := (-(Np.dot contrib col))
  out

/-- pybrops/breed/prot/sel/prob/OptimalHaploidValueSelectionProblem.py :: OptimalHaploidValueIntegerSelectionProblem.latentfn; model counterpart: Haplo.ohvLatentW -/
def ohv_latent_w_int {α : Type} [Add α] [Mul α] [Div α] [Neg α] [OfNat α 0] [OfNat α 1] (x : List α) (col : List α) : α :=
  let contrib := (List.map (fun y => (1 / (Np.sum x)) * y) x)
  let out := (-(Np.dot contrib col))
  out

/-- pybrops/breed/prot/sel/prob/OptimalHaploidValueSelectionProblem.py :: OptimalHaploidValueBinarySelectionProblem.latentfn; model counterpart: Haplo.ohvLatentW -/
def ohv_latent_w_bin {α : Type} [Add α] [Mul α] [Div α] [Neg α] [OfNat α 0] [OfNat α 1] (x : List α) (col : List α) : α :=
  let contrib := (List.map (fun y => (1 / (Np.sum x)) * y) x)
  let out := (-(Np.dot contrib col))
  out

/-- pybrops/breed/prot/sel/prob/OptimalHaploidValueSelectionProblem.py :: OptimalHaploidValueSubsetSelectionProblem.latentfn; model counterpart: Haplo.ohvLatent -/
def ohv_latent {α : Type} [Mul α] [Div α] [Neg α] [OfNat α 1] (n : α) (s : α) : α :=
  let out := ((-(1 / n)) * s)
  out

/-- pybrops/breed/prot/sel/prob/OptimalHaploidValueSelectionProblem.py :: OptimalHaploidValueSelectionProblemMixin._calc_ohvmat; model counterpart: chunk step -/
def ohv_step (nconfig : Nat) (mem : Nat) (mem_none : Bool) : Nat :=
  let step := (if mem_none then nconfig else mem)
  step

end PyK.C18
