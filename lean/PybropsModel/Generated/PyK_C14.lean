/-
REGENERATED on every run by harness/py2lean.py (regen) from the pybrops sources -- do not edit.
Property C14: arithmetic kernels translated from Python (module `ast`) to Lean, proved equal to the
model definitions in PybropsModel/Lemmas/PyKEq_C14.lean.
Reading: float literals are the decimal rationals written in the source; a numpy ufunc expression on
arrays is translated as the scalar function of ONE element (elementwise application is implicit);
shape-only operations (`x[:, None]`, `.copy()`, `float()`) are the identity; `x[m] = e` with a boolean
mask is `if m then e else x`; a raised exception is `none`.

kernel var_err_h2: pybrops/breed/prot/pt/G_E_Phenotyping.py :: G_E_Phenotyping.set_h2  sha=c3fde4ea1b052735  ok
    slice: targets ['self.var_err'] -> self.var_err
    out of scope (parameter): var_A = self.gpmod.var_A(pgmat)
kernel var_err_H2: pybrops/breed/prot/pt/G_E_Phenotyping.py :: G_E_Phenotyping.set_H2  sha=e5aa3213f0daae2e  ok
    slice: targets ['self.var_err'] -> self.var_err
    out of scope (parameter): var_G = self.gpmod.var_G(pgmat)
-/
import PybropsModel.Np

namespace PyK.C14

/-- pybrops/breed/prot/pt/G_E_Phenotyping.py :: G_E_Phenotyping.set_h2; model counterpart: Pheno varErrOfH2 -/
def var_err_h2 {α : Type} [Sub α] [Mul α] [Div α] [OfNat α 1] (h2 : α) (var_A : α) : α :=
  let var_err := (((1 - h2) / h2) * var_A)
  var_err

/-- pybrops/breed/prot/pt/G_E_Phenotyping.py :: G_E_Phenotyping.set_H2; model counterpart: Pheno varErrOfH2 -/
def var_err_H2 {α : Type} [Sub α] [Mul α] [Div α] [OfNat α 1] (h2 : α) (var_G : α) : α :=
  let var_err := (((1 - h2) / h2) * var_G)
  var_err

end PyK.C14
