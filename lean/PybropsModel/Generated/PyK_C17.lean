/-
REGENERATED on every run by harness/py2lean.py (regen) from the pybrops sources -- do not edit.
Property C17: arithmetic kernels translated from Python (module `ast`) to Lean, proved equal to the
model definitions in PybropsModel/Lemmas/PyKEq_C17.lean.
Reading: float literals are the decimal rationals written in the source; a numpy ufunc expression on
arrays is translated as the scalar function of ONE element (elementwise application is implicit);
shape-only operations (`x[:, None]`, `.copy()`, `float()`) are the identity; `x[m] = e` with a boolean
mask is `if m then e else x`; a raised exception is `none`.

kernel sus_pointer: pybrops/core/random/sampling.py :: stochastic_universal_sampling  sha=3268950221799109  ok
    slice: targets ['ptr_dist', 'ptrs'] -> ptrs
    out of scope (parameter): k = numpy.prod(size)
    out of scope (parameter): tot_fit = p.sum()
    out of scope (parameter): offset = rng.uniform(0.0, ptr_dist)
    out of scope (parameter i): `numpy.arange(k)`
kernel sus_lo: pybrops/core/random/sampling.py :: stochastic_universal_sampling  sha=3268950221799109  ok
    slice: targets ['lo', 'ptr_dist'] -> lo
    out of scope (parameter): k = numpy.prod(size)
    out of scope (parameter): tot_fit = p.sum()
    out of scope (parameter): offset = rng.uniform(0.0, ptr_dist)
kernel tiled_qu_re: pybrops/core/random/sampling.py :: tiled_choice  sha=6d0c85e176d74739  ok
    slice: targets ['qu', 're'] -> ('qu', 're')
    out of scope (parameter): noption = len(a)
-/
import PybropsModel.Np

namespace PyK.C17

/-- pybrops/core/random/sampling.py :: stochastic_universal_sampling; model counterpart: Sampling pointer offset + i * tot/k -/
def sus_pointer {α : Type} [Add α] [Mul α] [Div α] (tot_fit : α) (k : α) (offset : α) (i : α) : α :=
  let ptr_dist := (tot_fit / k)
  let ptrs := (offset + (ptr_dist * i))
  ptrs

/-- pybrops/core/random/sampling.py :: stochastic_universal_sampling; model counterpart: Sampling lo = offset < ptr_dist/2 -/
def sus_lo {α : Type} [Mul α] [Div α] [OfNat α 1] [OfNat α 2] [LT α] [DecidableLT α] (tot_fit : α) (k : α) (offset : α) : Bool :=
  let ptr_dist := (tot_fit / k)
  let lo : Bool := decide (offset < ((1 / 2) * ptr_dist))
  lo

/-- pybrops/core/random/sampling.py :: tiled_choice; model counterpart: Sampling tiles: divmod(nsample, noption) -/
def tiled_qu_re (nsample : Nat) (noption : Nat) : (Nat × Nat) :=
  let qu := (nsample / noption)
  let re := (nsample % noption)
  (qu, re)

end PyK.C17
