/-
REGENERATED on every run by harness/py2lean.py (regen) from the pybrops sources -- do not edit.
Property C12: arithmetic kernels translated from Python (module `ast`) to Lean, proved equal to the
model definitions in PybropsModel/Lemmas/PyKEq_C12.lean.
Reading: float literals are the decimal rationals written in the source; a numpy ufunc expression on
arrays is translated as the scalar function of ONE element (elementwise application is implicit);
shape-only operations (`x[:, None]`, `.copy()`, `float()`) are the identity; `x[m] = e` with a boolean
mask is `if m then e else x`; a raised exception is `none`.

kernel rprob_filial: pybrops/model/vmat/util.py :: rprob_filial  sha=9de0016d1d04653a  ok
kernel rprob_filial_inf: pybrops/model/vmat/util.py :: rprob_filial  sha=9de0016d1d04653a  ok
    partial evaluation: {'k': 'inf'}
kernel cov_D1s: pybrops/model/vmat/util.py :: cov_D1s  sha=2676276fc281535e  ok
kernel cov_D1s_inf: pybrops/model/vmat/util.py :: cov_D1s  sha=2676276fc281535e  ok
    partial evaluation: {'nself': 'inf'}
kernel cov_D2s: pybrops/model/vmat/util.py :: cov_D2s  sha=1c456c30641d04ac  ok
kernel cov_D2s_inf: pybrops/model/vmat/util.py :: cov_D2s  sha=1c456c30641d04ac  ok
    partial evaluation: {'nself': 'inf'}
kernel cov_D1st: pybrops/model/vmat/util.py :: cov_D1st  sha=5de4a518b753cc3a  ok
kernel cov_D2st: pybrops/model/vmat/util.py :: cov_D2st  sha=93fb12914801cbc0  ok
kernel chunk_step: pybrops/model/vmat/DenseTwoWayDHAdditiveGeneticVarianceMatrix.py :: DenseTwoWayDHAdditiveGeneticVarianceMatrix.from_algmod  sha=f74a134de8103d53  ok
    slice: targets ['step'] -> step
    out of scope (parameter mem_none): `mem is None`
kernel threeway_part: pybrops/model/vmat/DenseThreeWayDHAdditiveGeneticVarianceMatrix.py :: DenseThreeWayDHAdditiveGeneticVarianceMatrix.from_algmod  sha=31934ac6a694d70e  ok
    slice: targets ['varA_part'] -> varA_part
    out of scope (parameter): varA_part23 = (reffect23 @ D2 * ceffect23).sum(1)
    out of scope (parameter): varA_part31 = (reffect31 @ D1 * ceffect31).sum(1)
kernel threeway_quarter: pybrops/model/vmat/DenseThreeWayDHAdditiveGeneticVarianceMatrix.py :: DenseThreeWayDHAdditiveGeneticVarianceMatrix.from_algmod  sha=31934ac6a694d70e  ok
    slice: targets ['varA_mat'] -> varA_mat
    out of scope (parameter): varA_mat = numpy.zeros((ntaxa, ntaxa, ntaxa, ntrait), dtype=float)
    out of scope (parameter): for lst, lsp in zip(chrgrp_stix, chrgrp_spix):
    out of scope (parameter): for female in range(1, ntaxa):
kernel genic_varcoef: pybrops/model/vmat/DenseTwoWayDHAdditiveGenicVarianceMatrix.py :: DenseTwoWayDHAdditiveGenicVarianceMatrix.from_algmod  sha=73913d9b1ff550ae  ok
    slice: targets ['varcoef'] -> varcoef
    out of scope (parameter): ploidy = pgmat.ploidy
    out of scope (parameter): u = algmod.u_a
kernel genic_term: pybrops/model/vmat/DenseTwoWayDHAdditiveGenicVarianceMatrix.py :: DenseTwoWayDHAdditiveGenicVarianceMatrix.from_algmod  sha=73913d9b1ff550ae  ok
    slice: targets ['v'] -> v
    out of scope (parameter): p = numpy.dot(epgc, tafreq[(female, male), :])
-/
import PybropsModel.Np

namespace PyK.C12

/-- `x ** k` for a natural exponent held in a variable -/
def powN {α : Type} [Mul α] [OfNat α 1] (x : α) : Nat → α
  | 0 => 1
  | n + 1 => powN x n * x

/-- pybrops/model/vmat/util.py :: rprob_filial; model counterpart: Variance.rprobFilial r (some k) -/
def rprob_filial {α : Type} [Add α] [Sub α] [Mul α] [Div α] [OfNat α 1] [OfNat α 2] (r : α) (k : Nat) : α :=
  let two_r := (2 * r)
  let r_k := (two_r / (1 + two_r))
  let r_k := (r_k * (1 - ((powN (1 / 2) k) * (powN (1 - two_r) k))))
  r_k

/-- pybrops/model/vmat/util.py :: rprob_filial; model counterpart: Variance.rprobFilial r none.  k = numpy.inf (partial evaluation) -/
def rprob_filial_inf {α : Type} [Add α] [Mul α] [Div α] [OfNat α 1] [OfNat α 2] (r : α) : α :=
  let two_r := (2 * r)
  let r_k := (two_r / (1 + two_r))
  r_k

/-- pybrops/model/vmat/util.py :: cov_D1s; model counterpart: Variance.covD1s r (some nself) -/
def cov_D1s {α : Type} [Add α] [Sub α] [Mul α] [Div α] [OfNat α 1] [OfNat α 2] (r : α) (nself : Nat) : Option α :=
  if (nself = 0) then
    some ((1 - (2 * r)))
  else
    if (nself > 0) then
      some ((1 - (2 * (rprob_filial r (nself + 1)))))
    else
      none

/-- pybrops/model/vmat/util.py :: cov_D1s; model counterpart: Variance.covD1s r none -/
def cov_D1s_inf {α : Type} [Add α] [Sub α] [Mul α] [Div α] [OfNat α 1] [OfNat α 2] (r : α) : Option α :=
  some ((1 - (2 * (rprob_filial_inf r))))

/-- pybrops/model/vmat/util.py :: cov_D2s; model counterpart: Variance.covD2s r (some nself) -/
def cov_D2s {α : Type} [Add α] [Sub α] [Mul α] [Div α] [OfNat α 1] [OfNat α 2] [OfNat α 4] (r : α) (nself : Nat) : Option α :=
  if (nself = 0) then
    some ((let pw_ := (1 - (2 * r)); pw_ * pw_))
  else
    if (nself > 0) then
      let four_r := (4 * r)
      some (((1 - four_r) + (four_r * (rprob_filial r (nself + 1)))))
    else
      none

/-- pybrops/model/vmat/util.py :: cov_D2s; model counterpart: Variance.covD2s r none -/
def cov_D2s_inf {α : Type} [Add α] [Sub α] [Mul α] [Div α] [OfNat α 1] [OfNat α 2] [OfNat α 4] (r : α) : Option α :=
  let four_r := (4 * r)
  some (((1 - four_r) + (four_r * (rprob_filial_inf r))))

/-- pybrops/model/vmat/util.py :: cov_D1st; model counterpart: Variance.covD1st r (some nself) t -/
def cov_D1st {α : Type} [Add α] [Sub α] [Mul α] [Div α] [OfNat α 1] [OfNat α 2] (r : α) (nself : Nat) (t : Nat) : Option α :=
  if ((nself = 0) ∧ (t = 0)) then
    some ((1 - (2 * r)))
  else
    if (nself > 0) then
      let r_k := (rprob_filial r (nself + 1))
      some ((1 - (2 * r_k)))
    else
      if (t > 0) then
        some (((1 - (2 * r)) * (powN (1 - r) t)))
      else
        none

/-- pybrops/model/vmat/util.py :: cov_D2st; model counterpart: Variance.covD2st r (some nself) t -/
def cov_D2st {α : Type} [Add α] [Sub α] [Mul α] [Div α] [OfNat α 1] [OfNat α 2] [OfNat α 4] (r : α) (nself : Nat) (t : Nat) : Option α :=
  if ((nself = 0) ∧ (t = 0)) then
    some ((let pw_ := (1 - (2 * r)); pw_ * pw_))
  else
    if (nself > 0) then
      let r_k := (rprob_filial r (nself + 1))
      let four_r := (4 * r)
      some (((1 - four_r) + (four_r * r_k)))
    else
      if (t > 0) then
        some (((let pw_ := (1 - (2 * r)); pw_ * pw_) * (powN (1 - r) t)))
      else
        none

/-- pybrops/model/vmat/DenseTwoWayDHAdditiveGeneticVarianceMatrix.py :: DenseTwoWayDHAdditiveGeneticVarianceMatrix.from_algmod; model counterpart: mem.getD (c.2 - c.1) in Variance.accum.  natural subtraction: lst <= lsp for group bounds -/
def chunk_step (lsp : Nat) (lst : Nat) (mem : Nat) (mem_none : Bool) : Nat :=
  let step := (if mem_none then (lsp - lst) else mem)
  step

/-- pybrops/model/vmat/DenseThreeWayDHAdditiveGeneticVarianceMatrix.py :: DenseThreeWayDHAdditiveGeneticVarianceMatrix.from_algmod; model counterpart: summand of Variance.Setup.threeWay (2(q21+q31)+q23) -/
def threeway_part {α : Type} [Add α] [Mul α] [OfNat α 2] (varA_part21 : α) (varA_part31 : α) (varA_part23 : α) : α :=
  let varA_part := ((2 * (varA_part21 + varA_part31)) + varA_part23)
  varA_part

/-- pybrops/model/vmat/DenseThreeWayDHAdditiveGeneticVarianceMatrix.py :: DenseThreeWayDHAdditiveGeneticVarianceMatrix.from_algmod; model counterpart: the factor 1/4 of Variance.Setup.threeWay -/
def threeway_quarter {α : Type} [Mul α] [Div α] [OfNat α 1] [OfNat α 4] (varA_mat : α) : α :=
  let varA_mat := (varA_mat * (1 / 4))
  varA_mat

/-- pybrops/model/vmat/DenseTwoWayDHAdditiveGenicVarianceMatrix.py :: DenseTwoWayDHAdditiveGenicVarianceMatrix.from_algmod; model counterpart: (ploidy u)^2 -/
def genic_varcoef {α : Type} [Mul α] (ploidy : α) (u : α) : α :=
  let varcoef := (let pw_ := (ploidy * u); pw_ * pw_)
  varcoef

/-- pybrops/model/vmat/DenseTwoWayDHAdditiveGenicVarianceMatrix.py :: DenseTwoWayDHAdditiveGenicVarianceMatrix.from_algmod; model counterpart: summand of the genic variance (ploidy u)^2 p (1-p) -/
def genic_term {α : Type} [Sub α] [Mul α] [OfNat α 1] (varcoef : α) (p : α) : α :=
  let v := ((varcoef * p) * (1 - p))
  v

end PyK.C12
