/-
REGENERATED on every run by harness/py2lean.py (regen) from the pybrops sources -- do not edit.
Property C05: arithmetic kernels translated from Python (module `ast`) to Lean, proved equal to the
model definitions in PybropsModel/Lemmas/PyKEq_C05.lean.
Reading: float literals are the decimal rationals written in the source; a numpy ufunc expression on
arrays is translated as the scalar function of ONE element (elementwise application is implicit);
shape-only operations (`x[:, None]`, `.copy()`, `float()`) are the identity; `x[m] = e` with a boolean
mask is `if m then e else x`; a raised exception is `none`.

kernel trans_sum: pybrops/breed/prot/sel/prob/trans.py :: trans_sum  sha=e34e9e9df765222d  ok
kernel trans_dot: pybrops/breed/prot/sel/prob/trans.py :: trans_dot  sha=9f94966a7a0e9e7b  ok
kernel trans_decnvec_sum_eq: pybrops/breed/prot/sel/prob/trans.py :: trans_decnvec_sum_eq  sha=d3a1219ca7dffcaf  ok
kernel evalfn_obj: pybrops/breed/prot/sel/prob/SelectionProblem.py :: SelectionProblem.evalfn  sha=43b13ca96ba13ae0  ok
    slice: targets ['obj'] -> obj
    out of scope (parameter t): `self.obj_trans(x, latent, **self.obj_trans_kwargs)`
kernel contrib_gain: pybrops/breed/prot/sel/prob/UsefulnessCriterionSelectionProblem.py :: UsefulnessCriterionRealMateSelectionProblem.latentfn  sha=603e062bf7f00fe4  ok
kernel ocs_contrib: pybrops/breed/prot/sel/prob/OptimalContributionSelectionProblem.py :: OptimalContributionRealSelectionProblem.latentfn  sha=a6c3f9e54bdc5192  ok
    slice: targets ['contrib', 'xsum'] -> contrib
kernel uc_cell: pybrops/breed/prot/sel/prob/UsefulnessCriterionSelectionProblem.py :: UsefulnessCriterionSelectionProblemMixin._calc_uc  sha=caee992a4153cc69  ok
    slice: targets ['uc'] -> uc
    out of scope (parameter): pmean = epgc.dot(bvmat[cconfig, :])
    out of scope (parameter): pvar = vmat[tuple(cconfig) + (slice(None),)]
-/
import PybropsModel.Model.Selection
import PybropsModel.Np

namespace PyK.C05

/-- pybrops/breed/prot/sel/prob/trans.py :: trans_sum; model counterpart: Pareto.latentSum -/
def trans_sum {α : Type} [Add α] [OfNat α 0] (latentvec : List α) : List α :=
  let out := [(Np.sum latentvec)]
  out

/-- pybrops/breed/prot/sel/prob/trans.py :: trans_dot; model counterpart: Pareto.latentDot -/
def trans_dot {α : Type} [Add α] [Mul α] [OfNat α 0] (latentvec : List α) (latentvec_wt : List α) : List α :=
  let prod := (List.zipWith (fun x y => x * y) latentvec_wt latentvec)
  let out := [(Np.sum prod)]
  out

/-- pybrops/breed/prot/sel/prob/trans.py :: trans_decnvec_sum_eq; model counterpart: |sum x - s| -/
def trans_decnvec_sum_eq {α : Type} [Add α] [Sub α] [Neg α] [OfNat α 0] [LT α] [DecidableLT α] (decnvec : List α) (decnvec_sum : α) : List α :=
  (List.map (fun y => (if y < 0 then -y else y)) (List.map (fun x => x - decnvec_sum) [(Np.sum decnvec)]))

/-- pybrops/breed/prot/sel/prob/SelectionProblem.py :: SelectionProblem.evalfn; model counterpart: obj_wt * obj_trans -/
def evalfn_obj {α : Type} [Mul α] (obj_wt : α) (t : α) : α :=
  let obj := (obj_wt * t)
  obj

/-- pybrops/breed/prot/sel/prob/UsefulnessCriterionSelectionProblem.py :: UsefulnessCriterionRealMateSelectionProblem.latentfn; model counterpart: Selection: -( (1/sum x) x ) . column -/
def contrib_gain {α : Type} [Add α] [Mul α] [Div α] [Neg α] [OfNat α 0] [OfNat α 1] (x : List α) (col : List α) : α :=
  let contrib := (List.map (fun y => (1 / (Np.sum x)) * y) x)
  let out := (-(Np.dot contrib col))
  out

/-- pybrops/breed/prot/sel/prob/OptimalContributionSelectionProblem.py :: OptimalContributionRealSelectionProblem.latentfn; model counterpart: Selection: contributions with the zero-sum guard -/
def ocs_contrib {α : Type} [Add α] [Mul α] [Div α] [Neg α] [OfNat α 0] [OfNat α 1] [OfNat α 10000000000] [LT α] [DecidableLT α] [LE α] [DecidableLE α] (x : List α) : List α :=
  let xsum := (Np.sum x)
  let xsum := (if ((if xsum < 0 then -xsum else xsum) ≥ (1 / 10000000000)) then xsum else 1)
  let contrib := (List.map (fun y => (1 / xsum) * y) x)
  contrib

/-- pybrops/breed/prot/sel/prob/UsefulnessCriterionSelectionProblem.py :: UsefulnessCriterionSelectionProblemMixin._calc_uc; model counterpart: Variance.ucVal = pmean + i * sqrt(pvar) -/
def uc_cell {α : Type} [Add α] [Mul α] [OfNat α 0] [LT α] [DecidableLT α] [Selection.HasSqrt α] (pmean : α) (selection_intensity : α) (pvar : α) : α :=
  let uc := (pmean + (selection_intensity * (Selection.HasSqrt.sqrt (if pvar < 0 then 0 else pvar))))
  uc

end PyK.C05
