/-
REGENERATED on every run by harness/py2lean.py (regen) from the pybrops sources -- do not edit.
Property C11: arithmetic kernels translated from Python (module `ast`) to Lean, proved equal to the
model definitions in PybropsModel/Lemmas/PyKEq_C11.lean.
Reading: float literals are the decimal rationals written in the source; a numpy ufunc expression on
arrays is translated as the scalar function of ONE element (elementwise application is implicit);
shape-only operations (`x[:, None]`, `.copy()`, `float()`) are the identity; `x[m] = e` with a boolean
mask is `if m then e else x`; a raised exception is `none`.

kernel haldane_mapfn: pybrops/popgen/gmap/HaldaneMapFunction.py :: HaldaneMapFunction.mapfn  sha=a937bf2b6187f89d  ok
kernel haldane_invmapfn: pybrops/popgen/gmap/HaldaneMapFunction.py :: HaldaneMapFunction.invmapfn  sha=f74014161ecbf829  ok
kernel kosambi_mapfn: pybrops/popgen/gmap/KosambiMapFunction.py :: KosambiMapFunction.mapfn  sha=d4002e21190303a1  ok
kernel kosambi_invmapfn: pybrops/popgen/gmap/KosambiMapFunction.py :: KosambiMapFunction.invmapfn  sha=37a55ca1202a4dac  ok
kernel gdist2g_cell: pybrops/popgen/gmap/StandardGeneticMap.py :: StandardGeneticMap.gdist2g  sha=ef3af152e6f952e8  ok
    slice: targets ['out'] -> out
    out of scope (parameter): mi, mj = numpy.meshgrid(vrnt_chrgrp[rst:rsp], vrnt_chrgrp[cst:csp], indexing='ij', sparse=True)
    out of scope (parameter): gi, gj = numpy.meshgrid(vrnt_genpos[rst:rsp], vrnt_genpos[cst:csp], indexing='ij', sparse=True)
kernel gdist2g_cell_ext: pybrops/popgen/gmap/ExtendedGeneticMap.py :: ExtendedGeneticMap.gdist2g  sha=ef3af152e6f952e8  ok
    slice: targets ['out'] -> out
    out of scope (parameter): mi, mj = numpy.meshgrid(vrnt_chrgrp[rst:rsp], vrnt_chrgrp[cst:csp], indexing='ij', sparse=True)
    out of scope (parameter): gi, gj = numpy.meshgrid(vrnt_genpos[rst:rsp], vrnt_genpos[cst:csp], indexing='ij', sparse=True)
-/
import PybropsModel.Model.GMap
import PybropsModel.Np

namespace PyK.C11

/-- pybrops/popgen/gmap/HaldaneMapFunction.py :: HaldaneMapFunction.mapfn; model counterpart: GMap.haldane -/
def haldane_mapfn {α : Type} [Sub α] [Mul α] [Div α] [Neg α] [OfNat α 1] [OfNat α 2] [GMap.HasExp α] (d : α) : α :=
  let r := ((1 / 2) * (1 - (GMap.HasExp.exp ((-2) * d))))
  r

/-- pybrops/popgen/gmap/HaldaneMapFunction.py :: HaldaneMapFunction.invmapfn; model counterpart: GMap.invHaldane -/
def haldane_invmapfn {α : Type} [Sub α] [Mul α] [Div α] [Neg α] [OfNat α 1] [OfNat α 2] [GMap.HasLog α] (r : α) : α :=
  let d := ((-(1 / 2)) * (GMap.HasLog.log (1 - (2 * r))))
  d

/-- pybrops/popgen/gmap/KosambiMapFunction.py :: KosambiMapFunction.mapfn; model counterpart: GMap.kosambi -/
def kosambi_mapfn {α : Type} [Mul α] [Div α] [OfNat α 1] [OfNat α 2] [GMap.HasTanh α] (d : α) : α :=
  let r := ((1 / 2) * (GMap.HasTanh.tanh (2 * d)))
  r

/-- pybrops/popgen/gmap/KosambiMapFunction.py :: KosambiMapFunction.invmapfn; model counterpart: GMap.invKosambi -/
def kosambi_invmapfn {α : Type} [Mul α] [Div α] [OfNat α 1] [OfNat α 2] [GMap.HasArtanh α] (r : α) : α :=
  let d := ((1 / 2) * (GMap.HasArtanh.artanh (2 * r)))
  d

/-- pybrops/popgen/gmap/StandardGeneticMap.py :: StandardGeneticMap.gdist2g; model counterpart: GMap.pairDist (on non-NaN positions) -/
def gdist2g_cell {α : Type} [Sub α] [Neg α] [OfNat α 0] [LT α] [DecidableLT α] (gi : α) (gj : α) (mi : Int) (mj : Int) : GMap.GDist α :=
  let out := (let ab_ := (gi - gj); if ab_ < 0 then -ab_ else ab_)
  let out : GMap.GDist α := if (mi ≠ mj) then GMap.GDist.inf else GMap.GDist.fin out
  out

/-- pybrops/popgen/gmap/ExtendedGeneticMap.py :: ExtendedGeneticMap.gdist2g; model counterpart: GMap.pairDist (on non-NaN positions) -/
def gdist2g_cell_ext {α : Type} [Sub α] [Neg α] [OfNat α 0] [LT α] [DecidableLT α] (gi : α) (gj : α) (mi : Int) (mj : Int) : GMap.GDist α :=
  let out := (let ab_ := (gi - gj); if ab_ < 0 then -ab_ else ab_)
  let out : GMap.GDist α := if (mi ≠ mj) then GMap.GDist.inf else GMap.GDist.fin out
  out

end PyK.C11
