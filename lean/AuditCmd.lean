/-
Axiom audit command.  A file that does
    import AuditCmd
    import PybropsModel.Props.C19
    #audit_module PybropsModel.Props.C19
prints one line per theorem declared in that module:
    THM <module> <name> :: <axiom> <axiom> ...
(generated and run by harness/lean_tools.py on every check)
-/
import Lean
open Lean Elab Command

def auditInternal (n : Name) : Bool :=
  n.isInternal || n.components.any fun c => match c with
    | .str _ s => s.startsWith "_" || s.startsWith "match_" || s.startsWith "proof_"
    | _ => false

elab "#audit_module " m:ident : command => do
  let env ← getEnv
  let some idx := env.getModuleIdx? m.getId
    | throwError "module not imported: {m.getId}"
  let names := env.header.moduleData[idx.toNat]!.constNames
  let mut out : Array String := #[]
  for n in names do
    if auditInternal n then continue
    if let some (.thmInfo _) := env.find? n then
      let axs ← liftCoreM (collectAxioms n)
      out := out.push s!"THM {m.getId} {n} :: {" ".intercalate (axs.toList.map toString)}"
  for l in out do IO.println l
